#![no_main]
//! libFuzzer target: the same decoder and oracle as `./check C08` (lane "renders").
use libfuzzer_sys::fuzz_target;

fuzz_target!(|data: &[u8]| {
    harness::fuzz_one("C08", "renders", data);
});
