#![no_main]
//! libFuzzer target: the same decoder and oracle as `./check C09` (lane "writer-sequences").
use libfuzzer_sys::fuzz_target;

fuzz_target!(|data: &[u8]| {
    harness::fuzz_one("C09", "writer-sequences", data);
});
