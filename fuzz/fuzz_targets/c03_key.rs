#![no_main]
//! libFuzzer target: the same decoder and oracle as `./check C03` (lane "triples").
use libfuzzer_sys::fuzz_target;

fuzz_target!(|data: &[u8]| {
    harness::fuzz_one("C03", "triples", data);
});
