#![no_main]
//! libFuzzer target: the same decoder and oracle as `./check C15` (lane "histogram-storage").
use libfuzzer_sys::fuzz_target;

fuzz_target!(|data: &[u8]| {
    harness::fuzz_one("C15", "histogram-storage", data);
});
