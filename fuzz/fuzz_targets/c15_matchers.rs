#![no_main]
//! libFuzzer target: the same decoder and oracle as `./check C15` (lane "matchers").
use libfuzzer_sys::fuzz_target;

fuzz_target!(|data: &[u8]| {
    harness::fuzz_one("C15", "matchers", data);
});
