#![no_main]
//! libFuzzer target: the same decoder and oracle as `./check C13` (lane "layer-trees").
use libfuzzer_sys::fuzz_target;

fuzz_target!(|data: &[u8]| {
    harness::fuzz_one("C13", "layer-trees", data);
});
