#![no_main]
//! libFuzzer target: the same decoder and oracle as `./check C14` (lane "ops").
use libfuzzer_sys::fuzz_target;

fuzz_target!(|data: &[u8]| {
    harness::fuzz_one("C14", "ops", data);
});
