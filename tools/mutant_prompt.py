#!/usr/bin/env python3
import json,sys
pid=sys.argv[1]; n=sys.argv[2] if len(sys.argv)>2 else "1"
for l in open('/verif/properties.jsonl'):
    p=json.loads(l)
    if p['id']==pid: break
wt=f"/tmp/wt/{pid}_{n}"
import os
ideas=json.load(open("/verif/tools/prior_ideas.json")) if os.path.exists("/verif/tools/prior_ideas.json") else {}
avoid=""
if n!="1" and pid in ideas:
    prev=ideas[pid][:int(n)-1]
    lst="\n".join(f"  ({i+1}) {t}" for i,t in enumerate(prev))
    avoid=f"\nEarlier attempts already used the following ideas, so do NOT reuse any of them or a close variant:\n{lst}\nChoose a substantially different idea — a different code site, or a different clause of the property (the statement has several), or a different kind of trigger (e.g. an API entry point, configuration option or input class the ideas above do not touch).\n"
print(f"""You are helping test a verification suite by producing a realistic, subtle regression in the Rust project metrics-rs/metrics.

Your private working copy is the git worktree at {wt} (a checkout of the project; work ONLY there; never touch /repo or /verif; do not read anything under /verif). The sandbox is offline: always pass --offline to cargo (e.g. `cd {wt} && cargo test --offline -p metrics-util`). The toolchain is pinned by rust-toolchain.toml (1.74.0). Some source lines are `#[cfg(metrics_verif)]` hook calls — leave those lines alone and do not build with that cfg.

The property that must be BROKEN by your change:

Title: {p['title']}
Statement: {p['statement']}
It quantifies over: {p['quantifier']['text']}
Code it is anchored in: {', '.join(p['anchors']['files'])}

{avoid}
Task: make ONE small source change (a few lines, in the library crates, not in tests) that a plausible refactoring or 'optimisation' could introduce, which violates the property above while
  (a) the whole workspace still compiles, and
  (b) the existing test suite still passes unchanged (`cargo test --offline -p <affected crate(s)>`, and make sure dependents still compile: `cargo build --offline --workspace`), and
  (c) it needs something SPECIFIC to manifest — a particular thread interleaving, a multi-step sequence of operations, an unusual input value/shape, a boundary condition, or two cooperating sites that each look fine alone — NOT something ordinary use would expose at once.
Then write a demonstration: a new test file or small example program in the worktree (e.g. {wt}/<crate>/tests/demo_{pid.lower()}.rs) that FAILS with your change and PASSES without it (verify both: use `git diff > p.diff; git apply -R p.diff` … `git apply p.diff` — never `git stash`, the stash is shared between worktrees — to check the unchanged behaviour). If the violation needs a thread interleaving, make the demo deterministic if you can (e.g. with sleeps/barriers at the right places or by calling the steps in the critical order), or loop until it manifests with a bounded number of attempts.

Deliver, inside {wt}/_out/ (create it):
  - patch.diff : `git diff` of ONLY the library source change (not the demo), applicable with `git apply` at the repository root;
  - the demonstration file(s) and a file demo_cmd.txt whose LAST line is one self-contained shell command that, run from the worktree root of a clean checkout, copies the demo from _out/ into place and runs it (e.g. `mkdir -p <crate>/tests && cp _out/demo.rs <crate>/tests/demo.rs && cargo test --offline -p <crate> --test demo`);
  - notes.md : what the change is, which part of the property it breaks, and exactly what is needed for it to manifest.
Finally leave the worktree with the library change reverted (`git checkout -- .` for tracked files; keep _out/). Reply with a short summary (the change, the trigger, and the verification you did). Be efficient: aim to finish within ~25 minutes of work; prefer a second, different idea only if the first fails (a)-(c).""")
