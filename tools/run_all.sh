#!/bin/bash
# tools/run_all.sh [tier] [seeds...]: every check under the given seeds; prints one line per run.
TIER="${1:-quick}"; shift || true
SEEDS="${*:-1}"
cd "$(dirname "$0")/.."
for seed in $SEEDS; do
  for id in $(python3 -c "import json; print(' '.join(c['property_id'] for c in json.load(open('MANIFEST.json'))['checks']))"); do
    t0=$(date +%s)
    out="$(VERIF_SEED=$seed ./check $id --tier $TIER 2>/tmp/run_all_err.log)"; rc=$?
    t1=$(date +%s)
    echo "seed=$seed $id rc=$rc $((t1-t0))s $(echo "$out" | grep -E 'VIOLATION|KNOWN' | cut -c1-120 | tr '\n' ' ')"
    if [ $rc -ne 0 ]; then grep -E "violation in|inconclusive|HARNESS" /tmp/run_all_err.log | cut -c1-400; fi
  done
done
