#!/usr/bin/env python3
"""Lists every `pub fn` of the anchored crates whose name no harness source mentions (a cheap way to find
API entry points, constructors and builder options that no generator can reach). Test modules are skipped."""
import re, os
harness = ""
for root, _, fs in os.walk(os.path.join(os.path.dirname(os.path.abspath(__file__)), "..", "harness", "src")):
    for f in fs:
        harness += open(os.path.join(root, f)).read()
repo = os.environ.get("VERIF_REPO_ROOT", "/repo")
out = {}
for crate in ["metrics", "metrics-util", "metrics-exporter-prometheus", "metrics-exporter-dogstatsd", "metrics-exporter-tcp", "metrics-tracing-context"]:
    for root, _, fs in os.walk(f"{repo}/{crate}/src"):
        for f in fs:
            if not f.endswith(".rs"):
                continue
            p = os.path.join(root, f)
            src = open(p).read().split("#[cfg(test)]")[0]
            for m in re.finditer(r"pub (?:const )?(?:unsafe )?fn (\w+)", src):
                n = m.group(1)
                if not n.startswith("__") and not re.search(r"\b" + n + r"\b", harness):
                    out.setdefault(p.replace(repo + "/", ""), []).append(n)
for k, v in sorted(out.items()):
    print(k, ":", ", ".join(v))
