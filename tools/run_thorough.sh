#!/bin/bash
# tools/run_thorough.sh [parallelism] [ids...]: the thorough tier of every (or the given) check, several at a time
# (the libFuzzer phase of a check is single-threaded); one line per check in /verif/replays/out/thorough.log
P="${1:-4}"; shift || true
cd "$(dirname "$0")/.."
IDS="${*:-$(python3 -c "import json; print(' '.join(c['property_id'] for c in json.load(open('MANIFEST.json'))['checks']))")}"
mkdir -p replays/out; : > replays/out/thorough.log
./check build >/dev/null 2>&1; tools/fuzz.sh build >/dev/null 2>&1
run_one() {
  id="$1"; t0=$(date +%s)
  out="$(VERIF_SEED=${VERIF_SEED:-1} ./check "$id" --tier thorough 2>"replays/out/thorough-$id.err")"; rc=$?
  t1=$(date +%s)
  echo "$id rc=$rc $((t1-t0))s $(echo "$out" | grep -E 'VIOLATION|KNOWN' | cut -c1-100 | tr '\n' ' ')" >> replays/out/thorough.log
}
export -f run_one
echo $IDS | tr ' ' '\n' | xargs -P "$P" -I{} bash -c 'run_one {}'
cat replays/out/thorough.log
