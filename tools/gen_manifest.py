#!/usr/bin/env python3
"""Regenerates /verif/MANIFEST.json from the table below (run after adding a check)."""
import json, os, subprocess
ROOT = os.path.dirname(os.path.dirname(os.path.abspath(__file__)))
ALL = ["C%02d" % i for i in range(1, 21)]
# id -> (technique, level text, level note, design ref)
CHECKS = {
 "C03": ("proptest-driven choice-sequence PBT of key triples against a reference model + generated-schedule race lane + bounded-exhaustive enumeration of small label lists",
         "Generated-input search: millions of key triples built through 9 construction paths over a colliding alphabet, checked for Eq/Ord/Hash coherence, model agreement and transitivity; first-use get_hash races explored under harness-owned schedules; all pairs of label lists of length <=3 over 2x2 labels enumerated. Held-on-everything-explored, not a proof.",
         "Trusts the harness's reference model (name equal and label multisets equal for distinct names); SC interleavings at hook granularity only.", "DESIGN.md §6 C03"),
 "C16": ("proptest-driven model-based PBT of push/drain cycles + generated-schedule exploration of pushes concurrent with drains + statistical retention test over independent trials",
         "Sequential histories over capacities {0,1,2,3,8,64,1024} against an exact multiset/count/sample-rate model; pushes racing a drain under harness-owned schedules with a history oracle (nothing fabricated, stale or yielded twice, never above capacity); per-position retention frequencies tested at 6 sigma. One known finding (drain reads a claimed-but-unwritten slot) is tolerated by exact signature only.",
         "Uniformity uses the library's own OsRng-seeded PRNG (not a function of VERIF_SEED); SC interleavings at hook granularity only; statistical test, not a decision.", "DESIGN.md §6 C16"),
}
PENDING_REASON = "check not built yet in this round of work (planned in DESIGN.md §6; property-based testing applies)"
def main():
    hooks = subprocess.run(["git", "-C", "/repo", "log", "--format=%h %s", "--grep=^verif hooks"], capture_output=True, text=True).stdout.strip().splitlines()
    m = {
        "version": 1,
        "setup_cmd": "./check build",
        "hooks": {
            "guard": "--cfg metrics_verif",
            "enable": "RUSTFLAGS=\"--cfg metrics_verif\" cargo build --release --offline (done by /verif/check for the harness crate, which depends on /repo's crates by path)",
            "baseline_off_cmd": "cd /repo && cargo test --workspace --no-fail-fast --offline",
            "source_commits": [h.split()[0] for h in hooks],
            "add_only": True,
        },
        "engines": [
            {"name": "harness", "path": "harness/", "serves_properties": sorted(CHECKS), "kind_free_text": "Rust binary (toolchain 1.74.0): choice-sequence decoders driven by proptest 1.6.0 (generation + shrinking), baton-passing deterministic scheduler over cfg(metrics_verif) hook points, reference models / independent parsers as oracles"},
        ],
        "checks": [],
        "not_applicable": [],
        "notes": "All checks: ./check <ID> [--tier quick|thorough]; VERIF_SEED selects the PRNG seed; exit 0 held / 1 VIOLATION / 2 build failure or inconclusive. Known findings: known_findings.json (read-only at run time).",
    }
    for pid in ALL:
        if pid in CHECKS:
            tech, text, note, ref = CHECKS[pid]
            m["checks"].append({
                "property_id": pid,
                "quick_cmd": "./check %s --tier quick" % pid,
                "thorough_cmd": "./check %s --tier thorough" % pid,
                "evidence_file": "evidence/%s.json" % pid,
                "replay_cmd_template": "./check %s --replay {path}" % pid,
                "engine": "harness",
                "level_claimed": {"category": "exploration", "text": text, "design_ref": ref},
                "level_note": note,
                "technique": tech,
            })
        else:
            m["not_applicable"].append({"property_id": pid, "reason": PENDING_REASON})
    json.dump(m, open(os.path.join(ROOT, "MANIFEST.json"), "w"), indent=1)
    print("checks:", len(m["checks"]), "not_applicable:", len(m["not_applicable"]))
main()
