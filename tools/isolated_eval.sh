#!/bin/bash
# tools/isolated_eval.sh <ID> <round>: try a seeded patch (/tmp/wt/<ID>_<round>/_out/patch.diff) without touching /repo or
# /verif/harness — for when long check runs are in progress there. Needs, once:
#   git -C /repo worktree add --detach /tmp/wt/evalrepo HEAD
#   rsync -a --exclude target /verif/harness/ /tmp/hscratch/ && sed "s|@REPO@|/tmp/wt/evalrepo|g" /tmp/hscratch/Cargo.toml.in > /tmp/hscratch/Cargo.toml
#   mkdir -p /tmp/hroot && cp -r /verif/replays /verif/known_findings.json /tmp/hroot/
# The verdict that is recorded in seeded/<ID>-<name>/meta.json always comes from tools/seed_eval.sh against /repo.
ID=$1; N=$2
P=/tmp/wt/${ID}_${N}/_out/patch.diff
git -C /tmp/wt/evalrepo checkout -q -- .
# (rebuild so that the scratch binary never stays linked against a patched tree)
cd /tmp/hscratch && CARGO_NET_OFFLINE=true RUSTFLAGS="--cfg metrics_verif" cargo build --release --offline >/dev/null 2>&1
git -C /tmp/wt/evalrepo apply "$P" || { echo "patch does not apply"; exit 2; }
cd /tmp/hscratch && CARGO_NET_OFFLINE=true RUSTFLAGS="--cfg metrics_verif" cargo build --release --offline 2>&1 | grep -E "^error" -A8 | head -20
VERIF_REPO_ROOT=/tmp/wt/evalrepo VERIF_ROOT=/tmp/hroot timeout 900 ./target/release/harness "$ID" 2>&1 | grep -E "violation in|^OK|VIOLATION|inconclusive" | cut -c1-330 | head -4
git -C /tmp/wt/evalrepo checkout -q -- .
# (rebuild so that the scratch binary never stays linked against a patched tree)
cd /tmp/hscratch && CARGO_NET_OFFLINE=true RUSTFLAGS="--cfg metrics_verif" cargo build --release --offline >/dev/null 2>&1
