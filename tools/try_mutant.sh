#!/bin/bash
# tools/try_mutant.sh <patch.diff> <ID> [more check args]: apply a patch to /repo, run the check, undo.
set -u
P="$1"; shift
if [ -n "$(git -C /repo status --porcelain)" ]; then echo "/repo has uncommitted changes; refusing"; exit 2; fi
git -C /repo apply "$P" || { echo "patch does not apply"; exit 2; }
/verif/check "$@"; rc=$?
git -C /repo checkout -- . 
echo "mutant-run exit=$rc"
exit $rc
