#!/bin/bash
# tools/fuzz.sh setup            unpack both offline cargo registry caches into /verif/vendor (git-ignored)
# tools/fuzz.sh build [target]   cargo +nightly fuzz build (ASan, debug assertions) against /repo's working tree
# tools/fuzz.sh run <target> [runs] [seed]   run a target of fuzz/targets.tsv for a fixed number of executions (default: the table's),
#                                           or until VERIF_FUZZ_MAX_SECONDS (default 480) have passed, whichever comes first
# A crash artifact (fuzz/artifacts/<target>/crash-*) is the raw case bytes: replay with
#   ./check <ID> --replay <file made by tools/fuzz.sh replayfile <target> <artifact>>
set -eu
ROOT="$(cd "$(dirname "$0")/.." && pwd)"
VENDOR="$ROOT/vendor"
export CARGO_NET_OFFLINE=true
cmd="${1:-}"; shift || true
case "$cmd" in
  setup)
    if [ -f "$VENDOR/.complete" ]; then echo "vendor directory present"; exit 0; fi
    rm -rf "$VENDOR"; mkdir -p "$VENDOR"
    for cache in "$HOME"/.cargo/registry/cache/*; do
      for c in "$cache"/*.crate; do
        name="$(basename "$c" .crate)"
        [ -d "$VENDOR/$name" ] && continue
        tar -xzf "$c" -C "$VENDOR"
        sum="$(sha256sum "$c" | cut -d' ' -f1)"
        printf '{"files":{},"package":"%s"}' "$sum" > "$VENDOR/$name/.cargo-checksum.json"
      done
    done
    touch "$VENDOR/.complete"; echo "vendored $(ls "$VENDOR" | wc -l) crates"
    ;;
  build)
    "$ROOT/check" build
    "$0" setup
    cd "$ROOT/fuzz"
    RUSTFLAGS="--cfg metrics_verif" cargo +nightly fuzz build --fuzz-dir "$ROOT/fuzz" ${1:-}
    ;;
  run)
    t="$1"
    row="$(grep -P "^$t\t" "$ROOT/fuzz/targets.tsv" || true)"
    [ -n "$row" ] || { echo "unknown target $t (see fuzz/targets.tsv)"; exit 2; }
    pid="$(echo "$row" | cut -f2)"; lane="$(echo "$row" | cut -f3)"; split="$(echo "$row" | cut -f4)"
    runs="${2:-$(echo "$row" | cut -f5)}"; seed="${3:-${VERIF_SEED:-1}}"; maxlen="$(echo "$row" | cut -f6)"
    # (the harness leaks on purpose in several lanes — forgotten guards, leaked recorder doubles, exporters with threads —
    # so LeakSanitizer is off; leaks inside the code under test are C14's allocation-balance oracle's business)
    # a fresh corpus per run (VERIF_FUZZ_KEEP_CORPUS=1 keeps what earlier runs found), so that a run is as much a function
    # of the tree and the seed as libFuzzer allows
    cd "$ROOT/fuzz"; [ -n "${VERIF_FUZZ_KEEP_CORPUS:-}" ] || rm -rf "corpus/$t"; mkdir -p "corpus/$t"
    # seed corpus: the committed regression replays of the same lane (raw case bytes, schedule appended for split targets)
    python3 - "$ROOT" "$t" "$pid" "$lane" "$split" <<'PY' || true
import json,glob,sys,os
root,t,pid,lane,split=sys.argv[1:6]
for f in glob.glob(f"{root}/replays/{pid}/*.json"):
    v=json.load(open(f))
    if v.get("lane")==lane and v.get("bytes_hex") is not None:
        b=bytes.fromhex(v["bytes_hex"]); s=bytes.fromhex(v.get("sched_hex") or "")
        if split=="1":
            if len(b)>255: continue
            b=bytes([len(b)])+b+s
        open(f"{root}/fuzz/corpus/{t}/seed-{os.path.basename(f)}","wb").write(b)
PY
    ASAN_OPTIONS="detect_leaks=0${ASAN_OPTIONS:+:$ASAN_OPTIONS}" VERIF_ROOT="$ROOT" RUSTFLAGS="--cfg metrics_verif" cargo +nightly fuzz run --fuzz-dir "$ROOT/fuzz" "$t" -- -runs="$runs" -max_total_time="${VERIF_FUZZ_MAX_SECONDS:-480}" -seed="$seed" -len_control=0 -max_len="$maxlen" -detect_leaks=0 -print_final_stats=1
    ;;
  replayfile)
    t="$1"; art="$2"
    row="$(grep -P "^$t\t" "$ROOT/fuzz/targets.tsv")"
    id="$(echo "$row" | cut -f2)"; lane="$(echo "$row" | cut -f3)"; split="$(echo "$row" | cut -f4)"
    out="$ROOT/replays/out/$id-fuzz-$(basename "$art").json"; mkdir -p "$ROOT/replays/out"
    python3 - "$art" "$id" "$lane" "$out" "$split" <<'PY'
import json,sys
art,pid,lane,out,split=sys.argv[1:6]
b=open(art,'rb').read(); s=b""
if split=="1":
    n=b[0] if b else 0
    rest=b[1:]; n=min(n,len(rest)); b,s=rest[:n],rest[n:]
json.dump({'property':pid,'lane':lane,'engine':'libFuzzer','bytes_hex':b.hex(),'sched_hex':s.hex(),'expect':'pass'},open(out,'w'),indent=1)
PY
    echo "$out"
    ;;
  *) echo "usage: fuzz.sh setup|build [target]|run <target> [runs] [seed]|replayfile <target> <artifact>"; exit 2;;
esac
