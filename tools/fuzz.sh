#!/bin/bash
# tools/fuzz.sh setup            unpack both offline cargo registry caches into /verif/vendor (git-ignored)
# tools/fuzz.sh build [target]   cargo +nightly fuzz build (ASan, debug assertions) against /repo's working tree
# tools/fuzz.sh run <target> [runs] [seed]   run a target for a fixed number of executions
# A crash artifact (fuzz/artifacts/<target>/crash-*) is the raw case bytes: replay with
#   ./check <ID> --replay <file made by tools/fuzz.sh replayfile <target> <artifact>>
set -eu
ROOT="$(cd "$(dirname "$0")/.." && pwd)"
VENDOR="$ROOT/vendor"
export CARGO_NET_OFFLINE=true
cmd="${1:-}"; shift || true
case "$cmd" in
  setup)
    if [ -f "$VENDOR/.complete" ]; then echo "vendor directory present"; exit 0; fi
    rm -rf "$VENDOR"; mkdir -p "$VENDOR"
    for cache in "$HOME"/.cargo/registry/cache/*; do
      for c in "$cache"/*.crate; do
        name="$(basename "$c" .crate)"
        [ -d "$VENDOR/$name" ] && continue
        tar -xzf "$c" -C "$VENDOR"
        sum="$(sha256sum "$c" | cut -d' ' -f1)"
        printf '{"files":{},"package":"%s"}' "$sum" > "$VENDOR/$name/.cargo-checksum.json"
      done
    done
    touch "$VENDOR/.complete"; echo "vendored $(ls "$VENDOR" | wc -l) crates"
    ;;
  build)
    "$ROOT/check" build
    "$0" setup
    cd "$ROOT/fuzz"
    RUSTFLAGS="--cfg metrics_verif" cargo +nightly fuzz build --fuzz-dir "$ROOT/fuzz" ${1:-}
    ;;
  run)
    t="$1"; runs="${2:-200000}"; seed="${3:-${VERIF_SEED:-1}}"
    cd "$ROOT/fuzz"; mkdir -p "corpus/$t"
    # seed corpus: the committed regression replays of the same lane (raw case bytes)
    python3 - "$ROOT" "$t" <<'PY' || true
import json,glob,sys,os,re
root,t=sys.argv[1:3]
src=open(f"{root}/fuzz/fuzz_targets/{t}.rs").read()
m=re.search(r'fuzz_one\("(C\d+)", "([^"]+)"',src)
if m:
    pid,lane=m.groups()
    for f in glob.glob(f"{root}/replays/{pid}/*.json"):
        v=json.load(open(f))
        if v.get("lane")==lane and v.get("bytes_hex") is not None:
            open(f"{root}/fuzz/corpus/{t}/seed-{os.path.basename(f)}","wb").write(bytes.fromhex(v["bytes_hex"]))
PY
    VERIF_ROOT="$ROOT" RUSTFLAGS="--cfg metrics_verif" cargo +nightly fuzz run --fuzz-dir "$ROOT/fuzz" "$t" -- -runs="$runs" -seed="$seed" -len_control=0 -max_len=512 -print_final_stats=1
    ;;
  replayfile)
    t="$1"; art="$2"
    id="$(echo "$t" | cut -d_ -f1 | tr a-z A-Z)"; lane="$(grep -o "fuzz_one(\"$id\", \"[^\"]*\"" "$ROOT/fuzz/fuzz_targets/$t.rs" | sed 's/.*, "//; s/"//')"
    out="$ROOT/replays/out/$id-fuzz-$(basename "$art").json"; mkdir -p "$ROOT/replays/out"
    python3 -c "import json,sys; b=open(sys.argv[1],'rb').read(); json.dump({'property':sys.argv[2],'lane':sys.argv[3],'engine':'libFuzzer','bytes_hex':b.hex(),'sched_hex':'','expect':'pass'},open(sys.argv[4],'w'),indent=1)" "$art" "$id" "$lane" "$out"
    echo "$out"
    ;;
  *) echo "usage: fuzz.sh setup|build [target]|run <target> [runs] [seed]|replayfile <target> <artifact>"; exit 2;;
esac
