#!/bin/bash
# tools/seed_eval.sh <ID> <n> [name]: verify a sub-agent's seeded change in its worktree (demo passes without,
# fails with), store it under /verif/seeded/<ID>-<name>/, run ./check <ID> against it, record results.
set -u
ID="$1"; N="$2"; NAME="${3:-m$N}"
WT="/tmp/wt/${ID}_${N}"; OUT="$WT/_out"; DST="/verif/seeded/${ID}-${NAME}"
if [ "${SEED_PHASE:-all}" != wt ] && [ -n "$(git -C /repo status --porcelain)" ]; then echo "/repo has uncommitted changes; refusing"; exit 2; fi
[ -f "$OUT/patch.diff" ] || { echo "no patch in $OUT"; exit 2; }
PHASE="${SEED_PHASE:-all}"   # all | wt (worktree part only; may run in parallel) | check (reads the wt results)
CMD="$(cat "$OUT/demo_cmd.txt" | grep -v '^#' | grep -v '^$' | tail -n 1)"
mkdir -p "$DST"; cp -r "$OUT"/* "$DST"/
if [ "$PHASE" != check ]; then
cd "$WT" && git checkout -q -- . 
CMD="$(cat "$OUT/demo_cmd.txt" | grep -v '^#' | grep -v '^$' | tail -n 1)"
for c in "$WT"/metrics "$WT"/metrics-util "$WT"/metrics-exporter-* "$WT"/metrics-tracing-context; do mkdir -p "$c/tests"; done
echo "== demo without the change: $CMD"
( cd "$WT" && timeout 1200 bash -c "$CMD" ) > "$DST/demo_without.log" 2>&1; RC0=$?
git -C "$WT" checkout -q Cargo.lock 2>/dev/null
git -C "$WT" apply "$OUT/patch.diff" || { echo "patch does not apply in worktree"; exit 2; }
for c in "$WT"/metrics "$WT"/metrics-util "$WT"/metrics-exporter-* "$WT"/metrics-tracing-context; do mkdir -p "$c/tests"; done
echo "== demo with the change"
( cd "$WT" && timeout 1200 bash -c "$CMD" ) > "$DST/demo_with.log" 2>&1; RC1=$?
echo "== existing tests with the change"
git -C "$WT" clean -fdq -e _out -e target >/dev/null 2>&1
( cd "$WT" && timeout 2400 cargo test --offline --workspace --no-fail-fast --lib --bins --tests 2>&1 | grep -E "^test result|FAILED|failed|error(\[|:)" ) > "$DST/suite_with.log" 2>&1
SUITE_FAIL=$(grep -c -E "test result: FAILED|^error" "$DST/suite_with.log")
git -C "$WT" checkout -q -- . ; git -C "$WT" clean -fdq -e _out -e target >/dev/null 2>&1
echo "$RC0 $RC1 $SUITE_FAIL" > "$DST/.wt_rc"
fi
read RC0 RC1 SUITE_FAIL < "$DST/.wt_rc" || { echo "no worktree results"; exit 2; }
echo "demo without: rc=$RC0 ; demo with: rc=$RC1 ; suite failures with change: $SUITE_FAIL"
[ "$PHASE" = wt ] && exit 0
echo "== check against the change"
git -C /repo apply "$OUT/patch.diff" || { echo "patch does not apply to /repo"; exit 2; }
( cd /verif && VERIF_SEED=${VERIF_SEED:-1} ./check "$ID" --tier quick ) > "$DST/check_with.log" 2>&1; RCC=$?
git -C /repo checkout -- .
grep -E "VIOLATION|KNOWN|OK property|violation in" "$DST/check_with.log" | cut -c1-300
echo "check exit=$RCC"
python3 - "$ID" "$NAME" "$RC0" "$RC1" "$SUITE_FAIL" "$RCC" "$CMD" <<'PY'
import json,sys,os
ID,NAME,RC0,RC1,SF,RCC,CMD=sys.argv[1:8]
d=f"/verif/seeded/{ID}-{NAME}"
notes=open(d+"/notes.md").read() if os.path.exists(d+"/notes.md") else ""
meta={"property":ID,"name":NAME,"source":"independent sub-agent given only the property text and a scratch worktree",
 "needs_to_manifest":notes[:1500],
 "verified":{"demo_cmd":CMD,"demo_exit_without_change":int(RC0),"demo_exit_with_change":int(RC1),"existing_suite_failures_with_change":int(SF)},
 "check":{"cmd":f"./check {ID} --tier quick","exit":int(RCC),"detected":int(RCC)==1}}
json.dump(meta,open(d+"/meta.json","w"),indent=1)
PY
