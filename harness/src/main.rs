//! /verif harness: property-based checks for metrics-rs (see /verif/DESIGN.md).
#![allow(clippy::all)]
#![allow(dead_code)]

use harness::{alloc, engine, props};

use engine::runner::{install_panic_hook, RunCfg, Tier};

#[global_allocator]
static GLOBAL: alloc::VerifAlloc = alloc::VerifAlloc;

fn main() {
    let args: Vec<String> = std::env::args().collect();
    if args.len() < 2 {
        eprintln!("usage: harness <ID> [--tier quick|thorough] [--seed N] [--replay file] | harness list");
        std::process::exit(2);
    }
    install_panic_hook();
    let id = args[1].as_str();
    if id == "list" {
        for (id, _) in props::all() {
            println!("{}", id);
        }
        return;
    }
    let mut tier = match std::env::var("VERIF_TIER").as_deref() {
        Ok("thorough") => Tier::Thorough,
        _ => Tier::Quick,
    };
    let mut seed: u64 = std::env::var("VERIF_SEED").ok().and_then(|s| s.trim().parse::<i128>().ok()).map(|v| v as u64).unwrap_or(1);
    let mut replay: Option<String> = None;
    let mut worker = false;
    let mut i = 2;
    while i < args.len() {
        match args[i].as_str() {
            "--tier" => {
                i += 1;
                tier = if args.get(i).map(|s| s.as_str()) == Some("thorough") { Tier::Thorough } else { Tier::Quick };
            }
            "--seed" => {
                i += 1;
                seed = args.get(i).and_then(|s| s.parse::<i128>().ok()).map(|v| v as u64).unwrap_or(seed);
            }
            "--child" => {
                i += 1;
                let seed = args.get(i).and_then(|s| s.parse::<u64>().ok()).unwrap_or(0);
                std::process::exit(props::child(id, seed));
            }
            "--worker" => worker = true,
            "--replay" => {
                i += 1;
                replay = args.get(i).cloned();
            }
            other => {
                eprintln!("unknown argument {}", other);
                std::process::exit(2);
            }
        }
        i += 1;
    }
    if !worker && replay.is_none() {
        std::process::exit(supervise(id, &args[2..]));
    }
    let scale = std::env::var("VERIF_SCALE").ok().and_then(|s| s.parse::<f64>().ok()).unwrap_or(1.0);
    let cfg = RunCfg { tier, seed, scale, strict: replay.is_some(), known: vec![] };
    let Some((_, run)) = props::all().into_iter().find(|(pid, _)| *pid == id) else {
        eprintln!("unknown property {}", id);
        std::process::exit(2);
    };
    let code = run(&cfg, replay.as_deref());
    std::process::exit(code);
}

/// Runs the property in a child process so that memory corruption inside the code under test (heap
/// corruption, segfault, abort) is reported as a violation instead of killing the check.
fn supervise(id: &str, rest: &[String]) -> i32 {
    use std::os::unix::process::ExitStatusExt;
    use std::process::Command;
    let exe = std::env::current_exe().expect("current_exe");
    let run = |journal: Option<&std::path::Path>| -> std::io::Result<std::process::ExitStatus> {
        let mut c = Command::new(&exe);
        c.arg(id).args(rest).arg("--worker");
        if let Some(j) = journal {
            c.env("VERIF_JOURNAL", j).env("VERIF_WORKERS", "1");
        }
        // wall-clock limit: a worker that never finishes (a free-running lane that waits for ever) is
        // reported as inconclusive (exit 2), never as a violation and never as an endless check
        let thorough = rest.iter().any(|a| a == "thorough") || std::env::var("VERIF_TIER").map(|t| t == "thorough").unwrap_or(false);
        let limit = std::env::var("VERIF_WALL_LIMIT_S").ok().and_then(|v| v.parse::<u64>().ok()).unwrap_or(if thorough { 6 * 3600 } else { 1800 });
        let start = std::time::Instant::now();
        let mut child = c.spawn()?;
        loop {
            if let Some(st) = child.try_wait()? {
                return Ok(st);
            }
            if start.elapsed().as_secs() > limit {
                let _ = child.kill();
                let _ = child.wait();
                eprintln!("[{}] worker exceeded the wall-clock limit of {} s (VERIF_WALL_LIMIT_S) and was stopped: inconclusive", id, limit);
                std::process::exit(2);
            }
            std::thread::sleep(std::time::Duration::from_millis(20));
        }
    };
    let st = match run(None) {
        Ok(st) => st,
        Err(e) => {
            eprintln!("cannot spawn worker: {}", e);
            return 2;
        }
    };
    if let Some(code) = st.code() {
        return code;
    }
    let sig = st.signal().unwrap_or(0);
    eprintln!("[{}] worker process died with signal {} — re-running once with one worker and a case journal to locate the input", id, sig);
    let root = engine::report::verif_root();
    let dir = root.join("replays").join("out");
    let _ = std::fs::create_dir_all(&dir);
    let journal = dir.join(format!("{}-crash-journal.txt", id));
    let _ = std::fs::remove_file(&journal);
    let second = run(Some(&journal));
    let located = second.as_ref().ok().map(|s| s.code().is_none()).unwrap_or(false);
    let (lane, bytes, sched) = std::fs::read_to_string(&journal)
        .ok()
        .filter(|_| located)
        .map(|t| {
            let mut l = t.lines();
            (l.next().unwrap_or("").to_string(), l.next().unwrap_or("").to_string(), l.next().unwrap_or("").to_string())
        })
        .unwrap_or_default();
    let path = dir.join(format!("{}-crash-signal{}.json", id, sig));
    let body = serde_json::json!({
        "property": id,
        "lane": lane,
        "engine": "supervised worker process",
        "bytes_hex": bytes,
        "sched_hex": sched,
        "signature": format!("process-crashed:signal-{}", sig),
        "message": format!("the worker process running the property's lanes was killed by signal {} (memory corruption / abort inside the code under test){}", sig, if located { "; the journalled re-run crashed again on the recorded case" } else { "; the single-worker re-run did not crash, so no input is recorded" }),
        "expect": "pass",
    });
    let _ = std::fs::write(&path, serde_json::to_string_pretty(&body).unwrap());
    // evidence of the crash
    let ev = serde_json::json!({
        "property_id": id, "tier": "quick", "seed": 0, "level": "exploration",
        "coverage": {"evaluations": 1, "distinct_nontrivial": 2, "rule": "worker crashed; see violation_details", "samples": [body.clone()], "violation_details": [body]},
        "wall_s": 0.0, "violations": 1
    });
    let _ = std::fs::create_dir_all(root.join("evidence"));
    let _ = std::fs::write(root.join("evidence").join(format!("{}.json", id)), serde_json::to_string_pretty(&ev).unwrap());
    println!("VIOLATION property={} replay={}", id, path.display());
    1
}
