//! /verif harness: property-based checks for metrics-rs (see /verif/DESIGN.md).
#![allow(clippy::all)]
#![allow(dead_code)]

#[macro_use]
mod engine;
mod doubles;
mod parsers;
mod props;
mod util;

use engine::runner::{install_panic_hook, RunCfg, Tier};

fn main() {
    let args: Vec<String> = std::env::args().collect();
    if args.len() < 2 {
        eprintln!("usage: harness <ID> [--tier quick|thorough] [--seed N] [--replay file] | harness list");
        std::process::exit(2);
    }
    install_panic_hook();
    let id = args[1].as_str();
    if id == "list" {
        for (id, _) in props::all() {
            println!("{}", id);
        }
        return;
    }
    let mut tier = match std::env::var("VERIF_TIER").as_deref() {
        Ok("thorough") => Tier::Thorough,
        _ => Tier::Quick,
    };
    let mut seed: u64 = std::env::var("VERIF_SEED").ok().and_then(|s| s.trim().parse::<i128>().ok()).map(|v| v as u64).unwrap_or(1);
    let mut replay: Option<String> = None;
    let mut i = 2;
    while i < args.len() {
        match args[i].as_str() {
            "--tier" => {
                i += 1;
                tier = if args.get(i).map(|s| s.as_str()) == Some("thorough") { Tier::Thorough } else { Tier::Quick };
            }
            "--seed" => {
                i += 1;
                seed = args.get(i).and_then(|s| s.parse::<i128>().ok()).map(|v| v as u64).unwrap_or(seed);
            }
            "--child" => {
                i += 1;
                let seed = args.get(i).and_then(|s| s.parse::<u64>().ok()).unwrap_or(0);
                std::process::exit(props::child(id, seed));
            }
            "--replay" => {
                i += 1;
                replay = args.get(i).cloned();
            }
            other => {
                eprintln!("unknown argument {}", other);
                std::process::exit(2);
            }
        }
        i += 1;
    }
    let scale = std::env::var("VERIF_SCALE").ok().and_then(|s| s.parse::<f64>().ok()).unwrap_or(1.0);
    let cfg = RunCfg { tier, seed, scale, strict: replay.is_some(), known: vec![] };
    let Some((_, run)) = props::all().into_iter().find(|(pid, _)| *pid == id) else {
        eprintln!("unknown property {}", id);
        std::process::exit(2);
    };
    let code = run(&cfg, replay.as_deref());
    std::process::exit(code);
}
