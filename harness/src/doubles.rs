//! Recorder doubles: a logging `Recorder` with logging handles, an identity token, a drop counter,
//! an in-scope flag (to detect dispatch after the installing borrow ended) and optional yields
//! inside calls (to model an emission "in flight" under the scheduler).

use std::sync::{
    atomic::{AtomicBool, AtomicU32, Ordering},
    Arc, Mutex,
};

use metrics::{Counter, CounterFn, Gauge, GaugeFn, Histogram, HistogramFn, Key, KeyName, Level, Metadata, Recorder, SharedString, Unit};

use crate::engine::sched;

#[derive(Debug, Clone, PartialEq)]
pub enum Op {
    Describe { kind: char, name: String, unit: Option<Unit>, desc: String },
    Register { kind: char, name: String, labels: Vec<(String, String)>, target: String, level: Level, module_path: Option<String> },
    CounterInc(u64),
    CounterAbs(u64),
    GaugeInc(u64),
    GaugeDec(u64),
    GaugeSet(u64),
    HistRecord(u64),
}

#[derive(Debug, Clone, PartialEq)]
pub struct RecEvent {
    pub rec: u32,
    pub thread: std::thread::ThreadId,
    pub key: Option<String>, // for handle ops: the key the handle was registered under
    pub op: Op,
    pub in_scope: bool,
    pub finalized: bool,
}

pub type Log = Arc<Mutex<Vec<RecEvent>>>;

pub fn new_log() -> Log {
    Arc::new(Mutex::new(Vec::new()))
}

pub const MAGIC: u64 = 0x5eed_c0de_f00d_beef;

pub struct LogRecorder {
    pub id: u32,
    pub log: Log,
    pub drops: Arc<AtomicU32>,
    pub in_scope: Arc<AtomicBool>,
    pub finalized: Arc<AtomicBool>,
    pub inside: Arc<AtomicU32>,
    pub yield_inside: bool,
    pub magic: u64,
}

impl LogRecorder {
    pub fn new(id: u32, log: &Log) -> Self {
        LogRecorder {
            id,
            log: log.clone(),
            drops: Arc::new(AtomicU32::new(0)),
            in_scope: Arc::new(AtomicBool::new(true)),
            finalized: Arc::new(AtomicBool::new(false)),
            inside: Arc::new(AtomicU32::new(0)),
            yield_inside: false,
            magic: MAGIC,
        }
    }
    pub fn yielding(mut self) -> Self {
        self.yield_inside = true;
        self
    }
    fn push(&self, key: Option<String>, op: Op) {
        assert_eq!(self.magic, MAGIC, "recorder double observed half-constructed");
        self.inside.fetch_add(1, Ordering::SeqCst);
        if self.yield_inside {
            sched::point("double.enter");
        }
        self.log.lock().unwrap().push(RecEvent {
            rec: self.id,
            thread: std::thread::current().id(),
            key,
            op,
            in_scope: self.in_scope.load(Ordering::SeqCst),
            finalized: self.finalized.load(Ordering::SeqCst),
        });
        if self.yield_inside {
            sched::point("double.exit");
        }
        self.inside.fetch_sub(1, Ordering::SeqCst);
    }
    fn handle(&self, key: &Key) -> Arc<LogHandle> {
        Arc::new(LogHandle { rec: self.id, key: format!("{}", key), log: self.log.clone(), in_scope: self.in_scope.clone(), finalized: self.finalized.clone() })
    }
}

impl Drop for LogRecorder {
    fn drop(&mut self) {
        self.finalized.store(true, Ordering::SeqCst);
        self.drops.fetch_add(1, Ordering::SeqCst);
    }
}

pub fn labels_of(key: &Key) -> Vec<(String, String)> {
    key.labels().map(|l| (l.key().to_string(), l.value().to_string())).collect()
}

fn reg(kind: char, key: &Key, m: &Metadata<'_>) -> Op {
    Op::Register { kind, name: key.name().to_string(), labels: labels_of(key), target: m.target().to_string(), level: *m.level(), module_path: m.module_path().map(|s| s.to_string()) }
}

impl Recorder for LogRecorder {
    fn describe_counter(&self, key: KeyName, unit: Option<Unit>, description: SharedString) {
        self.push(None, Op::Describe { kind: 'c', name: key.as_str().to_string(), unit, desc: description.to_string() });
    }
    fn describe_gauge(&self, key: KeyName, unit: Option<Unit>, description: SharedString) {
        self.push(None, Op::Describe { kind: 'g', name: key.as_str().to_string(), unit, desc: description.to_string() });
    }
    fn describe_histogram(&self, key: KeyName, unit: Option<Unit>, description: SharedString) {
        self.push(None, Op::Describe { kind: 'h', name: key.as_str().to_string(), unit, desc: description.to_string() });
    }
    fn register_counter(&self, key: &Key, metadata: &Metadata<'_>) -> Counter {
        self.push(None, reg('c', key, metadata));
        Counter::from_arc(self.handle(key))
    }
    fn register_gauge(&self, key: &Key, metadata: &Metadata<'_>) -> Gauge {
        self.push(None, reg('g', key, metadata));
        Gauge::from_arc(self.handle(key))
    }
    fn register_histogram(&self, key: &Key, metadata: &Metadata<'_>) -> Histogram {
        self.push(None, reg('h', key, metadata));
        Histogram::from_arc(self.handle(key))
    }
}

pub struct LogHandle {
    pub rec: u32,
    pub key: String,
    pub log: Log,
    pub in_scope: Arc<AtomicBool>,
    pub finalized: Arc<AtomicBool>,
}

impl LogHandle {
    fn push(&self, op: Op) {
        self.log.lock().unwrap().push(RecEvent {
            rec: self.rec,
            thread: std::thread::current().id(),
            key: Some(self.key.clone()),
            op,
            in_scope: self.in_scope.load(Ordering::SeqCst),
            finalized: self.finalized.load(Ordering::SeqCst),
        });
    }
}

impl CounterFn for LogHandle {
    fn increment(&self, value: u64) {
        self.push(Op::CounterInc(value));
    }
    fn absolute(&self, value: u64) {
        self.push(Op::CounterAbs(value));
    }
}

impl GaugeFn for LogHandle {
    fn increment(&self, value: f64) {
        self.push(Op::GaugeInc(value.to_bits()));
    }
    fn decrement(&self, value: f64) {
        self.push(Op::GaugeDec(value.to_bits()));
    }
    fn set(&self, value: f64) {
        self.push(Op::GaugeSet(value.to_bits()));
    }
}

impl HistogramFn for LogHandle {
    fn record(&self, value: f64) {
        self.push(Op::HistRecord(value.to_bits()));
    }
}

// ---------------------------------------------------------------- generated recorder calls
//
// A `RecCall` is one call of the `Recorder` trait with generated arguments (every kind, units present or
// absent, descriptions including the empty one, names including the empty and non-ASCII ones, 0-3 labels,
// several levels/targets) followed by updates through the returned handle. Applying the same calls to two
// recorders and comparing what their doubles logged is a differential oracle for anything that claims to
// pass calls through unchanged.

#[derive(Debug, Clone)]
pub enum RecCall {
    Describe { kind: char, name: String, unit: Option<Unit>, desc: String },
    Register { kind: char, name: String, labels: Vec<(String, String)>, meta: usize, updates: Vec<(u8, u64)> },
}

pub static CALL_METAS: [Metadata<'static>; 3] = [
    Metadata::new("tgt_a", Level::INFO, Some("mod_a")),
    Metadata::new("tgt_b", Level::TRACE, None),
    Metadata::new("", Level::ERROR, Some("")),
];

pub fn decode_call(src: &mut crate::engine::source::Source) -> RecCall {
    const NAMES: [&str; 6] = ["m", "", "é.x", "requests_total", "a b", "m2"];
    const STRS: [&str; 5] = ["", "v", "é", "long description with spaces", "k"];
    let kind = *src.pick(&['c', 'g', 'h']);
    let name = src.pick(&NAMES).to_string();
    if src.chance(100) {
        RecCall::Describe { kind, name, unit: if src.bool() { Some(*src.pick(&[Unit::Count, Unit::Bytes, Unit::Seconds, Unit::Percent])) } else { None }, desc: src.pick(&STRS).to_string() }
    } else {
        let labels = (0..src.below(4)).map(|_| (src.pick(&STRS).to_string(), src.pick(&STRS).to_string())).collect();
        let updates = (0..src.below(4)).map(|_| (src.below(3) as u8, *src.pick(&[0u64, 1, 7, u64::MAX, 0x3ff8_0000_0000_0000, 0x7ff8_0000_0000_0000, 0xfff0_0000_0000_0000]))).collect();
        RecCall::Register { kind, name, labels, meta: src.below(3), updates }
    }
}

/// A metric handle a caller keeps after the registering call returned.
pub enum KeptHandle {
    C(metrics::Counter),
    G(metrics::Gauge),
    H(metrics::Histogram),
}

impl RecCall {
    pub fn apply(&self, rec: &dyn Recorder) {
        self.apply_keeping(rec, None)
    }

    /// Like `apply`; with `keep`, the handle a register call obtained is stored there instead of being dropped.
    pub fn apply_keeping(&self, rec: &dyn Recorder, mut keep: Option<&mut Vec<KeptHandle>>) {
        match self {
            RecCall::Describe { kind, name, unit, desc } => match kind {
                'c' => rec.describe_counter(name.clone().into(), *unit, desc.clone().into()),
                'g' => rec.describe_gauge(name.clone().into(), *unit, desc.clone().into()),
                _ => rec.describe_histogram(name.clone().into(), *unit, desc.clone().into()),
            },
            RecCall::Register { kind, name, labels, meta, updates } => {
                let key = Key::from_parts(name.clone(), labels.iter().map(|(k, v)| metrics::Label::new(k.clone(), v.clone())).collect::<Vec<_>>());
                let m = &CALL_METAS[*meta];
                match kind {
                    'c' => {
                        let h = rec.register_counter(&key, m);
                        for (op, v) in updates {
                            if *op == 0 {
                                h.increment(*v)
                            } else {
                                h.absolute(*v)
                            }
                        }
                        if let Some(k) = keep.as_mut() {
                            k.push(KeptHandle::C(h));
                        }
                    }
                    'g' => {
                        let h = rec.register_gauge(&key, m);
                        for (op, v) in updates {
                            match op {
                                0 => h.increment(f64::from_bits(*v)),
                                1 => h.decrement(f64::from_bits(*v)),
                                _ => h.set(f64::from_bits(*v)),
                            }
                        }
                        if let Some(k) = keep.as_mut() {
                            k.push(KeptHandle::G(h));
                        }
                    }
                    _ => {
                        let h = rec.register_histogram(&key, m);
                        for (_, v) in updates {
                            h.record(f64::from_bits(*v))
                        }
                        if let Some(k) = keep.as_mut() {
                            k.push(KeptHandle::H(h));
                        }
                    }
                }
            }
        }
    }
}

/// What a double logged, without the parts that legitimately differ between two recorders.
pub fn ops_of(log: &Log) -> Vec<(Option<String>, Op)> {
    log.lock().unwrap().iter().map(|e| (e.key.clone(), e.op.clone())).collect()
}
