//! Independent parsers written from the wire formats' specifications (not from the encoders).

/// One DogStatsD datagram line: `name:v[:v…]|type[|@rate][|#tags][|T ts]\n`.
#[derive(Debug, Clone, PartialEq)]
pub struct DsdMessage {
    pub name: String,
    pub values: Vec<String>,
    pub mtype: String,
    pub sample_rate: Option<String>,
    pub tags: Option<Vec<(String, Option<String>)>>,
    pub timestamp: Option<String>,
}

/// Parses a payload body that must be exactly one newline-terminated message.
pub fn parse_dsd_message(body: &[u8]) -> Result<DsdMessage, String> {
    let s = std::str::from_utf8(body).map_err(|e| format!("payload is not UTF-8: {}", e))?;
    let Some(line) = s.strip_suffix('\n') else {
        return Err(format!("payload does not end with a newline: {:?}", s));
    };
    if line.contains('\n') {
        return Err(format!("payload holds more than one line: {:?}", s));
    }
    let mut sections = line.split('|');
    let head = sections.next().unwrap_or("");
    let Some(colon) = head.find(':') else {
        return Err(format!("no ':' between name and value in {:?}", line));
    };
    let name = head[..colon].to_string();
    let values: Vec<String> = head[colon + 1..].split(':').map(|v| v.to_string()).collect();
    if values.iter().any(|v| v.is_empty()) {
        return Err(format!("empty value in {:?}", line));
    }
    let Some(mtype) = sections.next() else {
        return Err(format!("no metric type in {:?}", line));
    };
    if !["c", "g", "h", "d", "ms", "s"].contains(&mtype) {
        return Err(format!("unknown metric type {:?} in {:?}", mtype, line));
    }
    let mut msg = DsdMessage { name, values, mtype: mtype.to_string(), sample_rate: None, tags: None, timestamp: None };
    for sec in sections {
        if let Some(r) = sec.strip_prefix('@') {
            if msg.sample_rate.replace(r.to_string()).is_some() {
                return Err(format!("two sample-rate sections in {:?}", line));
            }
        } else if let Some(t) = sec.strip_prefix('#') {
            let tags = t
                .split(',')
                .map(|kv| match kv.find(':') {
                    Some(i) => (kv[..i].to_string(), Some(kv[i + 1..].to_string())),
                    None => (kv.to_string(), None),
                })
                .collect();
            if msg.tags.replace(tags).is_some() {
                return Err(format!("two tag sections in {:?}", line));
            }
        } else if let Some(t) = sec.strip_prefix('T') {
            if msg.timestamp.replace(t.to_string()).is_some() {
                return Err(format!("two timestamp sections in {:?}", line));
            }
        } else {
            return Err(format!("unknown section {:?} in {:?}", sec, line));
        }
    }
    Ok(msg)
}

/// Splits a length-prefixed payload (`u32` little-endian length, then the body).
pub fn split_length_prefixed(payload: &[u8]) -> Result<&[u8], String> {
    if payload.len() < 4 {
        return Err(format!("length-prefixed payload shorter than its 4-byte header: {:?}", payload));
    }
    let n = u32::from_le_bytes([payload[0], payload[1], payload[2], payload[3]]) as usize;
    let body = &payload[4..];
    if n != body.len() {
        return Err(format!("length prefix says {} but {} bytes follow: {:?}", n, body.len(), String::from_utf8_lossy(payload)));
    }
    Ok(body)
}
