//! Independent parsers written from the wire formats' specifications (not from the encoders).

/// One DogStatsD datagram line: `name:v[:v…]|type[|@rate][|#tags][|T ts]\n`.
#[derive(Debug, Clone, PartialEq)]
pub struct DsdMessage {
    pub name: String,
    pub values: Vec<String>,
    pub mtype: String,
    pub sample_rate: Option<String>,
    pub tags: Option<Vec<(String, Option<String>)>>,
    pub timestamp: Option<String>,
}

/// Parses a payload body that must be exactly one newline-terminated message.
pub fn parse_dsd_message(body: &[u8]) -> Result<DsdMessage, String> {
    let s = std::str::from_utf8(body).map_err(|e| format!("payload is not UTF-8: {}", e))?;
    let Some(line) = s.strip_suffix('\n') else {
        return Err(format!("payload does not end with a newline: {:?}", s));
    };
    if line.contains('\n') {
        return Err(format!("payload holds more than one line: {:?}", s));
    }
    let mut sections = line.split('|');
    let head = sections.next().unwrap_or("");
    let Some(colon) = head.find(':') else {
        return Err(format!("no ':' between name and value in {:?}", line));
    };
    let name = head[..colon].to_string();
    let values: Vec<String> = head[colon + 1..].split(':').map(|v| v.to_string()).collect();
    if values.iter().any(|v| v.is_empty()) {
        return Err(format!("empty value in {:?}", line));
    }
    let Some(mtype) = sections.next() else {
        return Err(format!("no metric type in {:?}", line));
    };
    if !["c", "g", "h", "d", "ms", "s"].contains(&mtype) {
        return Err(format!("unknown metric type {:?} in {:?}", mtype, line));
    }
    let mut msg = DsdMessage { name, values, mtype: mtype.to_string(), sample_rate: None, tags: None, timestamp: None };
    for sec in sections {
        if let Some(r) = sec.strip_prefix('@') {
            if msg.sample_rate.replace(r.to_string()).is_some() {
                return Err(format!("two sample-rate sections in {:?}", line));
            }
        } else if let Some(t) = sec.strip_prefix('#') {
            let tags = t
                .split(',')
                .map(|kv| match kv.find(':') {
                    Some(i) => (kv[..i].to_string(), Some(kv[i + 1..].to_string())),
                    None => (kv.to_string(), None),
                })
                .collect();
            if msg.tags.replace(tags).is_some() {
                return Err(format!("two tag sections in {:?}", line));
            }
        } else if let Some(t) = sec.strip_prefix('T') {
            if msg.timestamp.replace(t.to_string()).is_some() {
                return Err(format!("two timestamp sections in {:?}", line));
            }
        } else {
            return Err(format!("unknown section {:?} in {:?}", sec, line));
        }
    }
    Ok(msg)
}

/// Splits a length-prefixed payload (`u32` little-endian length, then the body).
pub fn split_length_prefixed(payload: &[u8]) -> Result<&[u8], String> {
    if payload.len() < 4 {
        return Err(format!("length-prefixed payload shorter than its 4-byte header: {:?}", payload));
    }
    let n = u32::from_le_bytes([payload[0], payload[1], payload[2], payload[3]]) as usize;
    let body = &payload[4..];
    if n != body.len() {
        return Err(format!("length prefix says {} but {} bytes follow: {:?}", n, body.len(), String::from_utf8_lossy(payload)));
    }
    Ok(body)
}

// ---------------------------------------------------------------------------------------------
// Prometheus text exposition format 0.0.4, strict.

#[derive(Debug, Clone, PartialEq)]
pub enum PromLine {
    Help { name: String, doc: String },
    Type { name: String, mtype: String },
    Sample { name: String, labels: Vec<(String, String)>, value: f64, value_text: String },
}

fn is_name_start(c: char) -> bool {
    c.is_ascii_alphabetic() || c == '_' || c == ':'
}
fn is_name_char(c: char) -> bool {
    c.is_ascii_alphanumeric() || c == '_' || c == ':'
}
pub fn valid_metric_name(s: &str) -> bool {
    let mut it = s.chars();
    matches!(it.next(), Some(c) if is_name_start(c)) && it.all(is_name_char)
}
pub fn valid_label_name(s: &str) -> bool {
    let mut it = s.chars();
    matches!(it.next(), Some(c) if c.is_ascii_alphabetic() || c == '_') && it.all(|c| c.is_ascii_alphanumeric() || c == '_')
}

/// Float syntax accepted by Go's strconv.ParseFloat as used by the Prometheus parser.
pub fn parse_go_float(s: &str) -> Option<f64> {
    let lower = s.to_ascii_lowercase();
    let (sign, body) = match lower.strip_prefix('-') {
        Some(b) => (-1.0, b),
        None => (1.0, lower.strip_prefix('+').unwrap_or(&lower)),
    };
    match body {
        "inf" | "infinity" => return Some(sign * f64::INFINITY),
        "nan" => return Some(f64::NAN),
        _ => {}
    }
    if body.is_empty() || !body.chars().all(|c| c.is_ascii_digit() || c == '.' || c == 'e' || c == '-' || c == '+') {
        return None;
    }
    s.parse::<f64>().ok()
}

fn parse_sample(line: &str) -> Result<PromLine, String> {
    let chars: Vec<char> = line.chars().collect();
    let mut i = 0;
    while i < chars.len() && is_name_char(chars[i]) {
        i += 1;
    }
    let name: String = chars[..i].iter().collect();
    if !valid_metric_name(&name) {
        return Err(format!("invalid metric name at start of sample line {:?}", line));
    }
    let mut labels = vec![];
    if i < chars.len() && chars[i] == '{' {
        i += 1;
        loop {
            if i < chars.len() && chars[i] == '}' {
                i += 1;
                break;
            }
            let st = i;
            while i < chars.len() && (chars[i].is_ascii_alphanumeric() || chars[i] == '_') {
                i += 1;
            }
            let lname: String = chars[st..i].iter().collect();
            if !valid_label_name(&lname) {
                return Err(format!("invalid label name {:?} in {:?}", lname, line));
            }
            if i >= chars.len() || chars[i] != '=' {
                return Err(format!("expected '=' after label name {:?} in {:?}", lname, line));
            }
            i += 1;
            if i >= chars.len() || chars[i] != '"' {
                return Err(format!("expected '\"' to open the value of label {:?} in {:?}", lname, line));
            }
            i += 1;
            let mut val = String::new();
            loop {
                if i >= chars.len() {
                    return Err(format!("unterminated label value in {:?}", line));
                }
                match chars[i] {
                    '"' => {
                        i += 1;
                        break;
                    }
                    '\\' => {
                        i += 1;
                        match chars.get(i) {
                            Some('\\') => val.push('\\'),
                            Some('"') => val.push('"'),
                            Some('n') => val.push('\n'),
                            other => return Err(format!("invalid escape sequence \\{:?} in label value of {:?}", other, line)),
                        }
                        i += 1;
                    }
                    c => {
                        val.push(c);
                        i += 1;
                    }
                }
            }
            labels.push((lname, val));
            match chars.get(i) {
                Some(',') => {
                    i += 1;
                }
                Some('}') => {
                    i += 1;
                    break;
                }
                other => return Err(format!("expected ',' or '}}' after a label value, found {:?} in {:?}", other, line)),
            }
        }
    }
    if i >= chars.len() || chars[i] != ' ' {
        return Err(format!("expected a space before the sample value in {:?}", line));
    }
    while i < chars.len() && chars[i] == ' ' {
        i += 1;
    }
    let rest: String = chars[i..].iter().collect();
    let mut parts = rest.split(' ').filter(|p| !p.is_empty());
    let Some(vt) = parts.next() else { return Err(format!("missing sample value in {:?}", line)) };
    let Some(value) = parse_go_float(vt) else { return Err(format!("sample value {:?} is not a float in {:?}", vt, line)) };
    if let Some(ts) = parts.next() {
        if ts.parse::<i64>().is_err() {
            return Err(format!("trailing text {:?} after the sample value in {:?}", ts, line));
        }
    }
    if parts.next().is_some() {
        return Err(format!("too many fields in sample line {:?}", line));
    }
    // duplicate label names are invalid
    for a in 0..labels.len() {
        for b in a + 1..labels.len() {
            if labels[a].0 == labels[b].0 {
                return Err(format!("label name {:?} appears twice in {:?}", labels[a].0, line));
            }
        }
    }
    Ok(PromLine::Sample { name, labels, value, value_text: vt.to_string() })
}

/// Parses a whole exposition; every line must be HELP, TYPE, a sample or blank.
pub fn parse_prometheus(text: &str) -> Result<Vec<PromLine>, String> {
    let mut out = vec![];
    if !text.is_empty() && !text.ends_with('\n') {
        return Err("exposition does not end with a newline".into());
    }
    for line in text.split('\n') {
        if line.is_empty() {
            continue;
        }
        if line.contains('\r') && false {
            return Err(format!("carriage return in line {:?}", line));
        }
        if let Some(rest) = line.strip_prefix("# HELP ") {
            let (name, doc) = match rest.find(' ') {
                Some(i) => (&rest[..i], &rest[i + 1..]),
                None => (rest, ""),
            };
            if !valid_metric_name(name) {
                return Err(format!("invalid metric name in HELP line {:?}", line));
            }
            // docstring escapes: \\ and \n only
            let mut d = String::new();
            let mut it = doc.chars();
            while let Some(c) = it.next() {
                if c == '\\' {
                    match it.next() {
                        Some('\\') => d.push('\\'),
                        Some('n') => d.push('\n'),
                        other => return Err(format!("invalid escape \\{:?} in HELP text of {:?}", other, line)),
                    }
                } else {
                    d.push(c);
                }
            }
            out.push(PromLine::Help { name: name.to_string(), doc: d });
        } else if let Some(rest) = line.strip_prefix("# TYPE ") {
            let mut p = rest.split(' ');
            let name = p.next().unwrap_or("");
            let mtype = p.next().unwrap_or("");
            if p.next().is_some() || !valid_metric_name(name) || !["counter", "gauge", "histogram", "summary", "untyped"].contains(&mtype) {
                return Err(format!("malformed TYPE line {:?}", line));
            }
            out.push(PromLine::Type { name: name.to_string(), mtype: mtype.to_string() });
        } else if line.starts_with('#') {
            return Err(format!("line is neither HELP, TYPE, sample nor blank: {:?}", line));
        } else {
            out.push(parse_sample(line)?);
        }
    }
    Ok(out)
}

#[derive(Debug, Clone)]
pub struct PromFamily {
    pub name: String,
    pub mtype: String,
    pub help: Option<String>,
    pub samples: Vec<(String, Vec<(String, String)>, f64, String)>,
}

/// Groups parsed lines into families and checks the structural rules: one TYPE per family, TYPE
/// (and HELP) before the samples, every sample named family or family + a suffix its type allows,
/// families not interleaved.
pub fn prom_families(lines: &[PromLine]) -> Result<Vec<PromFamily>, String> {
    let mut fams: Vec<PromFamily> = vec![];
    let mut pending_help: Option<(String, String)> = None;
    for l in lines {
        match l {
            PromLine::Help { name, doc } => {
                if fams.iter().any(|f| &f.name == name) {
                    return Err(format!("HELP for {:?} after the family was already started", name));
                }
                if pending_help.is_some() {
                    return Err(format!("two HELP lines without a TYPE between them (second for {:?})", name));
                }
                pending_help = Some((name.clone(), doc.clone()));
            }
            PromLine::Type { name, mtype } => {
                if fams.iter().any(|f| &f.name == name) {
                    return Err(format!("second TYPE line for family {:?}", name));
                }
                let help = match pending_help.take() {
                    Some((hn, d)) => {
                        if &hn != name {
                            return Err(format!("HELP for {:?} is followed by TYPE for {:?}", hn, name));
                        }
                        Some(d)
                    }
                    None => None,
                };
                fams.push(PromFamily { name: name.clone(), mtype: mtype.clone(), help, samples: vec![] });
            }
            PromLine::Sample { name, labels, value, value_text } => {
                if pending_help.is_some() {
                    return Err(format!("sample {:?} directly after a HELP line without TYPE", name));
                }
                let Some(f) = fams.last_mut() else { return Err(format!("sample {:?} before any TYPE line", name)) };
                let suffixes: &[&str] = match f.mtype.as_str() {
                    "histogram" => &["_bucket", "_sum", "_count"],
                    "summary" => &["", "_sum", "_count"],
                    _ => &[""],
                };
                let ok = suffixes.iter().any(|s| *name == format!("{}{}", f.name, s));
                if !ok {
                    return Err(format!("sample {:?} does not belong to the current family {:?} of type {} (allowed: family name plus one of {:?})", name, f.name, f.mtype, suffixes));
                }
                f.samples.push((name.clone(), labels.clone(), *value, value_text.clone()));
            }
        }
    }
    if let Some((n, _)) = pending_help {
        return Err(format!("dangling HELP line for {:?}", n));
    }
    Ok(fams)
}
