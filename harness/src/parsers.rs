//! Independent parsers written from the wire formats' specifications (not from the encoders).

/// One DogStatsD datagram line: `name:v[:v…]|type[|@rate][|#tags][|T ts]\n`.
#[derive(Debug, Clone, PartialEq)]
pub struct DsdMessage {
    pub name: String,
    pub values: Vec<String>,
    pub mtype: String,
    pub sample_rate: Option<String>,
    pub tags: Option<Vec<(String, Option<String>)>>,
    pub timestamp: Option<String>,
}

/// Parses a payload body that must be exactly one newline-terminated message.
pub fn parse_dsd_message(body: &[u8]) -> Result<DsdMessage, String> {
    let s = std::str::from_utf8(body).map_err(|e| format!("payload is not UTF-8: {}", e))?;
    let Some(line) = s.strip_suffix('\n') else {
        return Err(format!("payload does not end with a newline: {:?}", s));
    };
    if line.contains('\n') {
        return Err(format!("payload holds more than one line: {:?}", s));
    }
    let mut sections = line.split('|');
    let head = sections.next().unwrap_or("");
    let Some(colon) = head.find(':') else {
        return Err(format!("no ':' between name and value in {:?}", line));
    };
    let name = head[..colon].to_string();
    let values: Vec<String> = head[colon + 1..].split(':').map(|v| v.to_string()).collect();
    if values.iter().any(|v| v.is_empty()) {
        return Err(format!("empty value in {:?}", line));
    }
    let Some(mtype) = sections.next() else {
        return Err(format!("no metric type in {:?}", line));
    };
    if !["c", "g", "h", "d", "ms", "s"].contains(&mtype) {
        return Err(format!("unknown metric type {:?} in {:?}", mtype, line));
    }
    let mut msg = DsdMessage { name, values, mtype: mtype.to_string(), sample_rate: None, tags: None, timestamp: None };
    for sec in sections {
        if let Some(r) = sec.strip_prefix('@') {
            if msg.sample_rate.replace(r.to_string()).is_some() {
                return Err(format!("two sample-rate sections in {:?}", line));
            }
        } else if let Some(t) = sec.strip_prefix('#') {
            let tags = t
                .split(',')
                .map(|kv| match kv.find(':') {
                    Some(i) => (kv[..i].to_string(), Some(kv[i + 1..].to_string())),
                    None => (kv.to_string(), None),
                })
                .collect();
            if msg.tags.replace(tags).is_some() {
                return Err(format!("two tag sections in {:?}", line));
            }
        } else if let Some(t) = sec.strip_prefix('T') {
            if msg.timestamp.replace(t.to_string()).is_some() {
                return Err(format!("two timestamp sections in {:?}", line));
            }
        } else {
            return Err(format!("unknown section {:?} in {:?}", sec, line));
        }
    }
    Ok(msg)
}

/// Splits a length-prefixed payload (`u32` little-endian length, then the body).
pub fn split_length_prefixed(payload: &[u8]) -> Result<&[u8], String> {
    if payload.len() < 4 {
        return Err(format!("length-prefixed payload shorter than its 4-byte header: {:?}", payload));
    }
    let n = u32::from_le_bytes([payload[0], payload[1], payload[2], payload[3]]) as usize;
    let body = &payload[4..];
    if n != body.len() {
        return Err(format!("length prefix says {} but {} bytes follow: {:?}", n, body.len(), String::from_utf8_lossy(payload)));
    }
    Ok(body)
}

// ---------------------------------------------------------------------------------------------
// Prometheus text exposition format 0.0.4, strict.

#[derive(Debug, Clone, PartialEq)]
pub enum PromLine {
    Help { name: String, doc: String },
    Type { name: String, mtype: String },
    Sample { name: String, labels: Vec<(String, String)>, value: f64, value_text: String },
}

fn is_name_start(c: char) -> bool {
    c.is_ascii_alphabetic() || c == '_' || c == ':'
}
fn is_name_char(c: char) -> bool {
    c.is_ascii_alphanumeric() || c == '_' || c == ':'
}
pub fn valid_metric_name(s: &str) -> bool {
    let mut it = s.chars();
    matches!(it.next(), Some(c) if is_name_start(c)) && it.all(is_name_char)
}
pub fn valid_label_name(s: &str) -> bool {
    let mut it = s.chars();
    matches!(it.next(), Some(c) if c.is_ascii_alphabetic() || c == '_') && it.all(|c| c.is_ascii_alphanumeric() || c == '_')
}

/// Float syntax accepted by Go's strconv.ParseFloat as used by the Prometheus parser.
pub fn parse_go_float(s: &str) -> Option<f64> {
    let lower = s.to_ascii_lowercase();
    let (sign, body) = match lower.strip_prefix('-') {
        Some(b) => (-1.0, b),
        None => (1.0, lower.strip_prefix('+').unwrap_or(&lower)),
    };
    match body {
        "inf" | "infinity" => return Some(sign * f64::INFINITY),
        "nan" => return Some(f64::NAN),
        _ => {}
    }
    if body.is_empty() || !body.chars().all(|c| c.is_ascii_digit() || c == '.' || c == 'e' || c == '-' || c == '+') {
        return None;
    }
    s.parse::<f64>().ok()
}

fn parse_sample(line: &str) -> Result<PromLine, String> {
    let chars: Vec<char> = line.chars().collect();
    let mut i = 0;
    while i < chars.len() && is_name_char(chars[i]) {
        i += 1;
    }
    let name: String = chars[..i].iter().collect();
    if !valid_metric_name(&name) {
        return Err(format!("invalid metric name at start of sample line {:?}", line));
    }
    let mut labels = vec![];
    if i < chars.len() && chars[i] == '{' {
        i += 1;
        loop {
            if i < chars.len() && chars[i] == '}' {
                i += 1;
                break;
            }
            let st = i;
            while i < chars.len() && (chars[i].is_ascii_alphanumeric() || chars[i] == '_') {
                i += 1;
            }
            let lname: String = chars[st..i].iter().collect();
            if !valid_label_name(&lname) {
                return Err(format!("invalid label name {:?} in {:?}", lname, line));
            }
            if i >= chars.len() || chars[i] != '=' {
                return Err(format!("expected '=' after label name {:?} in {:?}", lname, line));
            }
            i += 1;
            if i >= chars.len() || chars[i] != '"' {
                return Err(format!("expected '\"' to open the value of label {:?} in {:?}", lname, line));
            }
            i += 1;
            let mut val = String::new();
            loop {
                if i >= chars.len() {
                    return Err(format!("unterminated label value in {:?}", line));
                }
                match chars[i] {
                    '"' => {
                        i += 1;
                        break;
                    }
                    '\\' => {
                        i += 1;
                        match chars.get(i) {
                            Some('\\') => val.push('\\'),
                            Some('"') => val.push('"'),
                            Some('n') => val.push('\n'),
                            other => return Err(format!("invalid escape sequence \\{:?} in label value of {:?}", other, line)),
                        }
                        i += 1;
                    }
                    c => {
                        val.push(c);
                        i += 1;
                    }
                }
            }
            labels.push((lname, val));
            match chars.get(i) {
                Some(',') => {
                    i += 1;
                }
                Some('}') => {
                    i += 1;
                    break;
                }
                other => return Err(format!("expected ',' or '}}' after a label value, found {:?} in {:?}", other, line)),
            }
        }
    }
    if i >= chars.len() || chars[i] != ' ' {
        return Err(format!("expected a space before the sample value in {:?}", line));
    }
    while i < chars.len() && chars[i] == ' ' {
        i += 1;
    }
    let rest: String = chars[i..].iter().collect();
    let mut parts = rest.split(' ').filter(|p| !p.is_empty());
    let Some(vt) = parts.next() else { return Err(format!("missing sample value in {:?}", line)) };
    let Some(value) = parse_go_float(vt) else { return Err(format!("sample value {:?} is not a float in {:?}", vt, line)) };
    if let Some(ts) = parts.next() {
        if ts.parse::<i64>().is_err() {
            return Err(format!("trailing text {:?} after the sample value in {:?}", ts, line));
        }
    }
    if parts.next().is_some() {
        return Err(format!("too many fields in sample line {:?}", line));
    }
    // duplicate label names are invalid
    for a in 0..labels.len() {
        for b in a + 1..labels.len() {
            if labels[a].0 == labels[b].0 {
                return Err(format!("label name {:?} appears twice in {:?}", labels[a].0, line));
            }
        }
    }
    Ok(PromLine::Sample { name, labels, value, value_text: vt.to_string() })
}

/// Parses a whole exposition; every line must be HELP, TYPE, a sample or blank.
pub fn parse_prometheus(text: &str) -> Result<Vec<PromLine>, String> {
    let mut out = vec![];
    if !text.is_empty() && !text.ends_with('\n') {
        return Err("exposition does not end with a newline".into());
    }
    for line in text.split('\n') {
        if line.is_empty() {
            continue;
        }
        if line.contains('\r') && false {
            return Err(format!("carriage return in line {:?}", line));
        }
        if let Some(rest) = line.strip_prefix("# HELP ") {
            let (name, doc) = match rest.find(' ') {
                Some(i) => (&rest[..i], &rest[i + 1..]),
                None => (rest, ""),
            };
            if !valid_metric_name(name) {
                return Err(format!("invalid metric name in HELP line {:?}", line));
            }
            // docstring escapes: \\ and \n only
            let mut d = String::new();
            let mut it = doc.chars();
            while let Some(c) = it.next() {
                if c == '\\' {
                    match it.next() {
                        Some('\\') => d.push('\\'),
                        Some('n') => d.push('\n'),
                        other => return Err(format!("invalid escape \\{:?} in HELP text of {:?}", other, line)),
                    }
                } else {
                    d.push(c);
                }
            }
            out.push(PromLine::Help { name: name.to_string(), doc: d });
        } else if let Some(rest) = line.strip_prefix("# TYPE ") {
            let mut p = rest.split(' ');
            let name = p.next().unwrap_or("");
            let mtype = p.next().unwrap_or("");
            if p.next().is_some() || !valid_metric_name(name) || !["counter", "gauge", "histogram", "summary", "untyped"].contains(&mtype) {
                return Err(format!("malformed TYPE line {:?}", line));
            }
            out.push(PromLine::Type { name: name.to_string(), mtype: mtype.to_string() });
        } else if line.starts_with('#') {
            return Err(format!("line is neither HELP, TYPE, sample nor blank: {:?}", line));
        } else {
            out.push(parse_sample(line)?);
        }
    }
    Ok(out)
}

#[derive(Debug, Clone)]
pub struct PromFamily {
    pub name: String,
    pub mtype: String,
    pub help: Option<String>,
    pub samples: Vec<(String, Vec<(String, String)>, f64, String)>,
}

/// Groups parsed lines into families and checks the structural rules: one TYPE per family, TYPE
/// (and HELP) before the samples, every sample named family or family + a suffix its type allows,
/// families not interleaved.
pub fn prom_families(lines: &[PromLine]) -> Result<Vec<PromFamily>, String> {
    let mut fams: Vec<PromFamily> = vec![];
    let mut pending_help: Option<(String, String)> = None;
    for l in lines {
        match l {
            PromLine::Help { name, doc } => {
                if fams.iter().any(|f| &f.name == name) {
                    return Err(format!("HELP for {:?} after the family was already started", name));
                }
                if pending_help.is_some() {
                    return Err(format!("two HELP lines without a TYPE between them (second for {:?})", name));
                }
                pending_help = Some((name.clone(), doc.clone()));
            }
            PromLine::Type { name, mtype } => {
                if fams.iter().any(|f| &f.name == name) {
                    return Err(format!("second TYPE line for family {:?}", name));
                }
                let help = match pending_help.take() {
                    Some((hn, d)) => {
                        if &hn != name {
                            return Err(format!("HELP for {:?} is followed by TYPE for {:?}", hn, name));
                        }
                        Some(d)
                    }
                    None => None,
                };
                fams.push(PromFamily { name: name.clone(), mtype: mtype.clone(), help, samples: vec![] });
            }
            PromLine::Sample { name, labels, value, value_text } => {
                if pending_help.is_some() {
                    return Err(format!("sample {:?} directly after a HELP line without TYPE", name));
                }
                let Some(f) = fams.last_mut() else { return Err(format!("sample {:?} before any TYPE line", name)) };
                let suffixes: &[&str] = match f.mtype.as_str() {
                    "histogram" => &["_bucket", "_sum", "_count"],
                    "summary" => &["", "_sum", "_count"],
                    _ => &[""],
                };
                let ok = suffixes.iter().any(|s| *name == format!("{}{}", f.name, s));
                if !ok {
                    return Err(format!("sample {:?} does not belong to the current family {:?} of type {} (allowed: family name plus one of {:?})", name, f.name, f.mtype, suffixes));
                }
                f.samples.push((name.clone(), labels.clone(), *value, value_text.clone()));
            }
        }
    }
    if let Some((n, _)) = pending_help {
        return Err(format!("dangling HELP line for {:?}", n));
    }
    Ok(fams)
}

// ---------------------------------------------------------------------------------------------
// Hand-written protobuf reader for metrics-exporter-tcp's event.proto (no prost).

#[derive(Debug, Clone, PartialEq)]
pub enum TcpEvent {
    Metadata { name: String, metric_type: u64, unit: Option<String>, description: Option<String> },
    Metric { name: String, labels: Vec<(String, String)>, op: u32, value_bits: u64, has_timestamp: bool },
}

fn pb_varint(b: &[u8], pos: &mut usize) -> Result<u64, String> {
    let mut v = 0u64;
    let mut shift = 0;
    loop {
        let Some(x) = b.get(*pos) else { return Err("truncated varint".into()) };
        *pos += 1;
        v |= ((*x & 0x7f) as u64) << shift;
        if x & 0x80 == 0 {
            return Ok(v);
        }
        shift += 7;
        if shift > 63 {
            return Err("varint too long".into());
        }
    }
}

enum PbVal<'a> {
    Varint(u64),
    Fixed64(u64),
    Bytes(&'a [u8]),
    Fixed32(u32),
}

fn pb_fields(b: &[u8]) -> Result<Vec<(u32, PbVal<'_>)>, String> {
    let mut pos = 0;
    let mut out = vec![];
    while pos < b.len() {
        let tag = pb_varint(b, &mut pos)?;
        let field = (tag >> 3) as u32;
        match tag & 7 {
            0 => out.push((field, PbVal::Varint(pb_varint(b, &mut pos)?))),
            1 => {
                if pos + 8 > b.len() {
                    return Err("truncated fixed64".into());
                }
                out.push((field, PbVal::Fixed64(u64::from_le_bytes(b[pos..pos + 8].try_into().unwrap()))));
                pos += 8;
            }
            2 => {
                let n = pb_varint(b, &mut pos)? as usize;
                if pos + n > b.len() {
                    return Err("length-delimited field overruns its message".into());
                }
                out.push((field, PbVal::Bytes(&b[pos..pos + n])));
                pos += n;
            }
            5 => {
                if pos + 4 > b.len() {
                    return Err("truncated fixed32".into());
                }
                out.push((field, PbVal::Fixed32(u32::from_le_bytes(b[pos..pos + 4].try_into().unwrap()))));
                pos += 4;
            }
            w => return Err(format!("unsupported wire type {}", w)),
        }
    }
    Ok(out)
}

fn pb_str(v: &PbVal) -> Result<String, String> {
    match v {
        PbVal::Bytes(b) => String::from_utf8(b.to_vec()).map_err(|_| "string field is not UTF-8".to_string()),
        _ => Err("expected a length-delimited string".into()),
    }
}

pub fn decode_tcp_event(msg: &[u8]) -> Result<TcpEvent, String> {
    let top = pb_fields(msg)?;
    if top.len() != 1 {
        return Err(format!("Event must hold exactly one of metadata/metric, found {} fields", top.len()));
    }
    match &top[0] {
        (1, PbVal::Bytes(b)) => {
            let (mut name, mut mt, mut unit, mut desc) = (String::new(), 0u64, None, None);
            for (f, v) in pb_fields(b)? {
                match (f, &v) {
                    (1, _) => name = pb_str(&v)?,
                    (2, PbVal::Varint(x)) => mt = *x,
                    (3, _) => unit = Some(pb_str(&v)?),
                    (4, _) => desc = Some(pb_str(&v)?),
                    _ => return Err(format!("unexpected field {} in Metadata", f)),
                }
            }
            Ok(TcpEvent::Metadata { name, metric_type: mt, unit, description: desc })
        }
        (2, PbVal::Bytes(b)) => {
            let mut name = String::new();
            let mut labels = vec![];
            let mut op: Option<(u32, u64)> = None;
            let mut ts = false;
            for (f, v) in pb_fields(b)? {
                match (f, &v) {
                    (1, _) => name = pb_str(&v)?,
                    (2, PbVal::Bytes(_)) => ts = true,
                    (3, PbVal::Bytes(e)) => {
                        let (mut k, mut val) = (String::new(), String::new());
                        for (ef, ev) in pb_fields(e)? {
                            match ef {
                                1 => k = pb_str(&ev)?,
                                2 => val = pb_str(&ev)?,
                                _ => return Err("unexpected field in a labels map entry".into()),
                            }
                        }
                        labels.push((k, val));
                    }
                    (4 | 5, PbVal::Varint(x)) => {
                        if op.replace((f, *x)).is_some() {
                            return Err("two operations in one Metric".into());
                        }
                    }
                    (6..=9, PbVal::Fixed64(x)) => {
                        if op.replace((f, *x)).is_some() {
                            return Err("two operations in one Metric".into());
                        }
                    }
                    _ => return Err(format!("unexpected field {} in Metric", f)),
                }
            }
            let Some((op, value_bits)) = op else { return Err("Metric without an operation".into()) };
            Ok(TcpEvent::Metric { name, labels, op, value_bits, has_timestamp: ts })
        }
        (f, _) => Err(format!("unexpected top-level field {} in Event", f)),
    }
}

/// Splits a byte stream into whole length-delimited events; returns the decoded events and the
/// number of trailing bytes that do not (yet) form a whole frame.
pub fn split_tcp_stream(stream: &[u8]) -> Result<(Vec<TcpEvent>, usize), String> {
    let mut pos = 0;
    let mut out = vec![];
    loop {
        let start = pos;
        if pos >= stream.len() {
            return Ok((out, 0));
        }
        let mut p = pos;
        let n = match pb_varint(stream, &mut p) {
            Ok(n) => n as usize,
            Err(_) => return Ok((out, stream.len() - start)),
        };
        if n > 64 * 1024 * 1024 {
            return Err(format!("frame at offset {} announces {} bytes (torn stream?)", start, n));
        }
        if p + n > stream.len() {
            return Ok((out, stream.len() - start));
        }
        out.push(decode_tcp_event(&stream[p..p + n]).map_err(|e| format!("frame at offset {} ({} bytes) does not decode as an Event: {}", start, n, e))?);
        pos = p + n;
    }
}
