//! Global allocator wrapper: (1) selected block sizes can be put in "never free" mode so that a
//! use-after-free inside the code under test reads stale-but-intact data and is reported by the
//! property's oracle instead of corrupting the heap; (2) per-thread allocation accounting for the
//! leak / double-free oracle of C14.

use std::{
    alloc::{GlobalAlloc, Layout, System},
    cell::Cell,
    sync::atomic::{AtomicUsize, Ordering},
};

pub struct VerifAlloc;

static NOFREE: [AtomicUsize; 4] = [AtomicUsize::new(0), AtomicUsize::new(0), AtomicUsize::new(0), AtomicUsize::new(0)];

/// Blocks of exactly this size are never returned to the system allocator from now on.
pub fn never_free_size(size: usize) {
    for s in NOFREE.iter() {
        let cur = s.load(Ordering::Relaxed);
        if cur == size {
            return;
        }
        if cur == 0 && s.compare_exchange(0, size, Ordering::Relaxed, Ordering::Relaxed).is_ok() {
            return;
        }
    }
}

thread_local! {
    static TRACK: Cell<bool> = const { Cell::new(false) };
    static LIVE_BYTES: Cell<isize> = const { Cell::new(0) };
    static LIVE_BLOCKS: Cell<isize> = const { Cell::new(0) };
}

/// Starts per-thread accounting (allocations and frees made by this thread while enabled).
pub fn track_start() {
    LIVE_BYTES.with(|c| c.set(0));
    LIVE_BLOCKS.with(|c| c.set(0));
    TRACK.with(|c| c.set(true));
}

/// Stops accounting and returns (live bytes, live blocks) relative to `track_start`.
pub fn track_stop() -> (isize, isize) {
    TRACK.with(|c| c.set(false));
    (LIVE_BYTES.with(|c| c.get()), LIVE_BLOCKS.with(|c| c.get()))
}

pub fn track_pause(on: bool) {
    TRACK.with(|c| c.set(on));
}

unsafe impl GlobalAlloc for VerifAlloc {
    unsafe fn alloc(&self, layout: Layout) -> *mut u8 {
        let p = System.alloc(layout);
        if !p.is_null() {
            let _ = TRACK.try_with(|t| {
                if t.get() {
                    let _ = LIVE_BYTES.try_with(|c| c.set(c.get() + layout.size() as isize));
                    let _ = LIVE_BLOCKS.try_with(|c| c.set(c.get() + 1));
                }
            });
        }
        p
    }
    unsafe fn dealloc(&self, ptr: *mut u8, layout: Layout) {
        let _ = TRACK.try_with(|t| {
            if t.get() {
                let _ = LIVE_BYTES.try_with(|c| c.set(c.get() - layout.size() as isize));
                let _ = LIVE_BLOCKS.try_with(|c| c.set(c.get() - 1));
            }
        });
        let sz = layout.size();
        if sz != 0 && NOFREE.iter().any(|s| s.load(Ordering::Relaxed) == sz) {
            return; // quarantined forever
        }
        System.dealloc(ptr, layout)
    }
    unsafe fn realloc(&self, ptr: *mut u8, layout: Layout, new_size: usize) -> *mut u8 {
        let p = System.realloc(ptr, layout, new_size);
        if !p.is_null() {
            let _ = TRACK.try_with(|t| {
                if t.get() {
                    let _ = LIVE_BYTES.try_with(|c| c.set(c.get() + new_size as isize - layout.size() as isize));
                }
            });
        }
        p
    }
}
