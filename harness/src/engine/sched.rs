//! Baton-passing deterministic scheduler. Each logical thread of a case is a real OS thread, but
//! exactly one holds the baton; at every hook point the running thread parks and the next thread is
//! chosen from the case's schedule bytes. When the bytes are exhausted the current thread keeps
//! running, so truncating the schedule removes context switches.

use std::{
    cell::RefCell,
    panic::{catch_unwind, AssertUnwindSafe},
    rc::Rc,
    sync::{Arc, Condvar, Mutex},
    time::Duration,
};

use super::runner::{panic_message, QUIET_PANICS};

#[derive(Clone, Copy, PartialEq, Eq, Debug)]
enum Status {
    NotStarted,
    Live,
    Done,
}

struct TState {
    status: Status,
    spinning: bool,
    fused_until: Option<&'static str>,
}

struct State {
    current: Option<usize>,
    threads: Vec<TState>,
    choices: Vec<u8>,
    pos: usize,
    stay_below: u8,
    trace: Vec<(u8, &'static str)>,
    steps: u64,
    max_steps: u64,
    preemptions: u32,
    abort: Option<&'static str>, // "livelock" | "budget"
    fuse: Vec<(&'static str, &'static str)>,
    sites: Option<Vec<&'static str>>,
    explicit: Option<Vec<(u64, usize)>>,
}

struct Inner {
    m: Mutex<State>,
    cv: Condvar,
}

struct AbortToken;

type Job = Box<dyn FnOnce() + Send + 'static>;

thread_local! {
    static POOL: RefCell<Vec<std::sync::mpsc::Sender<Job>>> = RefCell::new(Vec::new());
    static CURRENT: RefCell<Option<(Arc<Inner>, usize)>> = RefCell::new(None);
}

#[derive(Default, Clone)]
pub struct SchedOpts {
    /// windows made atomic: (from_site, to_site) — no yield from from_site until to_site is passed
    pub fuse: Vec<(&'static str, &'static str)>,
    /// only yield at these library sites (None = all); harness-level points always yield
    pub sites: Option<Vec<&'static str>>,
    pub max_steps: u64,
    /// run every logical thread on a brand-new OS thread (fresh thread-locals) instead of the pool
    pub fresh_threads: bool,
    /// explicit schedule (for bounded-exhaustive enumeration): run thread 0 first and switch to
    /// the given thread when the global step counter reaches the given value; ignores the bytes
    pub explicit: Option<Vec<(u64, usize)>>,
}

#[derive(Debug)]
pub struct Outcome {
    pub trace: Vec<(u8, &'static str)>,
    pub livelock: bool,
    pub budget_exhausted: bool,
    pub panics: Vec<(usize, String)>,
    pub steps: u64,
    pub preemptions: u32,
    pub choices_used: usize,
}

/// Harness-level yield point (usable inside recorder doubles and between API calls).
pub fn point(site: &'static str) {
    yield_point(site, false, true);
}

/// Current scheduler step (monotone); 0 outside an exploration.
pub fn now() -> u64 {
    CURRENT.with(|c| c.borrow().as_ref().map(|(i, _)| i.m.lock().unwrap().steps).unwrap_or(0))
}

fn pick_next(st: &mut State, me: usize, me_can_continue: bool) -> Option<usize> {
    // candidates other than me: live (or not started), not spinning
    let others: Vec<usize> = (0..st.threads.len())
        .filter(|&t| t != me && st.threads[t].status != Status::Done && !st.threads[t].spinning)
        .collect();
    if let Some(ex) = &st.explicit {
        let want = ex.iter().find(|(s, _)| *s == st.steps).map(|(_, t)| *t);
        if let Some(t) = want {
            if t != me && others.contains(&t) {
                return Some(t);
            }
        }
        return if me_can_continue { Some(me) } else { others.first().copied() };
    }
    if st.pos < st.choices.len() {
        let b = st.choices[st.pos];
        st.pos += 1;
        if me_can_continue && (b < st.stay_below || others.is_empty()) {
            return Some(me);
        }
        if others.is_empty() {
            return None;
        }
        let span = 256 - st.stay_below as usize;
        let idx = if me_can_continue {
            ((b - st.stay_below) as usize * others.len()) / span.max(1)
        } else {
            (b as usize * others.len()) >> 8
        };
        Some(others[idx.min(others.len() - 1)])
    } else if me_can_continue {
        Some(me)
    } else {
        others.first().copied()
    }
}

fn yield_point(site: &'static str, spin: bool, harness_level: bool) {
    let cur = CURRENT.with(|c| c.borrow().clone());
    let Some((inner, me)) = cur else { return };
    let mut st = inner.m.lock().unwrap();
    if st.abort.is_some() {
        drop(st);
        std::panic::resume_unwind(Box::new(AbortToken));
    }
    // fused windows
    if let Some(until) = st.threads[me].fused_until {
        if until == site {
            st.threads[me].fused_until = None;
        } else if !spin {
            st.trace.push((me as u8, site));
            return;
        }
    } else if let Some(&(_, to)) = st.fuse.iter().find(|(from, _)| *from == site) {
        st.threads[me].fused_until = Some(to);
        st.trace.push((me as u8, site));
        return;
    }
    if !harness_level && !spin {
        if let Some(sites) = &st.sites {
            if !sites.contains(&site) {
                return;
            }
        }
    }
    st.steps += 1;
    st.trace.push((me as u8, site));
    if st.steps > st.max_steps {
        st.abort = Some("budget");
        inner.cv.notify_all();
        drop(st);
        std::panic::resume_unwind(Box::new(AbortToken));
    }
    if spin {
        st.threads[me].spinning = true;
    } else {
        for t in st.threads.iter_mut() {
            t.spinning = false;
        }
    }
    let next = pick_next(&mut st, me, !spin);
    match next {
        Some(n) if n == me => {}
        Some(n) => {
            st.preemptions += 1;
            st.current = Some(n);
            inner.cv.notify_all();
            while st.current != Some(me) && st.abort.is_none() {
                st = inner.cv.wait(st).unwrap();
            }
            if st.abort.is_some() {
                drop(st);
                std::panic::resume_unwind(Box::new(AbortToken));
            }
        }
        None => {
            // I am spinning and nobody else can run: deterministic livelock.
            st.abort = Some("livelock");
            inner.cv.notify_all();
            drop(st);
            std::panic::resume_unwind(Box::new(AbortToken));
        }
    }
}

fn thread_done(inner: &Arc<Inner>, me: usize) {
    let mut st = inner.m.lock().unwrap();
    st.threads[me].status = Status::Done;
    for t in st.threads.iter_mut() {
        t.spinning = false;
    }
    if st.abort.is_some() {
        inner.cv.notify_all();
        return;
    }
    let next = pick_next(&mut st, me, false);
    st.current = next;
    inner.cv.notify_all();
}

fn run_managed(inner: &Arc<Inner>, tid: usize, body: Box<dyn FnOnce() + Send + '_>, panics: &Mutex<Vec<(usize, String)>>) {
    // wait for the baton
    {
        let mut st = inner.m.lock().unwrap();
        while st.current != Some(tid) && st.abort.is_none() {
            st = inner.cv.wait(st).unwrap();
        }
        st.threads[tid].status = Status::Live;
        if st.abort.is_some() {
            drop(st);
            drop(body);
            thread_done(inner, tid);
            return;
        }
    }
    CURRENT.with(|c| *c.borrow_mut() = Some((inner.clone(), tid)));
    let hook: metrics::__verif::Hook = Rc::new(|site, spin| yield_point(site, spin, false));
    metrics::__verif::set_thread_hook(Some(hook));
    QUIET_PANICS.with(|q| *q.borrow_mut() = true);
    let r = catch_unwind(AssertUnwindSafe(body));
    metrics::__verif::set_thread_hook(None);
    CURRENT.with(|c| *c.borrow_mut() = None);
    if let Err(p) = r {
        if p.downcast_ref::<AbortToken>().is_none() {
            panics.lock().unwrap().push((tid, panic_message(&*p)));
        }
    }
    thread_done(inner, tid);
}

/// Runs the given logical threads under the schedule described by `choices`.
pub fn explore(choices: &[u8], opts: SchedOpts, threads: Vec<Box<dyn FnOnce() + Send + '_>>) -> Outcome {
    let n = threads.len();
    let stay_below = match choices.first().copied().unwrap_or(0) {
        0..=84 => 224u8,
        85..=169 => 176,
        _ => 112,
    };
    let inner = Arc::new(Inner {
        m: Mutex::new(State {
            current: None,
            threads: (0..n).map(|_| TState { status: Status::NotStarted, spinning: false, fused_until: None }).collect(),
            choices: choices.iter().skip(1).copied().collect(),
            pos: 0,
            stay_below,
            trace: Vec::new(),
            steps: 0,
            max_steps: if opts.max_steps == 0 { 20_000 } else { opts.max_steps },
            preemptions: 0,
            abort: None,
            fuse: opts.fuse.clone(),
            sites: opts.sites.clone(),
            explicit: opts.explicit.clone(),
        }),
        cv: Condvar::new(),
    });
    let panics: Mutex<Vec<(usize, String)>> = Mutex::new(Vec::new());
    let done = Arc::new((Mutex::new(0usize), Condvar::new()));
    let mut jobs: Vec<Box<dyn FnOnce() + Send + '_>> = Vec::new();
    for (tid, body) in threads.into_iter().enumerate() {
        let inner = inner.clone();
        let panics = &panics;
        let done = done.clone();
        jobs.push(Box::new(move || {
            run_managed(&inner, tid, body, panics);
            let mut d = done.0.lock().unwrap();
            *d += 1;
            done.1.notify_all();
        }));
    }
    let drive = |inner: &Arc<Inner>| {
        // start: pick first thread by the first schedule choice
        let mut st = inner.m.lock().unwrap();
        let first = if st.explicit.is_some() {
            0
        } else if st.pos < st.choices.len() {
            let b = st.choices[st.pos];
            st.pos += 1;
            (b as usize * n) >> 8
        } else {
            0
        };
        st.current = Some(first.min(n.saturating_sub(1)));
        inner.cv.notify_all();
        drop(st);
        // wait for completion with a watchdog
        let mut d = done.0.lock().unwrap();
        let mut waited = 0u32;
        while *d < n {
            let (g, to) = done.1.wait_timeout(d, Duration::from_millis(500)).unwrap();
            d = g;
            if to.timed_out() {
                waited += 1;
                if waited >= 60 {
                    let st = inner.m.lock().unwrap();
                    eprintln!(
                        "HARNESS-WATCHDOG: exploration stuck for 30 s (a managed thread is blocked outside a hook point); last trace: {:?}",
                        st.trace.iter().rev().take(12).collect::<Vec<_>>()
                    );
                    std::process::exit(2);
                }
            } else {
                waited = 0;
            }
        }
    };
    if n == 0 {
        // nothing to run
    } else if opts.fresh_threads {
        std::thread::scope(|s| {
            for job in jobs {
                s.spawn(job);
            }
            drive(&inner);
        });
    } else {
        POOL.with(|pool| {
            let mut pool = pool.borrow_mut();
            while pool.len() < n {
                let (tx, rx) = std::sync::mpsc::channel::<Job>();
                std::thread::Builder::new()
                    .name("sched-helper".into())
                    .spawn(move || {
                        while let Ok(job) = rx.recv() {
                            job();
                        }
                    })
                    .expect("spawn helper");
                pool.push(tx);
            }
            for (i, job) in jobs.into_iter().enumerate() {
                // SAFETY: `drive` below does not return before every job has finished running (the
                // `done` counter is bumped as the last action of each job), so the borrows captured
                // by the jobs outlive their execution, exactly as with scoped threads.
                let job: Job = unsafe { std::mem::transmute::<Box<dyn FnOnce() + Send + '_>, Job>(job) };
                pool[i].send(job).expect("helper alive");
            }
        });
        drive(&inner);
    }
    let panics_out = { let g = panics.lock().unwrap(); g.clone() };
    let st = inner.m.lock().unwrap();
    Outcome {
        trace: st.trace.clone(),
        livelock: st.abort == Some("livelock"),
        budget_exhausted: st.abort == Some("budget"),
        panics: panics_out,
        steps: st.steps,
        preemptions: st.preemptions,
        choices_used: st.pos.min(st.choices.len()),
    }
}

/// All explicit schedules with at most two switches (for bounded-exhaustive sub-lanes).
pub fn schedules_le2(nthreads: usize, steps: u64) -> Vec<Vec<(u64, usize)>> {
    let mut out: Vec<Vec<(u64, usize)>> = vec![vec![]];
    for s1 in 0..=steps {
        for t1 in 0..nthreads {
            out.push(vec![(s1, t1)]);
            for s2 in (s1 + 1)..=steps {
                for t2 in 0..nthreads {
                    if t2 != t1 {
                        out.push(vec![(s1, t1), (s2, t2)]);
                    }
                }
            }
        }
    }
    out
}
