//! Child-process lanes for code that touches process-global state (the global recorder).
//! The harness re-executes itself as `harness <ID> --child <seed>`; the child prints `CHILD-OK ...`
//! or `CHILD-FAIL <signature> <message>`.

use std::{
    process::{Command, Stdio},
    sync::{
        atomic::{AtomicU64, Ordering},
        Mutex,
    },
    time::{Duration, Instant},
};

use super::{
    report::PropRun,
    runner::{ncpu, Ctx, LaneReport, Violation},
};

pub fn run_children(pr: &PropRun, id: &str, lane: &'static str, n: u64, describe: impl Fn(u64) -> String + Sync) -> LaneReport {
    let start = Instant::now();
    let rep = Mutex::new(LaneReport::named(lane));
    let next = AtomicU64::new(0);
    let exe = std::env::current_exe().expect("current_exe");
    let base = pr.cfg.seed.wrapping_mul(0x9E3779B97F4A7C15) >> 20;
    std::thread::scope(|s| {
        for _ in 0..ncpu().min(n as usize).max(1) {
            s.spawn(|| loop {
                let i = next.fetch_add(1, Ordering::SeqCst);
                if i >= n {
                    break;
                }
                let seed = base.wrapping_add(i);
                let mut child = match Command::new(&exe).arg(id).arg("--child").arg(seed.to_string()).stdout(Stdio::piped()).stderr(Stdio::piped()).spawn() {
                    Ok(c) => c,
                    Err(e) => {
                        rep.lock().unwrap().inconclusive.push(format!("cannot spawn child: {}", e));
                        break;
                    }
                };
                // watchdog
                let t0 = Instant::now();
                let status = loop {
                    match child.try_wait() {
                        Ok(Some(st)) => break Some(st),
                        Ok(None) => {
                            if t0.elapsed() > Duration::from_secs(120) {
                                let _ = child.kill();
                                let _ = child.wait();
                                break None;
                            }
                            std::thread::sleep(Duration::from_millis(2));
                        }
                        Err(_) => break None,
                    }
                };
                let out = child.wait_with_output().ok();
                let stdout = out.as_ref().map(|o| String::from_utf8_lossy(&o.stdout).to_string()).unwrap_or_default();
                let stderr = out.as_ref().map(|o| String::from_utf8_lossy(&o.stderr).to_string()).unwrap_or_default();
                let mut r = rep.lock().unwrap();
                let mut ctx = Ctx::default();
                ctx.fingerprint = Some(seed);
                ctx.nontrivial("process-case");
                if i < 2 {
                    ctx.desc = Some(format!("child seed {}: {} -> {}", seed, describe(seed), stdout.lines().last().unwrap_or("")));
                }
                r.account(ctx);
                let ok_line = stdout.lines().any(|l| l.starts_with("CHILD-OK"));
                let fail_line = stdout.lines().find(|l| l.starts_with("CHILD-FAIL")).map(|s| s.to_string());
                match (status, ok_line, fail_line) {
                    (Some(st), true, None) if st.success() => {}
                    (_, _, Some(line)) => {
                        let mut it = line.splitn(3, ' ');
                        it.next();
                        let sig = it.next().unwrap_or("child-fail").to_string();
                        let msg = it.next().unwrap_or("").to_string();
                        if pr.cfg.is_known(&sig) {
                            r.known_hits.entry(sig).or_insert((0, seed.to_le_bytes().to_vec(), vec![], msg)).0 += 1;
                        } else {
                            r.violations.push(Violation { lane: lane.to_string(), sig, msg, bytes: seed.to_le_bytes().to_vec(), sched: vec![], decoded: format!("child seed {}: {}", seed, describe(seed)) });
                        }
                    }
                    (None, _, _) => r.inconclusive.push(format!("child seed {} timed out or could not be waited for", seed)),
                    (Some(st), _, None) if st.code() == Some(2) => {
                        r.inconclusive.push(format!("child seed {} reported harness trouble / no verdict (exit 2): {}", seed, stdout.lines().last().unwrap_or("")));
                    }
                    (Some(st), _, None) => {
                        // crashed (signal / abort) without a verdict line: memory-safety style failure
                        let sig = format!("child-crashed:{}", st);
                        let tail: String = stderr.lines().rev().take(4).collect::<Vec<_>>().join(" | ");
                        r.violations.push(Violation { lane: lane.to_string(), sig, msg: format!("child died without a verdict: {} ; stderr tail: {}", st, tail), bytes: seed.to_le_bytes().to_vec(), sched: vec![], decoded: format!("child seed {}: {}", seed, describe(seed)) });
                    }
                }
            });
        }
    });
    let mut rep = rep.into_inner().unwrap();
    rep.wall_s = start.elapsed().as_secs_f64();
    rep
}

/// Replay helper for child lanes: bytes = seed (LE u64).
pub fn replay_child(id: &str, bytes: &[u8]) -> Result<(), super::runner::Fail> {
    let mut b = [0u8; 8];
    for (i, x) in bytes.iter().take(8).enumerate() {
        b[i] = *x;
    }
    let seed = u64::from_le_bytes(b);
    let exe = std::env::current_exe().expect("current_exe");
    let out = Command::new(exe).arg(id).arg("--child").arg(seed.to_string()).output().map_err(|e| super::runner::Fail::new("harness-spawn", e.to_string()))?;
    let stdout = String::from_utf8_lossy(&out.stdout).to_string();
    if let Some(line) = stdout.lines().find(|l| l.starts_with("CHILD-FAIL")) {
        let mut it = line.splitn(3, ' ');
        it.next();
        let sig = it.next().unwrap_or("child-fail").to_string();
        return Err(super::runner::Fail::new(sig, it.next().unwrap_or("").to_string()));
    }
    if !out.status.success() {
        return Err(super::runner::Fail::new(format!("child-crashed:{}", out.status), "child died without a verdict".to_string()));
    }
    Ok(())
}
