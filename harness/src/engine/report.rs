//! Evidence, replay files, known findings and the exit-code protocol.

use std::{collections::BTreeMap, fs, path::PathBuf, time::Instant};

use serde_json::{json, Value};

use super::runner::{hash_str, hex, run_case, unhex, CaseFn, Ctx, LaneReport, RunCfg, Tier, Violation};

pub fn verif_root() -> PathBuf {
    std::env::var("VERIF_ROOT").map(PathBuf::from).unwrap_or_else(|_| PathBuf::from("/verif"))
}

#[derive(Clone, Debug)]
pub struct Known {
    pub property: String,
    pub signature: String,
    pub status: String,
    pub what: String,
}

pub fn load_known(id: &str) -> Vec<Known> {
    let p = verif_root().join("known_findings.json");
    let Ok(txt) = fs::read_to_string(&p) else { return vec![] };
    let Ok(v) = serde_json::from_str::<Value>(&txt) else { return vec![] };
    v["entries"]
        .as_array()
        .map(|a| {
            a.iter()
                .filter(|e| e["property"] == id)
                .map(|e| Known {
                    property: id.to_string(),
                    signature: e["signature"].as_str().unwrap_or("").to_string(),
                    status: e["status"].as_str().unwrap_or("").to_string(),
                    what: e["what"].as_str().unwrap_or("").to_string(),
                })
                .collect()
        })
        .unwrap_or_default()
}

pub struct PropRun<'a> {
    pub id: &'static str,
    pub cfg: RunCfg,
    pub start: Instant,
    pub lanes: Vec<LaneReport>,
    pub rule: &'static str,
    pub assumptions: Vec<String>,
    pub known: Vec<Known>,
    pub lane_fns: Vec<(&'static str, &'a CaseFn<'a>)>,
    pub extra: BTreeMap<String, Value>,
}

impl<'a> PropRun<'a> {
    pub fn new(id: &'static str, cfg: &RunCfg, rule: &'static str) -> Self {
        let known = load_known(id);
        let mut cfg = cfg.clone();
        cfg.known = known.iter().filter(|k| k.status == "known").map(|k| k.signature.clone()).collect();
        PropRun { id, cfg, start: Instant::now(), lanes: vec![], rule, assumptions: vec![], known, lane_fns: vec![], extra: BTreeMap::new() }
    }

    pub fn assume(&mut self, s: &str) {
        self.assumptions.push(s.to_string());
    }

    /// Registers a lane's case function under its name (for replay) without running it.
    pub fn register(&mut self, name: &'static str, f: &'a CaseFn<'a>) {
        self.lane_fns.push((name, f));
    }

    /// Re-executes the committed regression corpus of this property (replays/<ID>/*.json).
    /// Files with expect "pass" must pass; files with expect "known:<sig>" confirm a known finding.
    pub fn run_regressions(&mut self) -> LaneReport {
        let mut rep = LaneReport::named("regression-replays");
        let start = Instant::now();
        let dir = verif_root().join("replays").join(self.id);
        let mut files: Vec<_> = fs::read_dir(&dir).map(|d| d.filter_map(|e| e.ok()).map(|e| e.path()).collect()).unwrap_or_default();
        files.sort();
        for path in files {
            if path.extension().map(|e| e != "json").unwrap_or(true) {
                continue;
            }
            let Ok(txt) = fs::read_to_string(&path) else { continue };
            let Ok(v) = serde_json::from_str::<Value>(&txt) else { continue };
            let lane = v["lane"].as_str().unwrap_or("");
            let Some((_, f)) = self.lane_fns.iter().find(|(n, _)| *n == lane) else {
                rep.notes.push(format!("{}: lane {} not registered, skipped", path.display(), lane));
                continue;
            };
            let bytes = unhex(v["bytes_hex"].as_str().unwrap_or(""));
            let sched = unhex(v["sched_hex"].as_str().unwrap_or(""));
            let expect = v["expect"].as_str().unwrap_or("pass").to_string();
            let mut ctx = Ctx::default();
            let r = run_case(*f, &bytes, &sched, &mut ctx);
            let decoded = ctx.desc.clone().unwrap_or_default();
            ctx.class("regression-replay");
            rep.account(ctx);
            match (r, expect.strip_prefix("known:")) {
                (Ok(()), None) => {}
                (Ok(()), Some(sig)) => {
                    rep.notes.push(format!("{}: known finding {} did not reproduce", path.display(), sig));
                }
                (Err(fail), Some(sig)) if fail.sig == sig && self.cfg.is_known(sig) => {
                    let e = rep.known_hits.entry(fail.sig.clone()).or_insert((0, bytes.clone(), sched.clone(), decoded));
                    e.0 += 1;
                }
                (Err(fail), _) => {
                    if self.cfg.is_known(&fail.sig) {
                        let e = rep.known_hits.entry(fail.sig.clone()).or_insert((0, bytes.clone(), sched.clone(), decoded));
                        e.0 += 1;
                    } else {
                        rep.violations.push(Violation { lane: lane.to_string(), sig: fail.sig, msg: format!("regression replay {}: {}", path.display(), fail.msg), bytes, sched, decoded });
                    }
                }
            }
        }
        rep.wall_s = start.elapsed().as_secs_f64();
        rep
    }

    pub fn push(&mut self, rep: LaneReport) {
        eprintln!(
            "[{}] lane {:<28} evals={:<9} nontrivial={:<8} distinct_nt={:<8} known_hits={} violations={} wall={:.1}s",
            self.id,
            rep.name,
            rep.evaluations,
            rep.nontrivial_total,
            rep.distinct_nontrivial.len(),
            rep.known_hits.values().map(|v| v.0).sum::<u64>(),
            rep.violations.len(),
            rep.wall_s
        );
        self.lanes.push(rep);
    }

    fn write_replay(&self, v: &Violation, expect: &str, dir: &str) -> PathBuf {
        let d = verif_root().join("replays").join(dir);
        let _ = fs::create_dir_all(&d);
        let name = format!("{}-{}-{:08x}.json", self.id, v.lane, hash_str(&format!("{}{}{}", v.sig, hex(&v.bytes), hex(&v.sched))) as u32);
        let path = d.join(name);
        let body = json!({
            "property": self.id,
            "lane": v.lane,
            "engine": "proptest-1.6.0 choice sequence (bytes_hex = case, sched_hex = schedule)",
            "seed": self.cfg.seed,
            "bytes_hex": hex(&v.bytes),
            "sched_hex": hex(&v.sched),
            "decoded": v.decoded,
            "signature": v.sig,
            "message": v.msg,
            "expect": expect,
        });
        let _ = fs::write(&path, serde_json::to_string_pretty(&body).unwrap());
        path
    }

    /// Writes evidence, prints KNOWN-FINDING / VIOLATION lines, returns the exit code.
    pub fn finish(self) -> i32 {
        let mut evaluations = 0u64;
        let mut distinct = 0u64;
        let mut samples: Vec<Value> = vec![];
        let mut classes: BTreeMap<String, u64> = BTreeMap::new();
        let mut violations: Vec<&Violation> = vec![];
        let mut known_hits: BTreeMap<String, u64> = BTreeMap::new();
        let mut inconclusive: Vec<String> = vec![];
        let mut exhaustive_lanes = vec![];
        for l in &self.lanes {
            evaluations += l.evaluations;
            distinct += l.distinct_nontrivial.len() as u64;
            for s in l.samples.iter().take(6) {
                samples.push(s.clone());
            }
            for (k, v) in &l.classes {
                *classes.entry(format!("{}/{}", l.name, k)).or_insert(0) += v;
            }
            violations.extend(l.violations.iter());
            for (k, v) in &l.known_hits {
                *known_hits.entry(k.clone()).or_insert(0) += v.0;
            }
            inconclusive.extend(l.inconclusive.iter().map(|s| format!("{}: {}", l.name, s)));
            if l.exhaustive {
                exhaustive_lanes.push(l.name.clone());
            }
        }
        // de-duplicate violations by signature for reporting
        let mut by_sig: BTreeMap<String, &Violation> = BTreeMap::new();
        for v in &violations {
            let e = by_sig.entry(format!("{}/{}", v.lane, v.sig)).or_insert(v);
            if v.bytes.len() + v.sched.len() < e.bytes.len() + e.sched.len() {
                *e = v;
            }
        }
        let mut viol_json = vec![];
        let mut lines = vec![];
        for (_, v) in &by_sig {
            let path = self.write_replay(v, "pass", "out");
            lines.push(format!("VIOLATION property={} replay={}", self.id, path.display()));
            eprintln!("[{}] violation in lane {}: signature={} message={}\n    decoded: {}", self.id, v.lane, v.sig, v.msg, v.decoded);
            viol_json.push(json!({"lane": v.lane, "signature": v.sig, "message": v.msg, "replay": path.display().to_string(), "decoded": v.decoded}));
        }
        let mut known_json = vec![];
        for k in &self.known {
            let hits = known_hits.get(&k.signature).copied().unwrap_or(0);
            known_json.push(json!({"signature": k.signature, "status": k.status, "what": k.what, "reproduced_this_run": hits}));
            if k.status == "known" {
                if hits > 0 {
                    println!("KNOWN-FINDING: property={} {} [{}; reproduced {} time(s) this run]", self.id, k.what, k.signature, hits);
                } else {
                    eprintln!("[{}] note: known finding {} did not reproduce in this run", self.id, k.signature);
                }
            }
        }
        let wall = self.start.elapsed().as_secs_f64();
        let mut coverage = json!({
            "evaluations": evaluations,
            "distinct_nontrivial": distinct,
            "rule": self.rule,
            "samples": samples,
            "exhaustive": false,
            "exhaustive_sublanes": exhaustive_lanes,
            "lanes": self.lanes.iter().map(|l| l.summary()).collect::<Vec<_>>(),
            "classes": classes,
            "known_findings": known_json,
            "violation_details": viol_json,
            "inconclusive": inconclusive,
        });
        for (k, v) in &self.extra {
            coverage[k] = v.clone();
        }
        let ev = json!({
            "property_id": self.id,
            "tier": if self.cfg.tier == Tier::Quick { "quick" } else { "thorough" },
            "seed": self.cfg.seed,
            "level": "exploration",
            "coverage": coverage,
            "assumptions": self.assumptions,
            "wall_s": (wall * 100.0).round() / 100.0,
            "violations": by_sig.len(),
        });
        let dir = verif_root().join("evidence");
        let _ = fs::create_dir_all(&dir);
        let path = dir.join(format!("{}.json", self.id));
        if let Err(e) = fs::write(&path, serde_json::to_string_pretty(&ev).unwrap()) {
            eprintln!("cannot write evidence {}: {}", path.display(), e);
            return 2;
        }
        for l in &lines {
            println!("{}", l);
        }
        if !lines.is_empty() {
            return 1;
        }
        if evaluations == 0 {
            eprintln!("[{}] no case was executed", self.id);
            return 2;
        }
        println!("OK property={} tier={:?} seed={} evaluations={} distinct_nontrivial={} wall={:.1}s", self.id, self.cfg.tier, self.cfg.seed, evaluations, distinct, wall);
        0
    }

    /// Strict single-case replay: `file` as written by write_replay.
    pub fn replay(&self, file: &str) -> i32 {
        let Ok(txt) = fs::read_to_string(file) else {
            eprintln!("cannot read {}", file);
            return 2;
        };
        let Ok(v) = serde_json::from_str::<Value>(&txt) else {
            eprintln!("bad json {}", file);
            return 2;
        };
        let lane = v["lane"].as_str().unwrap_or("");
        let Some((_, f)) = self.lane_fns.iter().find(|(n, _)| *n == lane) else {
            eprintln!("lane {} unknown for {}", lane, self.id);
            return 2;
        };
        let bytes = unhex(v["bytes_hex"].as_str().unwrap_or(""));
        let sched = unhex(v["sched_hex"].as_str().unwrap_or(""));
        let mut ctx = Ctx::default();
        let r = run_case(*f, &bytes, &sched, &mut ctx);
        println!("decoded: {}", ctx.desc.unwrap_or_default());
        match r {
            Ok(()) => {
                println!("replay passed");
                0
            }
            Err(fail) => {
                println!("replay failed: signature={} message={}", fail.sig, fail.msg);
                println!("VIOLATION property={} replay={}", self.id, file);
                1
            }
        }
    }
}
