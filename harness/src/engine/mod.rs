pub mod child;
pub mod probes;
pub mod report;
pub mod runner;
pub mod sched;
pub mod source;
