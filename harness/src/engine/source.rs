//! Choice-sequence decoder: every generated case is a pure, total function of a byte string.
//! An exhausted source yields the minimal value (0 / first alternative / empty), and smaller bytes
//! decode to simpler values, so generic byte shrinking shrinks the case.

pub struct Source<'a> {
    data: &'a [u8],
    pos: usize,
}

impl<'a> Source<'a> {
    pub fn new(data: &'a [u8]) -> Self {
        Source { data, pos: 0 }
    }

    pub fn exhausted(&self) -> bool {
        self.pos >= self.data.len()
    }

    pub fn consumed(&self) -> usize {
        self.pos
    }

    pub fn rest(&mut self) -> &'a [u8] {
        let r = &self.data[self.pos.min(self.data.len())..];
        self.pos = self.data.len();
        r
    }

    pub fn byte(&mut self) -> u8 {
        let b = self.data.get(self.pos).copied().unwrap_or(0);
        self.pos += 1;
        b
    }

    /// Uniform-ish index in `0..n` (monotone in the byte; n <= 256 uses one byte).
    pub fn below(&mut self, n: usize) -> usize {
        if n <= 1 {
            return 0;
        }
        if n <= 256 {
            (self.byte() as usize * n) >> 8
        } else {
            let v = ((self.byte() as usize) << 8) | self.byte() as usize;
            if n <= 65536 {
                (v * n) >> 16
            } else {
                let w = (v << 16) | ((self.byte() as usize) << 8) | self.byte() as usize;
                ((w as u128 * n as u128) >> 32) as usize
            }
        }
    }

    /// Integer in `lo..=hi`.
    pub fn int_in(&mut self, lo: u64, hi: u64) -> u64 {
        debug_assert!(lo <= hi);
        let span = hi - lo;
        if span == u64::MAX {
            return self.u64_raw();
        }
        lo + self.below_u64(span + 1)
    }

    fn below_u64(&mut self, n: u64) -> u64 {
        if n <= 65536 {
            self.below(n as usize) as u64
        } else {
            let v = self.u64_raw();
            ((v as u128 * n as u128) >> 64) as u64
        }
    }

    pub fn u64_raw(&mut self) -> u64 {
        let mut v = 0u64;
        for _ in 0..8 {
            v = (v << 8) | self.byte() as u64;
        }
        v
    }

    /// true with probability ~num/256; byte 0 => false.
    pub fn chance(&mut self, num: u32) -> bool {
        let b = self.byte() as u32;
        b >= 256 - num.min(256)
    }

    pub fn bool(&mut self) -> bool {
        self.byte() >= 128
    }

    pub fn pick<'b, T>(&mut self, items: &'b [T]) -> &'b T {
        &items[self.below(items.len())]
    }

    /// Length in 0..=max, biased to small values.
    pub fn len(&mut self, max: usize) -> usize {
        if max == 0 {
            return 0;
        }
        let b = self.byte() as usize;
        // half of the mass on 0..min(max,4), rest spread up to max
        if b < 128 {
            (b * (max.min(4) + 1)) >> 7
        } else {
            ((b - 128) * (max + 1)) >> 7
        }
    }

    pub fn vec<T>(&mut self, max: usize, mut f: impl FnMut(&mut Source<'a>) -> T) -> Vec<T> {
        let n = self.len(max);
        (0..n).map(|_| f(self)).collect()
    }

    /// u64 with boundary bias.
    pub fn u64_interesting(&mut self) -> u64 {
        const T: [u64; 12] = [
            0,
            1,
            2,
            3,
            10,
            255,
            256,
            u32::MAX as u64,
            1 << 53,
            (1 << 63) - 1,
            1 << 63,
            u64::MAX,
        ];
        let b = self.byte();
        match b {
            0..=95 => (b as u64) >> 2,
            96..=159 => T[((b - 96) as usize * T.len()) >> 6],
            160..=191 => u64::MAX - self.byte() as u64,
            192..=223 => (self.byte() as u64) << ((b - 192) as u32 * 2),
            _ => self.u64_raw(),
        }
    }

    /// f64 with boundary bias (NaN, infinities, signed zero, subnormals, 2^53 neighbours, ...).
    pub fn f64_interesting(&mut self) -> f64 {
        const T: [f64; 22] = [
            0.0,
            1.0,
            -1.0,
            -0.0,
            0.5,
            2.0,
            10.0,
            0.1,
            1e-9,
            1e9,
            9007199254740992.0,
            9007199254740993.0,
            9007199254740991.0,
            f64::MAX,
            f64::MIN,
            f64::MIN_POSITIVE,
            5e-324,
            f64::EPSILON,
            f64::INFINITY,
            f64::NEG_INFINITY,
            f64::NAN,
            1e300,
        ];
        let b = self.byte();
        match b {
            0..=63 => (b >> 1) as f64 * if b & 1 == 1 { 0.25 } else { 1.0 },
            64..=159 => T[((b - 64) as usize * T.len()) / 96],
            160..=199 => {
                // dyadic rational of bounded magnitude (exactly summable)
                let m = self.int_in(0, 4096) as f64;
                let sign = if b & 1 == 1 { -1.0 } else { 1.0 };
                sign * m / 8.0
            }
            200..=219 => {
                let v = self.u64_raw();
                (v >> 11) as f64 / (1u64 << 53) as f64 * 1000.0
            }
            _ => f64::from_bits(self.u64_raw()),
        }
    }

    /// Exactly summable finite value: k/8 with |k| <= 4096.
    pub fn f64_dyadic(&mut self) -> f64 {
        let neg = self.chance(64);
        let m = self.int_in(0, 4096) as f64 / 8.0;
        if neg {
            -m
        } else {
            m
        }
    }

    /// String over a small alphabet (collisions frequent).
    pub fn small_string(&mut self, alphabet: &[&str], max_parts: usize) -> String {
        let n = self.len(max_parts);
        let mut s = String::new();
        for _ in 0..n {
            s.push_str(*self.pick(alphabet));
        }
        s
    }

    /// Arbitrary Unicode string with a dictionary of fragments mixed in.
    pub fn string_with_dict(&mut self, dict: &[&str], max_parts: usize) -> String {
        let n = self.len(max_parts);
        let mut s = String::new();
        for _ in 0..n {
            let b = self.byte();
            match b {
                0..=79 => s.push((b'a' + (b % 26)) as char),
                80..=111 => s.push((b'A' + (b % 26)) as char),
                112..=131 => s.push((b'0' + (b % 10)) as char),
                132..=195 => s.push_str(*self.pick(dict)),
                196..=215 => s.push(self.byte() as char), // latin-1 incl. controls
                216..=235 => {
                    let c = self.int_in(0, 0x10FFFF) as u32;
                    s.push(char::from_u32(c).unwrap_or('\u{FFFD}'));
                }
                _ => s.push(self.byte().min(127) as char), // ASCII incl. controls
            }
        }
        s
    }
}
