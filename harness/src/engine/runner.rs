//! Lane runner: drives a case function with proptest (generation + shrinking) on worker threads,
//! measures what was generated, tolerates listed known findings, and collects violations.

use std::{
    cell::RefCell,
    collections::{BTreeMap, HashSet},
    hash::{Hash, Hasher},
    panic::{catch_unwind, AssertUnwindSafe},
    sync::Mutex,
    time::Instant,
};

use proptest::{
    collection::vec as pvec,
    prelude::any,
    test_runner::{Config, RngAlgorithm, TestCaseError, TestError, TestRng, TestRunner},
};
use serde_json::{json, Value};

#[derive(Clone, Copy, PartialEq, Eq, Debug)]
pub enum Tier {
    Quick,
    Thorough,
}

#[derive(Clone)]
pub struct RunCfg {
    pub tier: Tier,
    pub seed: u64,
    pub scale: f64,
    pub strict: bool,
    pub known: Vec<String>,
}

impl RunCfg {
    pub fn cases(&self, quick: u64, thorough: u64) -> u64 {
        let base = if self.tier == Tier::Quick { quick } else { thorough };
        ((base as f64 * self.scale) as u64).max(1)
    }
    pub fn is_known(&self, sig: &str) -> bool {
        !self.strict && self.known.iter().any(|k| k == sig)
    }
}

#[derive(Debug, Clone)]
pub struct Fail {
    pub sig: String,
    pub msg: String,
}

impl Fail {
    pub fn new(sig: impl Into<String>, msg: impl Into<String>) -> Self {
        Fail { sig: sig.into(), msg: msg.into() }
    }
}

#[macro_export]
macro_rules! ensure {
    ($cond:expr, $sig:expr, $($fmt:tt)+) => {
        if !($cond) {
            return Err($crate::engine::runner::Fail::new($sig, format!($($fmt)+)));
        }
    };
}

/// Per-case context filled in by the case function.
#[derive(Default)]
pub struct Ctx {
    pub nontrivial: bool,
    pub classes: Vec<&'static str>,
    pub fingerprint: Option<u64>,
    pub desc: Option<String>,
    /// set when the case was altered/skipped by an exclusion switch
    pub excluded: Option<&'static str>,
    pub discard: bool,
}

pub fn hash_str(s: &str) -> u64 {
    let mut h = std::collections::hash_map::DefaultHasher::new();
    s.hash(&mut h);
    h.finish()
}

impl Ctx {
    /// Registers the decoded case: its Debug form is the sample text and its hash the identity.
    pub fn case<T: std::fmt::Debug>(&mut self, case: &T) {
        let s = format!("{:?}", case);
        self.fingerprint = Some(hash_str(&s));
        self.desc = Some(s);
    }
    pub fn class(&mut self, c: &'static str) {
        if !self.classes.contains(&c) {
            self.classes.push(c);
        }
    }
    pub fn nontrivial(&mut self, c: &'static str) {
        self.nontrivial = true;
        self.class(c);
    }
}

pub type CaseFn<'a> = dyn Fn(&[u8], &[u8], &mut Ctx) -> Result<(), Fail> + Sync + 'a;

pub struct Lane<'a> {
    pub name: &'static str,
    pub cases: u64,
    pub max_len: usize,
    pub sched_len: usize,
    pub workers: usize,
    pub f: &'a CaseFn<'a>,
}

#[derive(Debug, Clone)]
pub struct Violation {
    pub lane: String,
    pub sig: String,
    pub msg: String,
    pub bytes: Vec<u8>,
    pub sched: Vec<u8>,
    pub decoded: String,
}

#[derive(Default)]
pub struct LaneReport {
    pub name: String,
    pub evaluations: u64,
    pub nontrivial_total: u64,
    pub distinct_nontrivial: HashSet<u64>,
    pub classes: BTreeMap<String, u64>,
    pub samples: Vec<Value>,
    pub known_hits: BTreeMap<String, (u64, Vec<u8>, Vec<u8>, String)>,
    pub excluded: BTreeMap<String, u64>,
    pub discarded: u64,
    pub violations: Vec<Violation>,
    pub wall_s: f64,
    pub exhaustive: bool,
    pub notes: Vec<String>,
    pub inconclusive: Vec<String>,
}

impl LaneReport {
    pub fn named(name: &str) -> Self {
        LaneReport { name: name.to_string(), ..Default::default() }
    }
    pub fn summary(&self) -> Value {
        json!({
            "lane": self.name,
            "evaluations": self.evaluations,
            "nontrivial": self.nontrivial_total,
            "distinct_nontrivial": self.distinct_nontrivial.len(),
            "classes": self.classes,
            "known_finding_hits": self.known_hits.iter().map(|(k, v)| (k.clone(), v.0)).collect::<BTreeMap<_, _>>(),
            "excluded_by_construction": self.excluded,
            "discarded": self.discarded,
            "violations": self.violations.len(),
            "exhaustive": self.exhaustive,
            "wall_s": (self.wall_s * 1000.0).round() / 1000.0,
            "notes": self.notes,
            "inconclusive": self.inconclusive,
        })
    }
    /// Accounts one executed case (for hand-rolled lanes: enumeration, stress).
    pub fn account(&mut self, ctx: Ctx) {
        account(self, ctx, 12);
    }
}

thread_local! {
    pub static QUIET_PANICS: RefCell<bool> = RefCell::new(false);
}

pub fn install_panic_hook() {
    let default = std::panic::take_hook();
    std::panic::set_hook(Box::new(move |info| {
        let quiet = QUIET_PANICS.try_with(|q| *q.borrow()).unwrap_or(false);
        if !quiet {
            default(info);
        }
    }));
}

pub fn panic_message(p: &(dyn std::any::Any + Send)) -> String {
    if let Some(s) = p.downcast_ref::<&str>() {
        s.to_string()
    } else if let Some(s) = p.downcast_ref::<String>() {
        s.clone()
    } else {
        "<non-string panic>".to_string()
    }
}

/// Runs one case, converting panics into failures.
pub fn run_case(f: &CaseFn, bytes: &[u8], sched: &[u8], ctx: &mut Ctx) -> Result<(), Fail> {
    QUIET_PANICS.with(|q| *q.borrow_mut() = true);
    let r = catch_unwind(AssertUnwindSafe(|| f(bytes, sched, ctx)));
    QUIET_PANICS.with(|q| *q.borrow_mut() = false);
    match r {
        Ok(r) => r,
        Err(p) => {
            let m = panic_message(&*p);
            let head: String = m.chars().take(60).collect();
            Err(Fail::new(format!("panic:{}", head), m))
        }
    }
}

fn truncate(s: &str, n: usize) -> String {
    if s.len() <= n {
        s.to_string()
    } else {
        let mut end = n;
        while !s.is_char_boundary(end) {
            end -= 1;
        }
        format!("{}…(+{} bytes)", &s[..end], s.len() - end)
    }
}

fn account(rep: &mut LaneReport, ctx: Ctx, sample_cap: usize) {
    rep.evaluations += 1;
    if ctx.discard {
        rep.discarded += 1;
        return;
    }
    if let Some(e) = ctx.excluded {
        *rep.excluded.entry(e.to_string()).or_insert(0) += 1;
    }
    let mut new_class = false;
    for c in &ctx.classes {
        let e = rep.classes.entry((*c).to_string()).or_insert(0);
        if *e == 0 {
            new_class = true;
        }
        *e += 1;
    }
    if ctx.nontrivial {
        rep.nontrivial_total += 1;
        if rep.distinct_nontrivial.len() < 4_000_000 {
            rep.distinct_nontrivial.insert(ctx.fingerprint.unwrap_or(rep.evaluations));
        }
    }
    if let Some(d) = ctx.desc {
        if rep.samples.len() < sample_cap && (rep.samples.len() < 2 || new_class) {
            rep.samples.push(json!({
                "lane": rep.name,
                "nontrivial": ctx.nontrivial,
                "classes": ctx.classes,
                "case": truncate(&d, 700),
            }));
        }
    }
}

fn seed_bytes(seed: u64, id: &str, lane: &str, worker: usize) -> [u8; 32] {
    let mut out = [0u8; 32];
    let mut x = seed ^ hash_str(id).rotate_left(17) ^ hash_str(lane).rotate_left(31) ^ (worker as u64).wrapping_mul(0x9E3779B97F4A7C15);
    for chunk in out.chunks_mut(8) {
        // splitmix64
        x = x.wrapping_add(0x9E3779B97F4A7C15);
        let mut z = x;
        z = (z ^ (z >> 30)).wrapping_mul(0xBF58476D1CE4E5B9);
        z = (z ^ (z >> 27)).wrapping_mul(0x94D049BB133111EB);
        z ^= z >> 31;
        chunk.copy_from_slice(&z.to_le_bytes());
    }
    out
}

pub fn ncpu() -> usize {
    std::thread::available_parallelism().map(|n| n.get()).unwrap_or(4)
}

/// Runs a lane: `cases` generated cases split over worker threads; the first unlisted failure on a
/// worker is shrunk by proptest and reported.
pub fn run_lane(cfg: &RunCfg, id: &str, lane: &Lane) -> LaneReport {
    let start = Instant::now();
    let forced = std::env::var("VERIF_WORKERS").ok().and_then(|v| v.parse::<usize>().ok());
    let workers = forced.unwrap_or(if lane.workers == 0 { ncpu() } else { lane.workers }).max(1);
    let workers = workers.min(lane.cases.max(1) as usize);
    let per = (lane.cases + workers as u64 - 1) / workers as u64;
    let merged = Mutex::new(LaneReport::named(lane.name));
    std::thread::scope(|s| {
        for w in 0..workers {
            let merged = &merged;
            s.spawn(move || {
                let rep = run_worker(cfg, id, lane, w, per);
                let mut m = merged.lock().unwrap();
                m.evaluations += rep.evaluations;
                m.nontrivial_total += rep.nontrivial_total;
                m.discarded += rep.discarded;
                m.distinct_nontrivial.extend(rep.distinct_nontrivial);
                for (k, v) in rep.classes {
                    *m.classes.entry(k).or_insert(0) += v;
                }
                for (k, v) in rep.excluded {
                    *m.excluded.entry(k).or_insert(0) += v;
                }
                for (k, v) in rep.known_hits {
                    let e = m.known_hits.entry(k).or_insert((0, v.1.clone(), v.2.clone(), v.3.clone()));
                    e.0 += v.0;
                    if v.1.len() + v.2.len() < e.1.len() + e.2.len() {
                        e.1 = v.1;
                        e.2 = v.2;
                        e.3 = v.3;
                    }
                }
                for smp in rep.samples {
                    if m.samples.len() < 10 {
                        m.samples.push(smp);
                    }
                }
                m.violations.extend(rep.violations);
                m.inconclusive.extend(rep.inconclusive);
            });
        }
    });
    let mut rep = merged.into_inner().unwrap();
    rep.wall_s = start.elapsed().as_secs_f64();
    rep
}

fn run_worker(cfg: &RunCfg, id: &str, lane: &Lane, worker: usize, cases: u64) -> LaneReport {
    let rep = RefCell::new(LaneReport::named(lane.name));
    let failed = RefCell::new(false);
    let last_fail: RefCell<Option<(Fail, String)>> = RefCell::new(None);
    let config = Config {
        cases: cases.min(u32::MAX as u64) as u32,
        max_local_rejects: u32::MAX,
        max_global_rejects: u32::MAX,
        max_flat_map_regens: 1_000_000,
        failure_persistence: None,
        source_file: None,
        test_name: None,
        // shrinking is bounded in time as well: where one failing evaluation costs seconds (real sockets, bounded-liveness
        // waits) the default 6000 iterations would run for hours
        max_shrink_time: std::env::var("VERIF_MAX_SHRINK_MS").ok().and_then(|v| v.parse().ok()).unwrap_or(45_000),
        max_shrink_iters: std::env::var("VERIF_MAX_SHRINK").ok().and_then(|v| v.parse().ok()).unwrap_or(6000),
        max_default_size_range: 100,
        verbose: 0,
        rng_algorithm: RngAlgorithm::ChaCha,
        ..Config::default()
    };
    let rng = TestRng::from_seed(RngAlgorithm::ChaCha, &seed_bytes(cfg.seed, id, lane.name, worker));
    let mut runner = TestRunner::new_with_rng(config, rng);
    let strategy = (pvec(any::<u8>(), 0..=lane.max_len), pvec(any::<u8>(), 0..=lane.sched_len));
    let journal = std::env::var("VERIF_JOURNAL").ok();
    let result = runner.run(&strategy, |(bytes, sched)| {
        if let Some(j) = &journal {
            let _ = std::fs::write(j, format!("{}\n{}\n{}\n", lane.name, hex(&bytes), hex(&sched)));
        }
        let mut ctx = Ctx::default();
        let r = run_case(lane.f, &bytes, &sched, &mut ctx);
        let shrinking = *failed.borrow();
        match r {
            Ok(()) => {
                if !shrinking {
                    account(&mut rep.borrow_mut(), ctx, 6);
                }
                Ok(())
            }
            Err(fail) => {
                if cfg.is_known(&fail.sig) {
                    if !shrinking {
                        let mut rp = rep.borrow_mut();
                        let decoded = ctx.desc.clone().unwrap_or_default();
                        let e = rp.known_hits.entry(fail.sig.clone()).or_insert((0, bytes.clone(), sched.clone(), decoded.clone()));
                        e.0 += 1;
                        if bytes.len() + sched.len() < e.1.len() + e.2.len() {
                            e.1 = bytes.clone();
                            e.2 = sched.clone();
                            e.3 = decoded;
                        }
                        rp.evaluations += 1;
                    }
                    Ok(())
                } else {
                    if !shrinking {
                        rep.borrow_mut().evaluations += 1;
                    }
                    *failed.borrow_mut() = true;
                    let decoded = ctx.desc.clone().unwrap_or_default();
                    let msg = format!("{}: {}", fail.sig, fail.msg);
                    *last_fail.borrow_mut() = Some((fail, decoded));
                    Err(TestCaseError::fail(msg))
                }
            }
        }
    });
    let mut rep = rep.into_inner();
    match result {
        Ok(()) => {}
        Err(TestError::Fail(_reason, (bytes, sched))) => {
            // Re-run the minimal case once to get its own signature/message/decoding.
            let mut ctx = Ctx::default();
            let r = run_case(lane.f, &bytes, &sched, &mut ctx);
            let (fail, decoded) = match r {
                Err(f) => (f, ctx.desc.unwrap_or_default()),
                Ok(()) => {
                    // not reproducible on re-run: report as inconclusive, never as violation
                    rep.inconclusive.push(format!(
                        "worker {}: shrunk failure did not reproduce on re-run ({})",
                        worker,
                        last_fail.borrow().as_ref().map(|f| f.0.msg.clone()).unwrap_or_default()
                    ));
                    return rep;
                }
            };
            if cfg.is_known(&fail.sig) {
                let e = rep.known_hits.entry(fail.sig.clone()).or_insert((0, bytes.clone(), sched.clone(), decoded));
                e.0 += 1;
            } else {
                rep.violations.push(Violation { lane: lane.name.to_string(), sig: fail.sig, msg: fail.msg, bytes, sched, decoded });
            }
        }
        Err(TestError::Abort(reason)) => {
            rep.inconclusive.push(format!("worker {}: proptest aborted: {}", worker, reason));
        }
    }
    rep
}

pub fn hex(b: &[u8]) -> String {
    b.iter().map(|x| format!("{:02x}", x)).collect()
}

pub fn unhex(s: &str) -> Vec<u8> {
    (0..s.len() / 2).map(|i| u8::from_str_radix(&s[2 * i..2 * i + 2], 16).unwrap_or(0)).collect()
}
