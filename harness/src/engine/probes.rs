//! Compile probes: programs in safe Rust that the type system must reject for a property to hold for *all* safe
//! programs. They are written into a scratch crate next to the harness's build output and handed to `cargo check`
//! against the tree under test. Rejected by the borrow checker = pass; accepted = the program is run and what it
//! prints is the counterexample; rejected for any other reason = inconclusive.

use std::process::Command;

use super::report::PropRun;
use super::runner::{Ctx, LaneReport, Violation};

pub struct Probe {
    pub name: &'static str,
    pub source: String,
    /// one line saying what the program does (shown in the evidence and in a violation)
    pub what: String,
}

const BORROWCK: [&str; 12] = ["E0597", "E0515", "E0716", "E0521", "E0505", "E0506", "E0499", "E0502", "E0503", "E0759", "E0621", "lifetime may not live long enough"];

pub fn run(pr: &PropRun, lane: &'static str, subdir: &str, class: &'static str, probes: &[Probe]) -> LaneReport {
    let start = std::time::Instant::now();
    let mut rep = LaneReport::named(lane);
    rep.exhaustive = true;
    let repo = std::env::var("VERIF_REPO_ROOT").unwrap_or_else(|_| "/repo".to_string());
    let dir = std::env::current_exe().ok().and_then(|e| e.parent().and_then(|p| p.parent()).map(|p| p.join(subdir))).unwrap_or_else(|| std::path::PathBuf::from(subdir));
    let harness_dir = super::report::verif_root().join("harness");
    let setup = (|| -> std::io::Result<()> {
        std::fs::create_dir_all(dir.join("src/bin"))?;
        std::fs::write(dir.join("Cargo.toml"), format!("[package]\nname = \"verif-{}\"\nversion = \"0.0.0\"\nedition = \"2021\"\npublish = false\n\n[workspace]\n\n[dependencies]\nmetrics = {{ path = \"{}/metrics\" }}\n", subdir, repo))?;
        for f in ["Cargo.lock", "rust-toolchain.toml"] {
            if let Ok(b) = std::fs::read(harness_dir.join(f)) {
                std::fs::write(dir.join(f), b)?;
            }
        }
        for p in probes {
            std::fs::write(dir.join("src/bin").join(format!("{}.rs", p.name)), &p.source)?;
        }
        Ok(())
    })();
    if let Err(e) = setup {
        rep.inconclusive.push(format!("cannot write the probe crate under {:?}: {}", dir, e));
        rep.wall_s = start.elapsed().as_secs_f64();
        return rep;
    }
    for (i, p) in probes.iter().enumerate() {
        let mut ctx = Ctx::default();
        ctx.fingerprint = Some(i as u64);
        ctx.desc = Some(format!("{} — must not compile", p.what));
        ctx.nontrivial(class);
        let out = Command::new("cargo").current_dir(&dir).env("CARGO_NET_OFFLINE", "true").env_remove("RUSTFLAGS").args(["check", "--offline", "--quiet", "--bin", p.name]).output();
        rep.account(ctx);
        match out {
            Err(e) => rep.inconclusive.push(format!("cannot run cargo for probe {}: {}", p.name, e)),
            Ok(o) if !o.status.success() => {
                let err = String::from_utf8_lossy(&o.stderr);
                if !BORROWCK.iter().any(|c| err.contains(c)) {
                    rep.inconclusive.push(format!("probe {} was rejected, but not by the borrow checker: {}", p.name, err.lines().find(|l| l.contains("error")).unwrap_or("").trim()));
                }
            }
            Ok(_) => {
                let ran = Command::new("cargo").current_dir(&dir).env("CARGO_NET_OFFLINE", "true").env_remove("RUSTFLAGS").args(["run", "--offline", "--quiet", "--bin", p.name]).output();
                let shown = ran.map(|r| String::from_utf8_lossy(&r.stdout).lines().last().unwrap_or("").to_string()).unwrap_or_default();
                let sig = "ill-typed-program-accepted".to_string();
                if !pr.cfg.is_known(&sig) {
                    rep.violations.push(Violation { lane: lane.into(), sig, msg: format!("this safe program compiles: {}; running it printed {:?}", p.what, shown), bytes: vec![i as u8], sched: vec![], decoded: format!("probe {}", p.name) });
                    break;
                }
            }
        }
    }
    rep.wall_s = start.elapsed().as_secs_f64();
    rep
}
