//! C11 — the TCP exporter streams whole frames to every connected client, whatever others do.

use std::{
    collections::{HashMap, HashSet},
    io::Read,
    net::{Ipv4Addr, SocketAddr, TcpStream},
    sync::{
        atomic::{AtomicBool, Ordering},
        Arc, Mutex,
    },
    time::{Duration, Instant},
};

use metrics::{Key, Label, Level, Metadata, Recorder, Unit};
use metrics_exporter_tcp::TcpBuilder;

use crate::{
    engine::{
        report::PropRun,
        runner::{run_lane, Ctx, Fail, Lane, LaneReport, RunCfg},
        source::Source,
    },
    ensure,
    parsers::{split_tcp_stream, TcpEvent},
};

const RULE: &str = "a case = one exporter (buffer_size from {None, 1, 2, 16, 1024}) on a real 127.0.0.1 listener, 0-3 descriptions made before any client, 1-4 clients (readers; clients that close or reset (SO_LINGER 0) after a generated phase; a staller with a 1 KiB receive buffer that reads nothing until the end while ~2.5 MB of large frames are emitted) joining at generated phases (in about a quarter of the cases also a burst of 5-14 readers that connect back to back, with 150 extra descriptions to serve), and 2-4 phases of emissions of every operation kind from 1-3 threads, each emission uniquely tagged; emissions are paced (at most min(buffer,8) outstanding, next batch after the designated reader has them). Oracle: every client's bytes split into whole length-delimited Events under a hand-written protobuf reader, metadata before metrics, every metric equal to an emitted one, none twice, per-thread order kept, and every accepted reading client gets every paced emission made after its acceptance. Non-trivial = >= 2 clients with a disconnect or stall while another is reading, or buffer_size None. Distinct = distinct decoded cases. Cases run in child processes (each exporter leaks its transport thread).";

static META: Metadata<'static> = Metadata::new("c11", Level::INFO, None);

#[derive(Debug, Clone, Copy, PartialEq)]
enum Behaviour {
    Reader,
    CloseAfter(usize),
    ResetAfter(usize),
    Staller,
}

#[derive(Debug, Clone)]
struct ClientSpec {
    join_phase: usize,
    behaviour: Behaviour,
    /// member of a burst: all burst clients of a phase connect back to back before any of them is waited for
    burst: bool,
}

#[derive(Debug)]
struct Script {
    buffer: Option<usize>,
    describes: Vec<(char, String, Option<Unit>, String)>,
    clients: Vec<ClientSpec>,
    phases: Vec<Vec<usize>>, // per phase: emissions per emitter thread
    emitters: usize,
    late_describe: bool,
}

fn decode(src: &mut Source) -> Script {
    let buffer = *src.pick(&[Some(1024usize), None, Some(1), Some(2), Some(16), Some(1024)]);
    let describes = src.vec(3, |s| (*s.pick(&['c', 'g', 'h']), format!("desc_{}", s.below(3)), if s.bool() { Some(*s.pick(&[Unit::Bytes, Unit::Seconds])) } else { None }, s.pick(&["d", "", "long description é"]).to_string()));
    let nphases = 2 + src.below(3);
    let emitters = 1 + src.below(3);
    let nclients = 1 + src.below(4);
    let mut clients: Vec<ClientSpec> = (0..nclients)
        .map(|i| {
            let behaviour = if i == 0 {
                Behaviour::Reader
            } else {
                match src.below(6) {
                    0 | 1 => Behaviour::Reader,
                    2 => Behaviour::CloseAfter(src.below(nphases)),
                    3 => Behaviour::ResetAfter(src.below(nphases)),
                    4 => Behaviour::Staller,
                    _ => Behaviour::CloseAfter(0),
                }
            };
            ClientSpec { join_phase: if i == 0 { 0 } else { src.below(nphases) }, behaviour, burst: false }
        })
        .collect();
    // at most one staller (it costs megabytes)
    let mut seen = false;
    for c in clients.iter_mut() {
        if c.behaviour == Behaviour::Staller {
            if seen {
                c.behaviour = Behaviour::Reader;
            }
            seen = true;
        }
    }
    let phases = (0..nphases).map(|_| (0..emitters).map(|_| 1 + src.below(6)).collect()).collect();
    let late_describe = src.bool();
    // a burst of readers connecting back to back (more connections pending than one pass of an accept loop may take)
    let mut describes = describes;
    if src.chance(70) {
        let (n, ph) = (5 + src.below(10), src.below(nphases));
        for _ in 0..n {
            clients.push(ClientSpec { join_phase: ph, behaviour: Behaviour::Reader, burst: true });
        }
        // a good deal of metadata, so that serving one accepted client takes the transport thread a while
        // (descriptions travel through the same bounded queue as metrics: only where the buffer holds them all)
        if buffer.map(|b| b >= 1024).unwrap_or(true) {
            for i in 0..150 {
                describes.push(('c', format!("bulk_desc_{}", i), None, "x".repeat(300)));
            }
        }
    }
    Script { buffer, describes, clients, phases, emitters, late_describe }
}

struct Client {
    spec: ClientSpec,
    sock: Option<TcpStream>,
    buf: Arc<Mutex<Vec<u8>>>,
    stop: Arc<AtomicBool>,
    accepted_at_tag: Option<u64>, // emissions with global index >= this must be delivered while it reads
    open: bool,
    reader: Option<std::thread::JoinHandle<()>>,
}

fn connect(port: u16, tiny_rcvbuf: bool) -> std::io::Result<TcpStream> {
    unsafe {
        let fd = libc::socket(libc::AF_INET, libc::SOCK_STREAM | libc::SOCK_CLOEXEC, 0);
        if fd < 0 {
            return Err(std::io::Error::last_os_error());
        }
        if tiny_rcvbuf {
            let sz: libc::c_int = 1024;
            libc::setsockopt(fd, libc::SOL_SOCKET, libc::SO_RCVBUF, &sz as *const _ as *const libc::c_void, 4);
        }
        let mut da: libc::sockaddr_in = std::mem::zeroed();
        da.sin_family = libc::AF_INET as u16;
        da.sin_port = port.to_be();
        da.sin_addr.s_addr = u32::from(Ipv4Addr::LOCALHOST).to_be();
        if libc::connect(fd, &da as *const _ as *const libc::sockaddr, std::mem::size_of::<libc::sockaddr_in>() as u32) != 0 {
            let e = std::io::Error::last_os_error();
            libc::close(fd);
            return Err(e);
        }
        use std::os::fd::FromRawFd;
        Ok(TcpStream::from_raw_fd(fd))
    }
}

fn spawn_reader(sock: &TcpStream, buf: Arc<Mutex<Vec<u8>>>, stop: Arc<AtomicBool>) -> std::thread::JoinHandle<()> {
    let mut s = sock.try_clone().expect("clone socket");
    s.set_read_timeout(Some(Duration::from_millis(20))).ok();
    std::thread::spawn(move || {
        let mut chunk = vec![0u8; 65536];
        while !stop.load(Ordering::Acquire) {
            match s.read(&mut chunk) {
                Ok(0) => break,
                Ok(n) => buf.lock().unwrap().extend_from_slice(&chunk[..n]),
                Err(e) if e.kind() == std::io::ErrorKind::WouldBlock || e.kind() == std::io::ErrorKind::TimedOut => {}
                Err(_) => break,
            }
        }
    })
}

#[derive(Debug, Clone, PartialEq)]
struct Emitted {
    op: u32,
    value_bits: u64,
    thread: usize,
    seq: u64,
    global: u64,
}

fn tags_received(buf: &Arc<Mutex<Vec<u8>>>) -> Result<(HashSet<String>, usize), String> {
    let b = buf.lock().unwrap().clone();
    let (events, _) = split_tcp_stream(&b)?;
    let mut tags = HashSet::new();
    for e in &events {
        if let TcpEvent::Metric { labels, .. } = e {
            if let Some((_, t)) = labels.iter().find(|(k, _)| k == "t") {
                tags.insert(t.clone());
            }
        }
    }
    Ok((tags, events.len()))
}

fn wait_for(deadline: Duration, mut cond: impl FnMut() -> Result<bool, Fail>) -> Result<bool, Fail> {
    let t0 = Instant::now();
    loop {
        if cond()? {
            return Ok(true);
        }
        if t0.elapsed() > deadline {
            return Ok(false);
        }
        std::thread::sleep(Duration::from_millis(2));
    }
}

fn free_port() -> u16 {
    std::net::TcpListener::bind("127.0.0.1:0").and_then(|l| l.local_addr()).map(|a| a.port()).unwrap_or(0)
}

fn run_script(sc: &Script, ctx: &mut Ctx) -> Result<(), Fail> {
    if sc.buffer.is_none() || (sc.clients.len() >= 2 && sc.clients.iter().any(|c| c.behaviour != Behaviour::Reader)) {
        ctx.nontrivial("disconnect-or-stall-beside-a-reader-or-unbounded-buffer");
    }
    let mut built = None;
    for _ in 0..5 {
        let port = free_port();
        match TcpBuilder::new().listen_address(SocketAddr::from((Ipv4Addr::LOCALHOST, port))).buffer_size(sc.buffer).build() {
            Ok(r) => {
                built = Some((r, port));
                break;
            }
            Err(_) => continue,
        }
    }
    let Some((rec, port)) = built else {
        ctx.discard = true;
        return Ok(());
    };
    let rec = Arc::new(rec);
    let mut described: Vec<(String, u64, Option<String>, Option<String>)> = vec![];
    let mut describe = |rec: &metrics_exporter_tcp::TcpRecorder, d: &(char, String, Option<Unit>, String), described: &mut Vec<(String, u64, Option<String>, Option<String>)>| {
        match d.0 {
            'c' => rec.describe_counter(d.1.clone().into(), d.2, d.3.clone().into()),
            'g' => rec.describe_gauge(d.1.clone().into(), d.2, d.3.clone().into()),
            _ => rec.describe_histogram(d.1.clone().into(), d.2, d.3.clone().into()),
        }
        described.push((d.1.clone(), match d.0 { 'c' => 0, 'g' => 1, _ => 2 }, d.2.map(|u| u.as_str().to_string()), Some(d.3.clone())));
    };
    for d in &sc.describes {
        describe(&rec, d, &mut described);
    }
    let emitted: Mutex<HashMap<String, Emitted>> = Mutex::new(HashMap::new());
    let mut global = 0u64;
    let mut seqs = vec![0u64; sc.emitters + 1]; // last index = the harness's own probe "thread"
    let deadline = Duration::from_secs(12);
    let mut emit = |thread: usize, pad: bool, seqs: &mut Vec<u64>, global: &mut u64| -> String {
        let seq = seqs[thread];
        seqs[thread] += 1;
        let g = *global;
        *global += 1;
        let tag = format!("{}:{}", thread, seq);
        let mut labels = vec![Label::new("t", tag.clone()), Label::new("é", "v")];
        if pad {
            labels.push(Label::new("pad", "x".repeat(16 * 1024)));
        }
        let key = Key::from_parts("m", labels);
        // values cycle through zero, small and large ones for every operation kind
        let small = [0u64, 0, 1, 7, u64::MAX][(g / 6 % 5) as usize];
        let (op, bits) = match g % 6 {
            0 => {
                rec.register_counter(&key, &META).increment(small);
                (4, small)
            }
            1 => {
                rec.register_counter(&key, &META).absolute(small);
                (5, small)
            }
            2 => {
                let v = if g / 6 % 2 == 0 { 0.0 } else { g as f64 + 0.5 };
                rec.register_gauge(&key, &META).increment(v);
                (6, v.to_bits())
            }
            3 => {
                rec.register_gauge(&key, &META).decrement(-0.0);
                (7, (-0.0f64).to_bits())
            }
            4 => {
                rec.register_gauge(&key, &META).set(f64::NAN);
                (8, f64::NAN.to_bits())
            }
            _ => {
                rec.register_histogram(&key, &META).record(f64::INFINITY);
                (9, f64::INFINITY.to_bits())
            }
        };
        emitted.lock().unwrap().insert(tag.clone(), Emitted { op, value_bits: bits, thread, seq, global: g });
        tag
    };
    let mut clients: Vec<Client> = sc.clients.iter().map(|c| Client { spec: c.clone(), sock: None, buf: Arc::new(Mutex::new(vec![])), stop: Arc::new(AtomicBool::new(false)), accepted_at_tag: None, open: false, reader: None }).collect();
    let probe_thread = sc.emitters;
    // descriptions made in phase 1, each confirmed (a probe emitted after it came through) before the next
    let mut late_names: Vec<String> = vec![];
    let mut late_confirmed = true;
    let mut epilogue: Vec<(TcpStream, Arc<AtomicBool>, std::thread::JoinHandle<()>)> = vec![];
    let result = (|| -> Result<(), Fail> {
        for (pi, phase) in sc.phases.iter().enumerate() {
            // joins: the members of a burst all connect first, back to back
            let mut pre: HashMap<usize, TcpStream> = HashMap::new();
            for ci in 0..clients.len() {
                if clients[ci].spec.join_phase == pi && clients[ci].spec.burst {
                    pre.insert(ci, connect(port, false).map_err(|e| Fail::new("exporter-not-accepting", format!("burst client {} could not connect to the exporter (buffer_size {:?}): {}", ci, sc.buffer, e)))?);
                }
            }
            if pre.len() >= 5 {
                ctx.nontrivial("burst-of-five-or-more-connections");
            }
            for ci in 0..clients.len() {
                if clients[ci].spec.join_phase != pi {
                    continue;
                }
                let stall = clients[ci].spec.behaviour == Behaviour::Staller;
                let sock = match pre.remove(&ci) {
                    Some(s) => s,
                    None => connect(port, stall).map_err(|e| Fail::new("exporter-not-accepting", format!("client {} could not connect to the exporter (buffer_size {:?}): {}", ci, sc.buffer, e)))?,
                };
                clients[ci].open = true;
                if !stall {
                    clients[ci].reader = Some(spawn_reader(&sock, clients[ci].buf.clone(), clients[ci].stop.clone()));
                    clients[ci].sock = Some(sock);
                    // acceptance: probe until this client has received some metric frame
                    let buf = clients[ci].buf.clone();
                    let mut probes = 0;
                    let ok = wait_for(deadline, || {
                        let (tags, _) = tags_received(&buf).map_err(|e| Fail::new("stream-not-whole-frames", format!("client {}: {}", ci, e)))?;
                        if !tags.is_empty() {
                            return Ok(true);
                        }
                        if probes < 400 {
                            emit(probe_thread, false, &mut seqs, &mut global);
                            probes += 1;
                        }
                        std::thread::sleep(Duration::from_millis(3));
                        Ok(false)
                    })?;
                    ensure!(ok, "accepted-client-never-served", "client {} connected (buffer_size {:?}) and {} probe metrics were emitted over {:?}, but it received no metric frame", ci, sc.buffer, probes, deadline);
                    clients[ci].accepted_at_tag = Some(global);
                } else {
                    clients[ci].sock = Some(sock);
                }
            }
            for li in 0..(if pi == 1 && sc.late_describe { 1 + (sc.describes.len() + sc.clients.len()) % 5 } else { 0 }) {
                late_names.push(format!("late_desc{}", li));
                describe(&rec, &('g', format!("late_desc{}", li), Some(Unit::Count), "late".to_string()), &mut described);
                // the description shares the bounded queue with metrics: wait until a probe emitted after it
                // has come through, so that the paced emissions below stay within the configured buffer
                if let Some(r) = clients.iter().position(|c| c.open && c.accepted_at_tag.is_some() && c.spec.behaviour == Behaviour::Reader) {
                    let buf = clients[r].buf.clone();
                    let mut fresh: Vec<String> = vec![];
                    let confirmed = wait_for(deadline, || {
                        let (got, _) = tags_received(&buf).map_err(|e| Fail::new("stream-not-whole-frames", format!("client {}: {}", r, e)))?;
                        if fresh.iter().any(|t| got.contains(t)) {
                            return Ok(true);
                        }
                        if fresh.len() < 400 {
                            fresh.push(emit(probe_thread, false, &mut seqs, &mut global));
                        }
                        std::thread::sleep(Duration::from_millis(3));
                        Ok(false)
                    })?;
                    late_confirmed &= confirmed;
                } else {
                    late_confirmed = false;
                }
            }
            // paced emissions of this phase
            let stalling = clients.iter().any(|c| c.open && c.spec.behaviour == Behaviour::Staller);
            let pace = sc.buffer.unwrap_or(8).min(8).max(1);
            let mut todo: Vec<(usize, usize)> = phase.iter().enumerate().flat_map(|(t, n)| (0..*n).map(move |_| (t, 0))).collect();
            if stalling && pi + 1 == sc.phases.len() {
                // enough large frames to fill the staller's socket buffers
                todo.extend((0..170).map(|i| (i % sc.emitters, 1)));
            }
            let reader = clients.iter().position(|c| c.open && c.accepted_at_tag.is_some() && c.spec.behaviour == Behaviour::Reader);
            for batch in todo.chunks(pace) {
                let tags: Vec<String> = if sc.emitters > 1 && batch.len() > 1 {
                    // emit from real threads concurrently
                    let batch_tags: Mutex<Vec<String>> = Mutex::new(vec![]);
                    let shared = Mutex::new((&mut emit, &mut seqs, &mut global));
                    std::thread::scope(|s| {
                        for (t, pad) in batch {
                            let (shared, batch_tags) = (&shared, &batch_tags);
                            s.spawn(move || {
                                let mut g = shared.lock().unwrap();
                                let (emit, seqs, global) = &mut *g;
                                let tag = emit(*t, *pad == 1, seqs, global);
                                batch_tags.lock().unwrap().push(tag);
                            });
                        }
                    });
                    batch_tags.into_inner().unwrap()
                } else {
                    batch.iter().map(|(t, pad)| emit(*t, *pad == 1, &mut seqs, &mut global)).collect()
                };
                if let Some(r) = reader {
                    let buf = clients[r].buf.clone();
                    let ok = wait_for(deadline, || {
                        let (got, _) = tags_received(&buf).map_err(|e| Fail::new("stream-not-whole-frames", format!("client {}: {}", r, e)))?;
                        Ok(tags.iter().all(|t| got.contains(t)))
                    })?;
                    if !ok {
                        let (got, n) = tags_received(&buf).unwrap_or_default();
                        return Err(Fail::new(
                            "paced-emission-not-delivered",
                            format!("reading client {} did not receive {:?} within {:?} (phase {}, buffer_size {:?}, clients {:?}); it holds {} events, {} tags", r, tags.iter().filter(|t| !got.contains(*t)).collect::<Vec<_>>(), deadline, pi, sc.buffer, sc.clients, n, got.len()),
                        ));
                    }
                }
            }
            // departures after this phase
            for c in clients.iter_mut() {
                match c.spec.behaviour {
                    Behaviour::CloseAfter(p) if p == pi && c.open => {
                        c.stop.store(true, Ordering::Release);
                        c.sock = None;
                        c.open = false;
                    }
                    Behaviour::ResetAfter(p) if p == pi && c.open => {
                        if let Some(s) = &c.sock {
                            unsafe {
                                use std::os::fd::AsRawFd;
                                let l = libc::linger { l_onoff: 1, l_linger: 0 };
                                libc::setsockopt(s.as_raw_fd(), libc::SOL_SOCKET, libc::SO_LINGER, &l as *const _ as *const libc::c_void, std::mem::size_of::<libc::linger>() as u32);
                            }
                        }
                        c.stop.store(true, Ordering::Release);
                        c.sock = None;
                        c.open = false;
                    }
                    _ => {}
                }
            }
        }
        // epilogue (scripts with late descriptions and no stalled client): a reader connects, then a name it was sent
        // is described AGAIN with another unit and text, then a second reader connects: "first the metadata known when
        // it connected" is the latest description by then, not the one an earlier client was sent
        if sc.late_describe && !late_names.is_empty() && !sc.clients.iter().any(|c| c.behaviour == Behaviour::Staller) {
            let mut extra_bufs: Vec<Arc<Mutex<Vec<u8>>>> = vec![];
            let mut served = true;
            for round in 0..2 {
                let sock = connect(port, false).map_err(|e| Fail::new("exporter-not-accepting", format!("epilogue reader {} could not connect (buffer_size {:?}): {}", round, sc.buffer, e)))?;
                if round == 0 {
                    // this reader has nothing to say: it shuts down its sending direction and keeps reading — it is still
                    // a connected client that is reading
                    let _ = sock.shutdown(std::net::Shutdown::Write);
                    ctx.class("reader-with-its-sending-direction-shut-down");
                }
                let buf: Arc<Mutex<Vec<u8>>> = Default::default();
                let stop = Arc::new(AtomicBool::new(false));
                let handle = spawn_reader(&sock, buf.clone(), stop.clone());
                epilogue.push((sock, stop, handle));
                let mut probes = 0;
                let b2 = buf.clone();
                served &= wait_for(deadline, || {
                    let (tags, _) = tags_received(&b2).map_err(|e| Fail::new("stream-not-whole-frames", format!("epilogue reader {}: {}", round, e)))?;
                    if !tags.is_empty() {
                        return Ok(true);
                    }
                    if probes < 400 {
                        emit(probe_thread, false, &mut seqs, &mut global);
                        probes += 1;
                    }
                    std::thread::sleep(Duration::from_millis(3));
                    Ok(false)
                })?;
                extra_bufs.push(buf);
                ensure!(served, "accepted-client-never-served", "epilogue reader {} ({}) connected (buffer_size {:?}) and probe metrics were emitted for {:?}, but it received no metric frame", round, if round == 0 { "which shut down its sending direction and keeps reading" } else { "a plain reader" }, sc.buffer, deadline);
                if round == 0 && served {
                    describe(&rec, &('g', late_names[0].clone(), Some(Unit::Bytes), "described again".to_string()), &mut described);
                    // confirmed once a probe emitted after it has reached the first epilogue reader
                    let b0 = extra_bufs[0].clone();
                    let mut fresh: Vec<String> = vec![];
                    served &= wait_for(deadline, || {
                        let (got, _) = tags_received(&b0).map_err(|e| Fail::new("stream-not-whole-frames", format!("epilogue reader 0: {}", e)))?;
                        if fresh.iter().any(|t| got.contains(t)) {
                            return Ok(true);
                        }
                        if fresh.len() < 400 {
                            fresh.push(emit(probe_thread, false, &mut seqs, &mut global));
                        }
                        std::thread::sleep(Duration::from_millis(3));
                        Ok(false)
                    })?;
                }
            }
            if served {
                ctx.nontrivial("client-connects-after-a-name-was-described-again");
                let bytes = extra_bufs[1].lock().unwrap().clone();
                let (events, _) = split_tcp_stream(&bytes).map_err(|e| Fail::new("stream-not-whole-frames", format!("epilogue reader 1: {}", e)))?;
                let got = events.iter().find_map(|e| match e {
                    TcpEvent::Metadata { name, unit, description, .. } if *name == late_names[0] => Some((unit.clone(), description.clone())),
                    _ => None,
                });
                let want = (Some(Unit::Bytes.as_str().to_string()), Some("described again".to_string()));
                ensure!(got.as_ref() == Some(&want), "metadata-not-the-latest-description", "{:?} was described (unit count, \"late\"), a client connected, it was described again (unit bytes, \"described again\") and that was confirmed by a probe; a client connecting afterwards received {:?} for it (buffer_size {:?})", late_names[0], got, sc.buffer);
            }
        }
        // the staller now reads everything that was kept for it
        for c in clients.iter_mut() {
            if c.spec.behaviour == Behaviour::Staller && c.open {
                if let Some(s) = &c.sock {
                    // from now on an ordinary receive buffer: with the 1 KiB one the peer can only make progress
                    // through zero-window probes (hundreds of milliseconds apart), which no quiescence rule survives
                    unsafe {
                        use std::os::fd::AsRawFd;
                        let sz: libc::c_int = 4 << 20;
                        libc::setsockopt(s.as_raw_fd(), libc::SOL_SOCKET, libc::SO_RCVBUF, &sz as *const _ as *const libc::c_void, 4);
                    }
                    c.reader = Some(spawn_reader(s, c.buf.clone(), c.stop.clone()));
                }
                let buf = c.buf.clone();
                let mut last = (0usize, Instant::now());
                // quiescent = something arrived, the bytes so far end on a frame boundary and nothing has arrived for
                // 1 s; or nothing at all has arrived for 4 s (then a torn tail is the exporter's doing)
                let settled = wait_for(Duration::from_secs(30), || {
                    let b = buf.lock().unwrap();
                    let n = b.len();
                    if n != last.0 {
                        last = (n, Instant::now());
                    }
                    let idle = last.1.elapsed();
                    let whole = idle > Duration::from_millis(1000) && split_tcp_stream(&b).map(|(_, l)| l == 0).unwrap_or(true);
                    Ok(n > 0 && (whole || idle > Duration::from_secs(4)))
                })?;
                if !settled {
                    ctx.discard = true; // still trickling after 30 s: inconclusive, not a verdict
                    return Ok(());
                }
            }
        }
        // every accepted reader that is still open must have every paced emission since its acceptance
        let em = emitted.lock().unwrap().clone();
        for (ci, c) in clients.iter().enumerate() {
            if c.spec.behaviour == Behaviour::Reader && c.open {
                if let Some(from) = c.accepted_at_tag {
                    let buf = c.buf.clone();
                    let need: Vec<&String> = em.iter().filter(|(_, e)| e.global >= from && e.thread != probe_thread).map(|(t, _)| t).collect();
                    let ok = wait_for(deadline, || {
                        let (got, _) = tags_received(&buf).map_err(|e| Fail::new("stream-not-whole-frames", format!("client {}: {}", ci, e)))?;
                        Ok(need.iter().all(|t| got.contains(*t)))
                    })?;
                    if !ok {
                        let (got, _) = tags_received(&buf).unwrap_or_default();
                        let missing: Vec<&&String> = need.iter().filter(|t| !got.contains(**t)).take(5).collect();
                        return Err(Fail::new("paced-emission-not-delivered", format!("reading client {} (accepted before emission #{}) is missing {:?} of {} paced emissions (buffer_size {:?}, clients {:?})", ci, from, missing, need.len(), sc.buffer, sc.clients)));
                    }
                }
            }
        }
        // stream well-formedness and content for every client
        for (ci, c) in clients.iter().enumerate() {
            let bytes = c.buf.lock().unwrap().clone();
            let (events, leftover) = split_tcp_stream(&bytes).map_err(|e| Fail::new("stream-not-whole-frames", format!("client {} ({:?}): {}", ci, c.spec.behaviour, e)))?;
            if c.open && leftover != 0 && std::env::var("VERIF_C11_DEBUG").is_ok() {
                let n0 = bytes.len();
                std::thread::sleep(Duration::from_secs(3));
                let n1 = c.buf.lock().unwrap().len();
                eprintln!("C11 debug: client {} had {} bytes ({} events, leftover {}), 3 s later {} bytes", ci, n0, events.len(), leftover, n1);
            }
            if c.open {
                ensure!(leftover == 0, "stream-ends-inside-a-frame", "client {} ({:?}) is still connected and quiescent but its stream ends with {} bytes that are not a whole frame", ci, c.spec.behaviour, leftover);
            }
            let mut seen_metric = false;
            let mut seen_tags: HashSet<String> = HashSet::new();
            let mut seen_meta: HashSet<String> = HashSet::new();
            let mut last_seq: HashMap<usize, u64> = HashMap::new();
            for e in &events {
                match e {
                    TcpEvent::Metadata { name, metric_type, unit, description } => {
                        ensure!(!seen_metric, "metadata-after-metrics", "client {} received metadata for {:?} after metric frames", ci, name);
                        ensure!(seen_meta.insert(name.clone()), "metadata-duplicated", "client {} received metadata for {:?} twice", ci, name);
                        ensure!(described.iter().any(|d| d.0 == *name && d.1 == *metric_type && d.2 == *unit && d.3 == *description) || described.iter().any(|d| d.0 == *name && d.2 == *unit && d.3 == *description), "metadata-not-as-described", "client {} received metadata {:?} which matches no description made", ci, e);
                    }
                    TcpEvent::Metric { name, labels, op, value_bits, has_timestamp } => {
                        seen_metric = true;
                        ensure!(name == "m" && *has_timestamp, "metric-frame-wrong", "client {}: metric {:?} timestamp {}", ci, name, has_timestamp);
                        let tag = labels.iter().find(|(k, _)| k == "t").map(|(_, v)| v.clone()).unwrap_or_default();
                        let Some(want) = em.get(&tag) else { return Err(Fail::new("metric-never-emitted", format!("client {} received a metric tagged {:?} that was never emitted", ci, tag))) };
                        ensure!(seen_tags.insert(tag.clone()), "metric-duplicated", "client {} received emission {:?} twice", ci, tag);
                        let same_value = *value_bits == want.value_bits || (f64::from_bits(*value_bits).is_nan() && f64::from_bits(want.value_bits).is_nan() && *op >= 6);
                        ensure!(*op == want.op && same_value, "metric-operation-changed", "client {}: emission {:?} arrived as op {} value {:#x}, emitted as op {} value {:#x}", ci, tag, op, value_bits, want.op, want.value_bits);
                        ensure!(labels.iter().any(|(k, v)| k == "é" && v == "v"), "metric-labels-changed", "client {}: labels {:?}", ci, labels.iter().map(|l| &l.0).collect::<Vec<_>>());
                        let prev = last_seq.insert(want.thread, want.seq);
                        ensure!(prev.map(|p| p < want.seq).unwrap_or(true), "per-thread-order-violated", "client {}: emission {:?} arrived after a later one of the same thread", ci, tag);
                        // without a buffer limit nothing is ever discarded for a client, however slow it is: once it has
                        // received one emission of a thread, it receives that thread's following emissions without a gap
                        if sc.buffer.is_none() {
                            if let Some(p) = prev {
                                ensure!(want.seq == p + 1, "emission-skipped-without-a-buffer-limit", "client {} ({:?}, buffer_size None): after emission #{} of emitting thread {} it received #{} ({:?}) — {} emission(s) in between were dropped although no limit is configured", ci, c.spec.behaviour, p, want.thread, want.seq, tag, want.seq - p - 1);
                                if c.spec.behaviour == Behaviour::Staller {
                                    ctx.class("stalled-client-without-limit-received-a-gapless-run");
                                }
                            }
                        }
                    }
                }
            }
            // descriptions confirmed one by one in phase 1 are known to the exporter whatever the buffer size: a client that
            // connected in a later phase gets every one of them ("first the metadata known when it connected")
            if late_confirmed && c.spec.join_phase >= 2 && c.spec.behaviour != Behaviour::Staller && !late_names.is_empty() {
                for n in &late_names {
                    ensure!(seen_meta.contains(n), "metadata-missing", "client {} connected in phase {} (buffer_size {:?}), after {} descriptions had been made and confirmed one by one in phase 1, but received no metadata for {:?} (it got {:?})", ci, c.spec.join_phase, sc.buffer, late_names.len(), n, seen_meta);
                }
                if sc.buffer.map(|b| b < late_names.len()).unwrap_or(false) {
                    ctx.class("more-metadata-than-buffer-slots-at-connect");
                }
            }
            // (descriptions travel through the same bounded queue as metrics and are not paced here, so
            // completeness is only asserted when the buffer comfortably holds them)
            if ci > 0 && c.spec.behaviour != Behaviour::Staller && sc.buffer.map(|b| b >= 16).unwrap_or(true) {
                // descriptions made before the phase-0 reader confirmed its first probe are known to every later client
                for d in sc.describes.iter() {
                    if c.spec.join_phase >= 1 || ci > 0 {
                        ensure!(seen_meta.contains(&d.1), "metadata-missing", "client {} connected after {:?} had been described (and after metrics emitted later had been delivered) but received no metadata for it", ci, d.1);
                    }
                }
            }
        }
        Ok(())
    })();
    for c in clients.iter_mut() {
        c.stop.store(true, Ordering::Release);
        c.sock = None;
        if let Some(h) = c.reader.take() {
            let _ = h.join();
        }
    }
    for (sock, stop, handle) in epilogue.drain(..) {
        stop.store(true, Ordering::Release);
        drop(sock);
        let _ = handle.join();
    }
    result
}

pub fn case_script(bytes: &[u8], _s: &[u8], ctx: &mut Ctx) -> Result<(), Fail> {
    let mut src = Source::new(bytes);
    let sc = decode(&mut src);
    ctx.case(&sc);
    run_script(&sc, ctx)
}

/// Child process: a handful of scripts (each built exporter leaks its transport thread and fds).
pub fn child(seed: u64) -> i32 {
    // real-time cases: keep shrinking short
    std::env::set_var("VERIF_MAX_SHRINK", "12");
    let cfg = RunCfg { tier: crate::engine::runner::Tier::Quick, seed, scale: 1.0, strict: true, known: vec![] };
    let rep = run_lane(&cfg, "C11", &Lane { name: "client-scripts", cases: 6, max_len: 64, sched_len: 0, workers: 1, f: &case_script });
    if let Some(v) = rep.violations.first() {
        println!("CHILD-FAIL {} {} ; case {}", v.sig, v.msg.replace('\n', " "), v.decoded.replace('\n', " "));
        return 1;
    }
    if !rep.inconclusive.is_empty() {
        println!("harness: inconclusive: {:?}", rep.inconclusive);
        return 2;
    }
    println!("CHILD-OK {} scripts, classes {:?}", rep.evaluations, rep.classes);
    0
}

fn lane(pr: &PropRun) -> LaneReport {
    let mut rep = crate::engine::child::run_children(pr, "C11", "client-scripts", pr.cfg.cases(40, 1500), |_| "6 generated client scripts against fresh exporters".to_string());
    rep.notes.push("each child process runs 6 generated scripts".into());
    rep
}

pub fn run(cfg: &RunCfg, replay: Option<&str>) -> i32 {
    let mut pr = PropRun::new("C11", cfg, RULE);
    pr.register("script", &case_script);
    let child_replay = |b: &[u8], _s: &[u8], ctx: &mut Ctx| -> Result<(), Fail> {
        ctx.case(&("child process", b));
        crate::engine::child::replay_child("C11", b)
    };
    pr.register("client-scripts", &child_replay);
    if let Some(f) = replay {
        return pr.replay(f);
    }
    pr.assume("delivery is a bounded-liveness oracle: 6 s per wait; 'accepted' is observed by probing (a client counts as accepted once it has received any metric frame), and only emissions made after that point are required to reach it");
    pr.assume("emissions are paced to at most min(buffer_size, 8) outstanding, so no discard of older messages is expected for reading clients; the stalled client may lose whole older messages but never part of one");
    pr.assume("free-running threads and real sockets: a failing case is replayed by re-running the child process seed, not deterministically");
    let r = pr.run_regressions();
    pr.push(r);
    let r = lane(&pr);
    pr.push(r);
    pr.finish()
}
