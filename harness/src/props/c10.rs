//! C10 — DogStatsD aggregation conserves counts across flushes under any interleaving.

use std::{collections::HashMap, sync::Mutex};

use metrics::{Key, Label, Level, Metadata, Recorder};
use metrics_exporter_dogstatsd::{AggregationMode, __verif::Driver};

use crate::{
    engine::{
        report::PropRun,
        runner::{run_lane, Ctx, Fail, Lane, RunCfg},
        sched::{self, SchedOpts},
        source::Source,
    },
    ensure,
    parsers::{parse_dsd_message, split_length_prefixed, DsdMessage},
    util::f64_same,
};

const RULE: &str = "schedule lane: 1-3 updater threads (each key is increment-only, or strictly-increasing-absolute-only with one updater, or a gauge with one updater, or a histogram) plus one flusher doing 2-5 flushes through the driver hook, interleaved by a generated schedule over the aggregated-storage, bucket and registry hook sites, then a final quiescent flush; non-trivial = an update step lies strictly between two atomic steps of a flush. Sequential lane: one thread issues 2-30 steps of inc/abs/set/record/flush over 1-4 keys and a reference model predicts every message of every flush (idle rule, timestamps, prefix/labels, histogram vs distribution, sampling identities); non-trivial = a counter goes idle and later changes again, or a flush follows a flush with no update between. Socket lane: a built exporter sends to harness-owned unix stream / unixgram / UDP sockets; non-trivial = every case. Distinct = distinct decoded (case, schedule).";

static META: Metadata<'static> = Metadata::new("c10", Level::INFO, None);

#[derive(Debug, Clone)]
struct Config {
    aggressive: bool,
    prefix: Option<String>,
    globals: Vec<(String, String)>,
    distributions: bool,
    sampling: bool,
    reservoir: usize,
    max_len: usize,
    length_prefix: bool,
}

fn dec_config(src: &mut Source, allow_sampling: bool) -> Config {
    let mut c = Config {
        aggressive: src.bool(),
        prefix: if src.bool() { Some(src.pick(&["app", "p.q", "x"]).to_string()) } else { None },
        globals: src.vec(2, |s| (s.pick(&["env", "dc", "host"]).to_string(), s.pick(&["", "prod", "a1"]).to_string())),
        distributions: src.bool(),
        sampling: allow_sampling && src.chance(64),
        reservoir: *src.pick(&[1usize, 2, 3, 5, 16, 100]),
        max_len: *src.pick(&[8192usize, 1432, 120, 64, 100]),
        length_prefix: src.bool(),
    };
    if c.sampling {
        // keep payload-size effects (a sample-rate section makes messages longer) out of the sampling identities
        c.max_len = 8192;
    }
    c
}

fn mk_driver(c: &Config) -> Driver {
    Driver::new(
        if c.aggressive { AggregationMode::Aggressive } else { AggregationMode::Conservative },
        c.sampling,
        c.reservoir,
        c.distributions,
        c.globals.iter().map(|(k, v)| Label::new(k.clone(), v.clone())).collect(),
        c.prefix.clone(),
        c.max_len,
        c.length_prefix,
    )
}

fn parse_flush(c: &Config, payloads: &[Vec<u8>]) -> Result<Vec<DsdMessage>, Fail> {
    let mut out = vec![];
    for p in payloads {
        let body: &[u8] = if c.length_prefix { split_length_prefixed(p).map_err(|e| Fail::new("bad-length-prefix", e))? } else { p };
        ensure!(body.len() <= c.max_len, "payload-exceeds-maximum", "{} > {}", body.len(), c.max_len);
        out.push(parse_dsd_message(body).map_err(|e| Fail::new("payload-not-one-message", e))?);
    }
    Ok(out)
}

fn full_name(c: &Config, name: &str) -> String {
    match &c.prefix {
        Some(p) => format!("{}.{}", p, name),
        None => name.to_string(),
    }
}

fn expected_tags(c: &Config, own: &[(String, String)]) -> Option<Vec<(String, Option<String>)>> {
    let all: Vec<_> = c.globals.iter().chain(own.iter()).collect();
    if all.is_empty() {
        None
    } else {
        Some(all.iter().map(|(k, v)| (k.clone(), if v.is_empty() { None } else { Some(v.clone()) })).collect())
    }
}

/// Messages of one flush for metric `name`.
fn of<'a>(c: &Config, msgs: &'a [DsdMessage], name: &str) -> Vec<&'a DsdMessage> {
    let f = full_name(c, name);
    msgs.iter().filter(|m| m.name == f).collect()
}

fn check_common(c: &Config, m: &DsdMessage, own: &[(String, String)], mtype: &str) -> Result<(), Fail> {
    ensure!(m.mtype == mtype, "wrong-type", "message {:?} has type {} expected {}", m.name, m.mtype, mtype);
    ensure!(m.tags == expected_tags(c, own), "wrong-tags", "message {:?} tags {:?} expected {:?}", m.name, m.tags, expected_tags(c, own));
    if mtype == "c" || mtype == "g" {
        // documented: Aggressive sends a timestamp, Conservative does not
        ensure!(m.timestamp.is_some() == c.aggressive, "timestamp-mode-mismatch", "aggregation mode {} is documented to send {} timestamp, message {:?} has {:?}", if c.aggressive { "Aggressive" } else { "Conservative" }, if c.aggressive { "a" } else { "no" }, m.name, m.timestamp);
    } else {
        ensure!(m.timestamp.is_none(), "timestamp-on-histogram", "histogram/distribution message carries a timestamp");
    }
    Ok(())
}

/// Would a message holding exactly these value texts fit the configured payload limit?
fn fits(c: &Config, name: &str, own: &[(String, String)], values: &[String], with_ts: bool) -> bool {
    let tags: Vec<(String, String)> = c.globals.iter().chain(own.iter()).cloned().collect();
    // a unix timestamp in seconds has 10 digits for the next two centuries
    let ts = if with_ts { Some(1_000_000_000u64) } else { None };
    super::c09::reference_len(name, &c.prefix, values, None, &tags, ts) <= c.max_len
}

// ---------------------------------------------------------------- sequential lane (exact model)

#[derive(Debug, Clone)]
enum SStep {
    Inc(usize, u64),
    Abs(usize, u64),
    GaugeSet(usize, f64),
    GaugeInc(usize, f64),
    Record(usize, f64),
    RecordMany(usize, f64, usize),
    /// mixed-use key `cm`: increment
    MixInc(u64),
    /// mixed-use key `cm`: absolute; selector for the first value of a run (below / equal to / above the total so far) and a step
    MixAbs(u8, u64),
    Flush,
}

#[derive(Debug)]
struct SeqCase {
    cfg: Config,
    steps: Vec<SStep>,
}

fn decode_seq(src: &mut Source) -> SeqCase {
    let cfg = dec_config(src, true);
    let n = 2 + src.below(29);
    let steps = (0..n)
        .map(|_| match src.below(8) {
            0 | 1 => {
                if src.chance(40) {
                    SStep::MixInc(1 + src.int_in(0, 1000))
                } else {
                    // the top of the range stands for increments near 2^64 and 2^63: the running total of a counter
                    // wraps, and the deltas are then exact modulo 2^64 (same bytes consumed as before)
                    let d = src.int_in(0, 1000);
                    let v = if d >= 985 { [u64::MAX, u64::MAX - 10, u64::MAX - 1000, 1 << 63, (1 << 63) + 5, u64::MAX / 2, u64::MAX / 3, 1 << 62][(d - 985) as usize % 8] } else { 1 + d };
                    SStep::Inc(src.below(2), v)
                }
            }
            2 => {
                if src.chance(100) {
                    SStep::MixAbs(src.below(3) as u8, src.int_in(0, 50))
                } else {
                    SStep::Abs(src.below(2), src.int_in(1, 50)) // increment over the previous absolute value
                }
            }
            3 => SStep::GaugeSet(src.below(2), src.f64_interesting()),
            4 => SStep::GaugeInc(src.below(2), src.f64_dyadic()),
            5 => SStep::Record(src.below(2), if src.bool() { src.f64_dyadic() } else { src.f64_interesting() }),
            6 if src.bool() => SStep::RecordMany(src.below(2), *src.pick(&[1.5f64, 2.25, 10.0, 0.0, 123456.5]), 1 + src.below(90)),
            _ => SStep::Flush,
        })
        .collect();
    SeqCase { cfg, steps }
}

#[derive(Default)]
struct CounterModel {
    registered: bool,
    pending: u64,
    updates: u64,
    idle: bool,
    abs_last: Option<u64>,
    went_idle_then_changed: bool,
    total: u128,
    total_at_flush: u128,
}

pub fn case_seq(bytes: &[u8], _s: &[u8], ctx: &mut Ctx) -> Result<(), Fail> {
    let mut src = Source::new(bytes);
    let mut case = decode_seq(&mut src);
    // a quarter of the cases give the two increment-only counters ONE name and different label sets (siblings): what
    // is kept per counter (delta base, idle state) must be kept per key, not per name (drawn last)
    let siblings = src.below(4) == 3;
    let generated = case.steps.len();
    case.steps.push(SStep::Flush);
    case.steps.push(SStep::Flush);
    case.steps.push(SStep::Flush);
    ctx.case(&(&case, siblings));
    if siblings {
        ctx.class("two-counters-share-a-name");
    }
    let c = &case.cfg;
    let mut driver = mk_driver(c);
    let rec = driver.recorder();
    let own = vec![("k".to_string(), "v".to_string())];
    let key = |name: &str| Key::from_parts(name.to_string(), vec![Label::new("k", "v")]);
    // wire identity of counter (kind, i): name and own labels
    let ident = |kind: &str, i: usize| -> (String, Vec<(String, String)>) {
        if siblings && kind == "ci" {
            let mut l = own.clone();
            if i == 1 {
                l.push(("s".to_string(), "1".to_string()));
            }
            ("ci0".to_string(), l)
        } else {
            (format!("{}{}", kind, i), own.clone())
        }
    };
    // models
    let mut inc: [CounterModel; 2] = Default::default();
    let mut abs: [CounterModel; 2] = Default::default();
    let mut gauges: [Option<f64>; 2] = [None, None];
    let mut hists: [Option<Vec<f64>>; 2] = [None, None];
    let mut prev_was_flush = false;
    // mixed-use counter `cm`: only an upper bound is asserted (see the assumption registered in run())
    let (mut mix_total, mut mix_run_last, mut mix_generous, mut mix_sent, mut mix_registered) = (0u64, None::<u64>, 0u128, 0u128, false);
    for (si, step) in case.steps.iter().enumerate() {
        match step {
            SStep::MixInc(d) => {
                rec.register_counter(&key("cm"), &META).increment(*d);
                mix_registered = true;
                mix_generous += *d as u128;
                mix_total += *d;
                mix_run_last = None;
            }
            SStep::MixAbs(sel, d) => {
                let v = match (mix_run_last, sel) {
                    (Some(l), _) => l + d,
                    (None, 0) => mix_total / 2,
                    (None, 1) => mix_total,
                    (None, _) => mix_total + d,
                };
                rec.register_counter(&key("cm"), &META).absolute(v);
                mix_registered = true;
                // reading A (this exporter's documentation): the first absolute value of a run is a baseline, later
                // ones add their growth; reading B (metrics' own atomic counter): absolute raises the total to v
                let adds_a = mix_run_last.map(|l| v - l).unwrap_or(0);
                let adds_b = v.saturating_sub(mix_total);
                mix_generous += adds_a.max(adds_b) as u128;
                if mix_run_last.is_none() && v < mix_total {
                    ctx.nontrivial("mixed-counter-first-absolute-below-its-total");
                }
                mix_total = mix_total.max(v);
                mix_run_last = Some(v);
            }
            SStep::Inc(i, v) => {
                let (n, l) = ident("ci", *i);
                rec.register_counter(&Key::from_parts(n, l.iter().map(|(a, b)| Label::new(a.clone(), b.clone())).collect::<Vec<_>>()), &META).increment(*v);
                let m = &mut inc[*i];
                m.registered = true;
                m.pending = m.pending.wrapping_add(*v);
                m.total += *v as u128;
                m.updates += 1;
            }
            SStep::Abs(i, d) => {
                let m = &mut abs[*i];
                let v = m.abs_last.map(|l| l + d).unwrap_or(100 + d);
                rec.register_counter(&key(&format!("ca{}", i)), &META).absolute(v);
                if m.abs_last.is_some() {
                    m.pending += d;
                }
                m.abs_last = Some(v);
                m.registered = true;
                m.updates += 1;
            }
            SStep::GaugeSet(i, v) => {
                rec.register_gauge(&key(&format!("g{}", i)), &META).set(*v);
                gauges[*i] = Some(*v);
            }
            SStep::GaugeInc(i, v) => {
                rec.register_gauge(&key(&format!("g{}", i)), &META).increment(*v);
                gauges[*i] = Some(gauges[*i].unwrap_or(0.0) + *v);
            }
            SStep::Record(i, v) => {
                rec.register_histogram(&key(&format!("h{}", i)), &META).record(*v);
                hists[*i].get_or_insert_with(Vec::new).push(*v);
            }
            SStep::RecordMany(i, v, n) => {
                // enough values for one flush to split them over several payloads
                rec.register_histogram(&key(&format!("h{}", i)), &META).record_many(*v, *n);
                for _ in 0..*n {
                    hists[*i].get_or_insert_with(Vec::new).push(*v);
                }
                ctx.class("histogram-batch");
            }
            SStep::Flush => {
                if prev_was_flush && si < generated {
                    ctx.nontrivial("flush-after-flush-without-update");
                }
                let msgs = parse_flush(c, &driver.flush())?;
                let mut accounted = 0usize;
                for (kind, models) in [("ci", &mut inc), ("ca", &mut abs)] {
                    for (i, m) in models.iter_mut().enumerate() {
                        let (name, own) = ident(kind, i);
                        let want_tags = expected_tags(c, &own);
                        let got: Vec<&DsdMessage> = of(c, &msgs, &name).into_iter().filter(|m| !siblings || kind != "ci" || m.tags == want_tags).collect();
                        accounted += got.len();
                        if !m.registered {
                            ensure!(got.is_empty(), "message-for-unregistered-counter", "{} never registered but sent", name);
                            continue;
                        }
                        if m.total > u64::MAX as u128 && m.total_at_flush > 0 && m.total_at_flush <= u64::MAX as u128 {
                            ctx.nontrivial("counter-running-total-passes-2^64-in-a-later-flush-window");
                        }
                        m.total_at_flush = m.total;
                        // (increments adding up to exactly 2^64 within one window give a delta of 0 for an active counter)
                        let expect: Option<u64> = if m.updates > 0 {
                            if m.idle {
                                m.went_idle_then_changed = true;
                            }
                            m.idle = false;
                            Some(m.pending)
                        } else if m.idle {
                            None
                        } else {
                            m.idle = true;
                            Some(0)
                        };
                        // a message that cannot fit the payload limit is dropped by the writer (C09's business)
                        let expect = match expect {
                            Some(v) if !fits(c, &name, &own, &[v.to_string()], c.aggressive) => {
                                ensure!(got.is_empty(), "oversized-message-sent", "counter {} message cannot fit {} bytes but was sent: {:?}", name, c.max_len, got);
                                m.pending = 0;
                                m.updates = 0;
                                continue;
                            }
                            other => other,
                        };
                        match expect {
                            None => ensure!(got.is_empty(), "idle-counter-sent-again", "counter {} was already sent as zero once and has not changed, but was sent again: {:?}", name, got),
                            Some(v) => {
                                ensure!(got.len() == 1, "counter-message-count", "counter {}: expected one message with delta {} in this flush, got {:?}", name, v, got);
                                check_common(c, got[0], &own, "c")?;
                                ensure!(got[0].values.len() == 1 && got[0].values[0].parse::<u64>().ok() == Some(v), "counter-delta-wrong", "counter {}: delta {:?} sent, {} expected", name, got[0].values, v);
                            }
                        }
                        if m.went_idle_then_changed {
                            ctx.nontrivial("counter-idle-then-active-again");
                        }
                        m.pending = 0;
                        m.updates = 0;
                    }
                }
                {
                    let got = of(c, &msgs, "cm");
                    accounted += got.len();
                    ensure!(mix_registered || got.is_empty(), "message-for-unregistered-counter", "cm never registered but sent");
                    ensure!(got.len() <= 1, "counter-message-count", "mixed-use counter: {} messages in one flush: {:?}", got.len(), got);
                    for m in &got {
                        check_common(c, m, &own, "c")?;
                        let d: u64 = m.values.first().and_then(|v| v.parse().ok()).ok_or_else(|| Fail::new("bad-value", format!("{:?}", m.values)))?;
                        mix_sent += d as u128;
                        ensure!(mix_sent <= mix_generous, "delta-exceeds-what-was-added", "mixed-use counter cm: this flush sent {} which brings the deltas to {}, but under the most generous reading of its increment/absolute history only {} was ever added", d, mix_sent, mix_generous);
                    }
                }
                for (i, g) in gauges.iter().enumerate() {
                    let name = format!("g{}", i);
                    let got = of(c, &msgs, &name);
                    accounted += got.len();
                    match g {
                        None => ensure!(got.is_empty(), "message-for-unregistered-gauge", "{} never registered but sent", name),
                        Some(v) if !fits(c, &name, &own, &[ryu::Buffer::new().format(*v).to_string()], c.aggressive) => {
                            ensure!(got.is_empty(), "oversized-message-sent", "gauge {} message cannot fit {} bytes but was sent", name, c.max_len);
                        }
                        Some(v) => {
                            ensure!(got.len() == 1, "gauge-not-sent-once", "gauge {}: every flush must carry its most recent value {:?}, got {:?}", name, v, got);
                            check_common(c, got[0], &own, "g")?;
                            let x: f64 = got[0].values[0].parse().map_err(|_| Fail::new("bad-value", format!("{:?}", got[0].values)))?;
                            ensure!(got[0].values.len() == 1 && f64_same(x, *v), "gauge-value-wrong", "gauge {} sent {:?}, most recent value is {:?}", name, got[0].values, v);
                        }
                    }
                }
                for (i, h) in hists.iter_mut().enumerate() {
                    let name = format!("h{}", i);
                    let got = of(c, &msgs, &name);
                    accounted += got.len();
                    let vals = h.as_mut().map(std::mem::take).unwrap_or_default();
                    // values that cannot fit a payload even alone are dropped by the writer
                    let vals: Vec<f64> = vals.into_iter().filter(|v| c.sampling || fits(c, &name, &own, &[ryu::Buffer::new().format(*v).to_string()], false)).collect();
                    let mut sent: Vec<f64> = vec![];
                    for m in &got {
                        check_common(c, m, &own, if c.distributions { "d" } else { "h" })?;
                        for v in &m.values {
                            sent.push(v.parse().map_err(|_| Fail::new("bad-value", format!("{:?}", v)))?);
                        }
                        if !c.sampling {
                            ensure!(m.sample_rate.is_none(), "sample-rate-without-sampling", "sampling is off but {:?} carries a sample rate", m.name);
                        }
                    }
                    if !c.sampling {
                        // exactly the recorded values (as a multiset; the bucket yields newest block first)
                        let mut a: Vec<u64> = sent.iter().map(|v| if v.is_nan() { f64::NAN.to_bits() } else { v.to_bits() }).collect();
                        let mut b: Vec<u64> = vals.iter().map(|v| if v.is_nan() { f64::NAN.to_bits() } else { v.to_bits() }).collect();
                        a.sort();
                        b.sort();
                        ensure!(a == b, "histogram-values-not-exactly-once", "histogram {}: recorded since the previous flush {:?}, sent {:?}", name, vals, sent);
                    } else {
                        ensure!(sent.len() <= c.reservoir && sent.len() == vals.len().min(c.reservoir), "sampled-histogram-count", "histogram {} sampled: recorded {}, reservoir {}, sent {}", name, vals.len(), c.reservoir, sent.len());
                        let mut pool: Vec<u64> = vals.iter().map(|v| if v.is_nan() { f64::NAN.to_bits() } else { v.to_bits() }).collect();
                        for v in &sent {
                            let b = if v.is_nan() { f64::NAN.to_bits() } else { v.to_bits() };
                            let pos = pool.iter().position(|x| *x == b);
                            ensure!(pos.is_some(), "sampled-value-not-recorded", "histogram {} sent {:?} which was not recorded since the previous flush", name, v);
                            pool.swap_remove(pos.unwrap());
                        }
                        if let Some(m) = got.first() {
                            let rate: f64 = m.sample_rate.as_deref().unwrap_or("1").parse().unwrap_or(f64::NAN);
                            let exp = if sent.len() == vals.len() { 1.0 } else { sent.len() as f64 / vals.len() as f64 };
                            ensure!(rate == exp, "sample-rate-wrong", "histogram {}: sample rate {:?} expected {}", name, m.sample_rate, exp);
                        }
                    }
                }
                ensure!(accounted == msgs.len(), "unexpected-message", "flush produced {} messages, {} expected ones: {:?}", msgs.len(), accounted, msgs);
            }
        }
        prev_was_flush = matches!(step, SStep::Flush);
    }
    Ok(())
}

// ---------------------------------------------------------------- schedule lane

#[derive(Debug, Clone)]
enum UOp {
    Inc(usize, u64),
    Abs(u64),
    GaugeSet(f64),
    Record(usize, u32),
}

#[derive(Debug)]
struct SchedCase {
    cfg: Config,
    counter_is_absolute: bool,
    updaters: Vec<Vec<UOp>>,
    flushes: usize,
    abs_window_open: bool,
}

fn decode_sched(src: &mut Source) -> SchedCase {
    let mut cfg = dec_config(src, false);
    cfg.max_len = 8192;
    let nu = 1 + src.below(3);
    // One key per kind, so that the order in which a flush visits keys (a std HashMap iteration, randomly
    // seeded per map) cannot make the run depend on anything but the generated bytes. The counter is
    // increment-only (any thread) or strictly-increasing-absolute-only (thread 0 alone).
    let counter_is_absolute = src.chance(80);
    let updaters = (0..nu)
        .map(|t| {
            (0..1 + src.below(4))
                .map(|_| match src.below(5) {
                    0 | 1 if !counter_is_absolute => UOp::Inc(0, 1 + src.int_in(0, 9)),
                    0 | 1 | 2 if counter_is_absolute && t == 0 => UOp::Abs(src.int_in(1, 9)),
                    3 if t == nu - 1 => UOp::GaugeSet(src.int_in(1, 50) as f64),
                    _ => UOp::Record(0, 0),
                })
                .collect()
        })
        .collect();
    SchedCase { cfg, counter_is_absolute, updaters, flushes: 2 + src.below(4), abs_window_open: src.chance(48) }
}

#[derive(Debug, Clone)]
enum Ev {
    OpStart(usize, UOp),
    OpEnd(usize),
    FlushStart(usize),
    FlushEnd(usize, Vec<DsdMessage>),
}

pub fn case_sched(bytes: &[u8], sched_bytes: &[u8], ctx: &mut Ctx) -> Result<(), Fail> {
    let mut src = Source::new(bytes);
    let case = decode_sched(&mut src);
    run_sched(case, sched_bytes, None, ctx).map(|_| ())
}

/// Runs one schedule-lane case; returns the number of scheduler steps taken.
fn run_sched(mut case: SchedCase, sched_bytes: &[u8], explicit: Option<Vec<(u64, usize)>>, ctx: &mut Ctx) -> Result<u64, Fail> {
    // unique histogram value tags
    let mut tag = 1u32;
    for u in case.updaters.iter_mut() {
        for op in u.iter_mut() {
            if let UOp::Record(_, t) = op {
                *t = tag;
                tag += 1;
            }
        }
    }
    if explicit.is_none() {
        ctx.case(&(&case, sched_bytes));
    }
    let c = case.cfg.clone();
    let has_abs = case.updaters.iter().any(|u| u.iter().any(|o| matches!(o, UOp::Abs(_))));
    let mut driver = mk_driver(&c);
    let rec = driver.recorder();
    let events: Mutex<Vec<Ev>> = Mutex::new(vec![]);
    let parse_err: Mutex<Option<Fail>> = Mutex::new(None);
    let mut bodies: Vec<Box<dyn FnOnce() + Send + '_>> = Vec::new();
    for (t, ops) in case.updaters.iter().enumerate() {
        let (rec, events) = (&rec, &events);
        bodies.push(Box::new(move || {
            let mut abs_cur = 100u64;
            for op in ops {
                events.lock().unwrap().push(Ev::OpStart(t, op.clone()));
                match op {
                    UOp::Inc(i, v) => rec.register_counter(&Key::from_name(format!("ci{}", i)), &META).increment(*v),
                    UOp::Abs(d) => {
                        abs_cur += d;
                        rec.register_counter(&Key::from_name("ci0"), &META).absolute(abs_cur)
                    }
                    UOp::GaugeSet(v) => rec.register_gauge(&Key::from_name("g"), &META).set(*v),
                    UOp::Record(i, tag) => rec.register_histogram(&Key::from_name(format!("h{}", i)), &META).record(*tag as f64),
                }
                events.lock().unwrap().push(Ev::OpEnd(t));
                sched::point("c10.op_done");
            }
        }));
    }
    let nu = case.updaters.len();
    {
        let (events, parse_err, c) = (&events, &parse_err, &c);
        let flushes = case.flushes;
        let driver = &mut driver;
        bodies.push(Box::new(move || {
            for f in 0..flushes {
                events.lock().unwrap().push(Ev::FlushStart(f));
                let payloads = driver.flush();
                match parse_flush(c, &payloads) {
                    Ok(m) => events.lock().unwrap().push(Ev::FlushEnd(f, m)),
                    Err(e) => {
                        *parse_err.lock().unwrap() = Some(e);
                        events.lock().unwrap().push(Ev::FlushEnd(f, vec![]));
                    }
                }
                sched::point("c10.flush_done");
            }
        }));
    }
    // known bucket window (C05 finding A) always fused here; the absolute re-base window fused unless opened
    let mut fuse = vec![("bucket.push.tail_loaded", "block.push.claimed"), ("bucket.push.new_tail_cas_ok", "block.push.claimed")];
    if has_abs && !case.abs_window_open {
        fuse.push(("dsd.counter.flush.current_loaded", "dsd.counter.flush.last_swapped"));
        fuse.push(("dsd.counter.abs.mode_swapped", "dsd.counter.abs.current_stored"));
        ctx.excluded = Some("known-window-fused:absolute-rebase-during-flush");
    }
    let out = sched::explore(sched_bytes, SchedOpts { fuse, max_steps: 6000, explicit, ..Default::default() }, bodies);
    if out.budget_exhausted {
        ctx.discard = true;
        return Ok(0);
    }
    ensure!(out.panics.is_empty(), "panic-in-thread", "{:?}", out.panics);
    ensure!(!out.livelock, "livelock", "{:?}", out.trace.iter().rev().take(8).collect::<Vec<_>>());
    if let Some(e) = parse_err.into_inner().unwrap() {
        return Err(e);
    }
    let mut events = events.into_inner().unwrap();
    // final quiescent flushes
    for f in 0..2 {
        events.push(Ev::FlushStart(100 + f));
        let m = parse_flush(&c, &driver.flush())?;
        events.push(Ev::FlushEnd(100 + f, m));
    }
    if std::env::var("VERIF_DEBUG").is_ok() {
        eprintln!("TRACE {:?}", out.trace);
        for e in &events {
            eprintln!("EV {:?}", e);
        }
    }
    // ---- oracle over the history
    let mut started_inc = [0u64; 2];
    let mut sent_inc = [0u64; 2];
    let mut total_inc = [0u64; 2];
    let mut abs_first: Option<u64> = None;
    let mut abs_last_started: Option<u64> = None;
    let mut abs_cur = 100u64;
    let mut sent_abs = 0u64;
    let mut gauge_vals_started: Vec<f64> = vec![];
    let mut gauge_completed_before_flush: usize = 0;
    let mut gauge_done = 0usize;
    let mut gauge_inflight = false;
    let mut gauge_thread = usize::MAX;
    let mut recorded: HashMap<u32, usize> = HashMap::new();
    let mut hist_sent: HashMap<u32, u32> = HashMap::new();
    let mut abs_rebase_possible = false;
    let mut first_abs_inflight = false;
    let mut in_flush = false;
    for ev in &events {
        match ev {
            Ev::OpStart(opt, op) => match op {
                UOp::Inc(i, v) => {
                    started_inc[*i] += v;
                    total_inc[*i] += v;
                }
                UOp::Abs(d) => {
                    abs_cur += d;
                    if abs_first.is_none() {
                        abs_first = Some(abs_cur);
                        first_abs_inflight = true;
                        if in_flush {
                            abs_rebase_possible = true;
                        }
                    }
                    abs_last_started = Some(abs_cur);
                }
                UOp::GaugeSet(v) => {
                    gauge_vals_started.push(*v);
                    gauge_inflight = true;
                    gauge_thread = *opt;
                }
                UOp::Record(_, t) => {
                    recorded.insert(*t, 0);
                }
            },
            Ev::OpEnd(t) => {
                if *t == 0 {
                    first_abs_inflight = false;
                }
                if gauge_inflight && *t == gauge_thread {
                    gauge_inflight = false;
                    gauge_done = gauge_vals_started.len();
                }
            }
            Ev::FlushStart(_) => {
                in_flush = true;
                if first_abs_inflight {
                    abs_rebase_possible = true;
                }
                gauge_completed_before_flush = gauge_done;
            }
            Ev::FlushEnd(f, msgs) => {
                in_flush = false;
                let sig = |base: &str| if has_abs && case.abs_window_open && abs_rebase_possible && base.starts_with("abs-") { "absolute-rebase-during-flush".to_string() } else { base.to_string() };
                for i in 0..2 {
                    if case.counter_is_absolute {
                        continue;
                    }
                    for m in of(&c, msgs, &format!("ci{}", i)) {
                        check_common(&c, m, &[], "c")?;
                        let d: u64 = m.values[0].parse().map_err(|_| Fail::new("bad-value", format!("{:?}", m.values)))?;
                        sent_inc[i] = sent_inc[i].wrapping_add(d);
                    }
                    ensure!(sent_inc[i] <= started_inc[i], "delta-exceeds-increments", "counter ci{}: deltas sent so far sum to {} but only {} had been added by increments started before flush {} ended; trace {:?}", i, sent_inc[i], started_inc[i], f, out.trace);
                }
                for m in of(&c, msgs, if case.counter_is_absolute { "ci0" } else { "__none__" }) {
                    check_common(&c, m, &[], "c")?;
                    let d: u64 = m.values[0].parse().map_err(|_| Fail::new("bad-value", format!("{:?}", m.values)))?;
                    sent_abs = sent_abs.wrapping_add(d);
                    if let (Some(first), Some(last)) = (abs_first, abs_last_started) {
                        ensure!(sent_abs <= last - first, sig("abs-delta-exceeds-growth"), "absolute counter: deltas sent so far sum to {} but it only grew from {} to {} by flush {}; trace {:?}", sent_abs, first, last, f, out.trace);
                    } else {
                        ensure!(d == 0, sig("abs-delta-before-any-update"), "absolute counter sent {} before any update", d);
                    }
                }
                let g = of(&c, msgs, "g");
                if !gauge_vals_started.is_empty() && gauge_completed_before_flush > 0 {
                    ensure!(g.len() == 1, "gauge-not-sent-once", "flush {} carried {} gauge messages", f, g.len());
                }
                for m in g {
                    check_common(&c, m, &[], "g")?;
                    let x: f64 = m.values[0].parse().map_err(|_| Fail::new("bad-value", format!("{:?}", m.values)))?;
                    // allowed: the value at flush start (last completed set) or any set started before the flush ended; 0.0 if none completed
                    let lo = gauge_completed_before_flush.saturating_sub(1);
                    let mut allowed: Vec<f64> = gauge_vals_started[lo.min(gauge_vals_started.len())..].to_vec();
                    if gauge_completed_before_flush == 0 {
                        allowed.push(0.0);
                    }
                    ensure!(allowed.iter().any(|a| f64_same(*a, x)), "gauge-value-not-from-this-flush", "flush {} sent gauge value {} but the gauge held only {:?} during that flush", f, x, allowed);
                }
                for i in 0..2 {
                    for m in of(&c, msgs, &format!("h{}", i)) {
                        check_common(&c, m, &[], if c.distributions { "d" } else { "h" })?;
                        for v in &m.values {
                            let t = v.parse::<f64>().unwrap_or(-1.0) as u32;
                            ensure!(recorded.contains_key(&t), "histogram-value-fabricated", "flush {} sent histogram value {:?} which no record() call that had started supplied", f, v);
                            let cnt = hist_sent.entry(t).or_insert(0);
                            *cnt += 1;
                            ensure!(*cnt == 1, "histogram-value-sent-twice", "histogram value {} sent in two flushes", t);
                        }
                    }
                }
            }
        }
    }
    let sig_abs = if has_abs && case.abs_window_open && abs_rebase_possible { "absolute-rebase-during-flush" } else { "abs-sum-wrong-at-quiescence" };
    for i in 0..2 {
        ensure!(sent_inc[i] == total_inc[i], "increment-sum-not-conserved", "counter ci{}: increments total {} but the deltas of all flushes (final quiescent ones included) sum to {}; trace {:?}", i, total_inc[i], sent_inc[i], out.trace);
    }
    if let (Some(first), Some(last)) = (abs_first, abs_last_started) {
        ensure!(sent_abs == last - first, sig_abs, "absolute counter went from {} to {} but deltas sum to {}; trace {:?}", first, last, sent_abs, out.trace);
    }
    for (t, _) in recorded.iter() {
        ensure!(hist_sent.get(t).copied().unwrap_or(0) == 1, "histogram-value-lost", "histogram value {} was recorded but sent in no flush (final quiescent ones included); trace {:?}", t, out.trace);
    }
    // non-triviality: an updater step strictly inside a flush's atomic steps
    let fl = nu as u8;
    let mut inside = false;
    let mut flush_active = false;
    for (t, site) in &out.trace {
        if *t == fl {
            flush_active = *site != "c10.flush_done";
        } else if flush_active && site.starts_with("dsd.") || (*t != fl && flush_active && (site.starts_with("block.") || site.starts_with("bucket.push"))) {
            inside = true;
        }
    }
    if inside {
        ctx.nontrivial("update-step-inside-flush");
    }
    ctx.fingerprint = ctx.fingerprint.or(Some(crate::engine::runner::hash_str(&format!("{:?}", out.trace))));
    Ok(out.steps)
}

fn exhaustive_scenarios() -> Vec<(&'static str, Vec<UOp>)> {
    vec![("two increments || two flushes", vec![UOp::Inc(0, 3), UOp::Inc(0, 4)]), ("two histogram records || two flushes", vec![UOp::Record(0, 0), UOp::Record(0, 0)]), ("increment, gauge set || two flushes", vec![UOp::Inc(0, 2), UOp::GaugeSet(5.0)])]
}

fn exhaustive_case(ops: Vec<UOp>) -> SchedCase {
    SchedCase {
        cfg: Config { aggressive: false, prefix: None, globals: vec![], distributions: false, sampling: false, reservoir: 1, max_len: 8192, length_prefix: false },
        counter_is_absolute: false,
        updaters: vec![ops],
        flushes: 2,
        abs_window_open: false,
    }
}

pub fn case_exhaustive_replay(bytes: &[u8], _s: &[u8], ctx: &mut Ctx) -> Result<(), Fail> {
    let sc = exhaustive_scenarios();
    let (name, ops) = sc[(*bytes.first().unwrap_or(&0) as usize).min(sc.len() - 1)].clone();
    let sch: Vec<(u64, usize)> = bytes[1.min(bytes.len())..].chunks(2).filter(|c| c.len() == 2).map(|c| (c[0] as u64, c[1] as usize)).collect();
    ctx.case(&(name, &sch));
    run_sched(exhaustive_case(ops), &[], Some(sch), ctx).map(|_| ())
}

/// Bounded-exhaustive: every schedule with <= 2 preemptions of {one thread making two increments ||
/// the flusher doing two flushes} and of {one thread recording two histogram values || flusher}.
fn exhaustive(pr: &PropRun) -> crate::engine::runner::LaneReport {
    use crate::engine::{runner::{LaneReport, Violation}, sched::schedules_le2};
    let start = std::time::Instant::now();
    let mut rep = LaneReport::named("exhaustive-le2-preemptions");
    rep.exhaustive = true;
    let mk = exhaustive_case;
    let scenarios = exhaustive_scenarios();
    for (si, (name, ops)) in scenarios.iter().enumerate() {
        let mut ctx0 = Ctx::default();
        let steps = match run_sched(mk(ops.clone()), &[], Some(vec![]), &mut ctx0) {
            Ok(s) => s,
            Err(f) => {
                rep.violations.push(Violation { lane: "exhaustive-le2-preemptions".into(), sig: f.sig, msg: f.msg, bytes: vec![si as u8], sched: vec![], decoded: format!("{} without preemption", name) });
                continue;
            }
        };
        let schedules = schedules_le2(2, steps + 4);
        let mut seen = std::collections::HashSet::new();
        for (k, sch) in schedules.iter().enumerate() {
            let mut ctx = Ctx::default();
            let r = run_sched(mk(ops.clone()), &[], Some(sch.clone()), &mut ctx);
            let fp = ctx.fingerprint.unwrap_or(k as u64) ^ ((si as u64) << 60);
            ctx.fingerprint = Some(fp);
            if !seen.insert(fp) {
                ctx.nontrivial = false;
            }
            if k == 7 {
                ctx.desc = Some(format!("scenario '{}' switches {:?}", name, sch));
            }
            rep.account(ctx);
            if let Err(f) = r {
                if pr.cfg.is_known(&f.sig) {
                    rep.known_hits.entry(f.sig.clone()).or_insert((0, vec![], vec![], format!("{} {:?}", name, sch))).0 += 1;
                } else {
                    let mut bytes = vec![si as u8];
                    for (s, t) in sch {
                        bytes.push(*s as u8);
                        bytes.push(*t as u8);
                    }
                    rep.violations.push(Violation { lane: "exhaustive-le2-preemptions".into(), sig: f.sig, msg: f.msg, bytes, sched: vec![], decoded: format!("scenario '{}' switches {:?}", name, sch) });
                    break;
                }
            }
        }
        rep.notes.push(format!("scenario '{}': {} schedules, {} distinct interleavings", name, schedules.len(), seen.len()));
    }
    rep.wall_s = start.elapsed().as_secs_f64();
    rep
}

/// Free-running stress: several threads adjust ONE gauge with increment/decrement (exact in f64: whole numbers far
/// below 2^53) and one counter with increment while a flusher thread keeps flushing; the flush after the threads
/// have finished must carry the exact net sum for the gauge ("each flush sends every gauge's most recent value"),
/// and the counter deltas over all flushes must add up to the increments.
fn stress_shared_gauge(pr: &PropRun) -> crate::engine::runner::LaneReport {
    use crate::engine::runner::{LaneReport, Violation};
    use std::sync::atomic::{AtomicBool, Ordering};
    let start = std::time::Instant::now();
    let mut rep = LaneReport::named("stress-shared-gauge");
    let rounds = pr.cfg.cases(60, 3_000);
    let c = Config { aggressive: false, prefix: None, globals: vec![], distributions: false, sampling: false, reservoir: 1, max_len: 8192, length_prefix: false };
    let mut bad: Option<(String, String)> = None;
    for round in 0..rounds {
        let mut driver = mk_driver(&c);
        let rec = driver.recorder();
        let key_g = Key::from_name("sg");
        let key_c = Key::from_name("sc");
        let nthreads = 4usize;
        let per = 4_000u64;
        let start_at = (round % 5) as f64 * 100.0;
        rec.register_gauge(&key_g, &META).set(start_at);
        let stop = AtomicBool::new(false);
        let mut counter_sent: u64 = 0;
        let mut failure: Option<Fail> = None;
        std::thread::scope(|s| {
            let mut hs = vec![];
            for t in 0..nthreads {
                let (rec, key_g, key_c) = (&rec, &key_g, &key_c);
                hs.push(s.spawn(move || {
                    let g = rec.register_gauge(key_g, &META);
                    let cn = rec.register_counter(key_c, &META);
                    for i in 0..per {
                        // threads 0,1 go up by 2 and down by 1; threads 2,3 up by 1 and down by 1: net +per per up-thread pair
                        if t < 2 {
                            g.increment(2.0);
                            g.decrement(1.0);
                        } else if i % 2 == 0 {
                            g.increment(1.0);
                        } else {
                            g.decrement(1.0);
                        }
                        cn.increment(1);
                    }
                }));
            }
            // flush while they run
            while hs.iter().any(|h| !h.is_finished()) && !stop.load(Ordering::Relaxed) {
                match parse_flush(&c, &driver.flush()) {
                    Ok(msgs) => {
                        for m in of(&c, &msgs, "sc") {
                            counter_sent += m.values.first().and_then(|v| v.parse::<u64>().ok()).unwrap_or(0);
                        }
                    }
                    Err(e) => {
                        failure = Some(e);
                        stop.store(true, Ordering::Relaxed);
                    }
                }
            }
        });
        let mut ctx = Ctx::default();
        ctx.fingerprint = Some(round);
        ctx.nontrivial("several-threads-adjust-one-gauge");
        if round == 0 {
            ctx.desc = Some(format!("{} threads x {} rounds of increment/decrement on one gauge and increment(1) on one counter, flushes running alongside; then a quiescent flush", nthreads, per));
        }
        rep.account(ctx);
        if let Some(f) = failure {
            bad = Some((f.sig.clone(), f.msg.clone()));
            break;
        }
        let msgs = match parse_flush(&c, &driver.flush()) {
            Ok(m) => m,
            Err(e) => {
                bad = Some((e.sig.clone(), e.msg.clone()));
                break;
            }
        };
        for m in of(&c, &msgs, "sc") {
            counter_sent += m.values.first().and_then(|v| v.parse::<u64>().ok()).unwrap_or(0);
        }
        let want_gauge = start_at + 2.0 * per as f64;
        let got_gauge: Vec<f64> = of(&c, &msgs, "sg").iter().filter_map(|m| m.values.first().and_then(|v| v.parse::<f64>().ok())).collect();
        if got_gauge != vec![want_gauge] {
            bad = Some(("gauge-adjustment-lost".into(), format!("round {}: gauge set to {}, then {} threads made {} increments/decrements each with a net sum of {}; the flush at quiescence carries {:?}, expected exactly [{}]", round, start_at, nthreads, per, 2.0 * per as f64, got_gauge, want_gauge)));
            break;
        }
        if counter_sent != nthreads as u64 * per {
            bad = Some(("counter-deltas-do-not-add-up".into(), format!("round {}: {} increments of 1 were made, the deltas of all flushes add up to {}", round, nthreads as u64 * per, counter_sent)));
            break;
        }
    }
    if let Some((sig, msg)) = bad {
        rep.violations.push(Violation { lane: "stress-shared-gauge".into(), sig, msg, bytes: vec![], sched: vec![], decoded: "free-running threads (not deterministically replayable)".into() });
    }
    rep.wall_s = start.elapsed().as_secs_f64();
    rep
}

pub fn run(cfg: &RunCfg, replay: Option<&str>) -> i32 {
    let mut pr = PropRun::new("C10", cfg, RULE);
    pr.register("sequential-model", &case_seq);
    pr.register("schedules", &case_sched);
    pr.register("exhaustive-le2-preemptions", &case_exhaustive_replay);
    super::c10_e2e::register(&mut pr);
    if let Some(f) = replay {
        return pr.replay(f);
    }
    pr.assume("per key a counter is increment-only or strictly-increasing-absolute-only; increment(0) and repeated equal absolute values are not generated, so 'stops changing' has one meaning");
    pr.assume("mixed increment/absolute use of one key (sequential lane, key cm) is outside the exact clauses of the statement; only 'no delta exceeds what was added' is asserted, cumulatively, against the more generous of two readings of absolute (first value of a run is a baseline / absolute raises the running total)");
    pr.assume("the known bucket window of C05 (push into a block a clear already detached) is fused shut in the schedule lane");
    pr.assume("SC interleavings at hook granularity");
    let r = pr.run_regressions();
    pr.push(r);
    let c = pr.cfg.clone();
    let r = run_lane(&c, "C10", &Lane { name: "sequential-model", cases: c.cases(600_000, 10_000_000), max_len: 200, sched_len: 0, workers: 0, f: &case_seq });
    pr.push(r);
    let r = run_lane(&c, "C10", &Lane { name: "schedules", cases: c.cases(800_000, 20_000_000), max_len: 64, sched_len: 128, workers: 0, f: &case_sched });
    pr.push(r);
    let r = exhaustive(&pr);
    pr.push(r);
    let r = stress_shared_gauge(&pr);
    pr.push(r);
    let r = super::c10_e2e::lane(&pr);
    pr.push(r);
    pr.finish()
}
