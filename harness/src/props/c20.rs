//! C20 — a recoverable recorder is live until recovered, inert and dropped once after.

use std::sync::{atomic::Ordering, Mutex};

use metrics::{Key, Level, Metadata, Recorder};
use metrics_util::RecoverableRecorder;

use crate::{
    doubles::{new_log, LogRecorder, Op},
    engine::{
        report::PropRun,
        runner::{hash_str, run_lane, Ctx, Fail, Lane, LaneReport, RunCfg, Violation},
        sched::{self, schedules_le2, Outcome, SchedOpts},
        source::Source,
    },
    ensure,
};

const RULE: &str = "a case = 1-3 emitter threads issuing 1-3 register/describe(+update) operations each through the weak wrapper (the wrapped double yields inside every call, so an emission can be in flight) and one owner thread that, after 0-2 own steps, calls into_inner() or drops the recovery handle; all under a generated schedule over the wrapper's upgrade point, the into_inner retry loop and the double's enter/exit points. Non-trivial = into_inner()/the handle drop is issued while an emission is inside the double or between a successful upgrade and its call. Distinct = distinct (case, schedule bytes) resp. distinct interleavings in the exhaustive sub-lane. Pass-through lane: 1-8 generated recorder calls (every kind; describe with/without unit and with empty text; names, labels, metadata, handle updates) go through the wrapper and into a second double directly and both must log the same, then into_inner()/drop and 0-4 more calls that must reach nothing. Many-in-flight lane: N = 2..512 threads (sizes around 32, 64, 128, 256) each hold one emission inside the wrapped recorder at the same time while the handle is alive; all N must have reached it. Process lane: real install(), including over an existing global recorder.";

static META: Metadata<'static> = Metadata::new("c20", Level::INFO, Some("c20::mod"));

#[derive(Debug, Clone, Copy, PartialEq)]
enum EOp {
    Counter,
    Gauge,
    Histogram,
    Describe,
}

#[derive(Debug, Clone)]
struct Case {
    emitters: Vec<Vec<EOp>>,
    owner_delay: usize,
    owner_into_inner: bool,
    /// the emitters keep the handles their register calls return until the case is over (a caller holding
    /// `let c = counter!(..)`); such a handle is the recorder's own object and must not keep the recorder itself
    retain: bool,
}

#[derive(Debug, Clone)]
enum Ev {
    EmitStart(usize, usize),
    EmitEnd(usize, usize, bool), // logged something?
    RecoverStart,
    RecoverEnd { inside_at_return: u32, got_id: Option<u32> },
}

struct RunOut {
    events: Vec<Ev>,
    out: Outcome,
    drops: u32,
    log: Vec<crate::doubles::RecEvent>,
}

fn execute(case: &Case, sched_bytes: &[u8], explicit: Option<Vec<(u64, usize)>>) -> RunOut {
    // The wrapper keeps the recorder in an Arc; if a change to the library lets a call run inside the
    // recorder after the Arc was released, the oracle should see it (flags, counters) rather than
    // the process dying of heap corruption, so blocks of that size are never handed back.
    crate::alloc::never_free_size(16 + std::mem::size_of::<LogRecorder>());
    let log = new_log();
    let double = LogRecorder::new(7, &log).yielding();
    let drops = double.drops.clone();
    let inside = double.inside.clone();
    // keep every shared part of the double alive for the whole case, so that a stale copy of the
    // recorder (used after release by a broken library) still points at valid memory
    let _keep_alive = (double.in_scope.clone(), double.finalized.clone(), double.log.clone());
    let (wrapped, handle) = RecoverableRecorder::new(double).__verif_build();
    let events: Mutex<Vec<Ev>> = Mutex::new(Vec::new());
    let kept: Mutex<Vec<crate::doubles::KeptHandle>> = Mutex::new(Vec::new());
    let retain = case.retain;
    let mut bodies: Vec<Box<dyn FnOnce() + Send + '_>> = Vec::new();
    for (t, ops) in case.emitters.iter().enumerate() {
        let (wrapped, events, log, kept) = (&wrapped, &events, &log, &kept);
        bodies.push(Box::new(move || {
            let me = std::thread::current().id();
            for (k, op) in ops.iter().enumerate() {
                let before = log.lock().unwrap().iter().filter(|e| e.thread == me).count();
                events.lock().unwrap().push(Ev::EmitStart(t, k));
                let key = Key::from_name(format!("m{}_{}", t, k));
                use crate::doubles::KeptHandle;
                match op {
                    EOp::Counter if retain => {
                        let h = wrapped.register_counter(&key, &META);
                        h.increment(1);
                        kept.lock().unwrap().push(KeptHandle::C(h));
                    }
                    EOp::Gauge if retain => {
                        let h = wrapped.register_gauge(&key, &META);
                        h.set(2.0);
                        kept.lock().unwrap().push(KeptHandle::G(h));
                    }
                    EOp::Histogram if retain => {
                        let h = wrapped.register_histogram(&key, &META);
                        h.record(3.0);
                        kept.lock().unwrap().push(KeptHandle::H(h));
                    }
                    EOp::Counter => wrapped.register_counter(&key, &META).increment(1),
                    EOp::Gauge => wrapped.register_gauge(&key, &META).set(2.0),
                    EOp::Histogram => wrapped.register_histogram(&key, &META).record(3.0),
                    EOp::Describe => wrapped.describe_counter(format!("m{}_{}", t, k).into(), None, "d".into()),
                }
                let after = log.lock().unwrap().iter().filter(|e| e.thread == me).count();
                events.lock().unwrap().push(Ev::EmitEnd(t, k, after > before));
                sched::point("c20.emit_done");
            }
        }));
    }
    {
        let events = &events;
        let delay = case.owner_delay;
        let into_inner = case.owner_into_inner;
        bodies.push(Box::new(move || {
            for _ in 0..delay {
                sched::point("c20.owner_wait");
            }
            events.lock().unwrap().push(Ev::RecoverStart);
            if into_inner {
                let rec = handle.into_inner();
                let ins = inside.load(Ordering::SeqCst);
                events.lock().unwrap().push(Ev::RecoverEnd { inside_at_return: ins, got_id: Some(rec.id) });
                if ins != 0 {
                    // a call is still executing inside the recorder: keep it alive, the oracle reports it
                    std::mem::forget(rec);
                    return;
                }
                sched::point("c20.recovered");
                drop(rec);
            } else {
                drop(handle);
                events.lock().unwrap().push(Ev::RecoverEnd { inside_at_return: 0, got_id: None });
            }
        }));
    }
    let opts = SchedOpts { explicit, max_steps: 3000, ..Default::default() };
    let out = sched::explore(sched_bytes, opts, bodies);
    // after everything finished: emissions through the wrapper must be ignored
    let mut events = events.into_inner().unwrap();
    if !out.livelock && !out.budget_exhausted && out.panics.is_empty() {
        let before = log.lock().unwrap().len();
        events.push(Ev::EmitStart(99, 0));
        wrapped.register_counter(&Key::from_name("late"), &META).increment(5);
        wrapped.describe_gauge("late".into(), None, "x".into());
        let after = log.lock().unwrap().len();
        events.push(Ev::EmitEnd(99, 0, after > before));
    }
    drop(wrapped);
    let l = log.lock().unwrap().clone();
    // (the kept metric handles are still alive here: they must not have kept the recorder)
    let dropped = drops.load(Ordering::SeqCst);
    drop(kept);
    RunOut { events, out, drops: dropped, log: l }
}

fn oracle(case: &Case, run: &RunOut, ctx: &mut Ctx) -> Result<(), Fail> {
    let out = &run.out;
    if out.budget_exhausted {
        ctx.discard = true;
        return Ok(());
    }
    ensure!(out.panics.is_empty(), "panic-in-thread", "{:?}", out.panics);
    ensure!(!out.livelock, "into_inner-never-returns", "into_inner() keeps spinning although every emitter has finished; trace tail {:?}", out.trace.iter().rev().take(8).collect::<Vec<_>>());
    let mut recover_started = false;
    let mut recover_done = false;
    let mut started_after_done: std::collections::HashSet<(usize, usize)> = Default::default();
    let mut started_before_recover: std::collections::HashSet<(usize, usize)> = Default::default();
    let mut holders: std::collections::HashSet<(usize, usize)> = Default::default();
    for e in &run.events {
        match e {
            Ev::EmitStart(t, k) => {
                // After a handle *drop* the recorder documentedly lives until the last in-flight
                // call releases it, so an emission that starts while such a call is still in
                // flight may legitimately reach it (and then keeps it alive itself).
                let excused = !case.owner_into_inner && !holders.is_empty();
                if recover_done && !excused {
                    started_after_done.insert((*t, *k));
                } else {
                    holders.insert((*t, *k));
                }
                if !recover_started {
                    started_before_recover.insert((*t, *k));
                }
            }
            Ev::EmitEnd(t, k, logged) => {
                holders.remove(&(*t, *k));
                if started_before_recover.contains(&(*t, *k)) && !recover_started {
                    // completed entirely before recovery began
                    ensure!(*logged, "emission-lost-while-handle-alive", "emission ({},{}) completed before recovery started but did not reach the wrapped recorder; events {:?}", t, k, run.events);
                }
                if started_after_done.contains(&(*t, *k)) {
                    ensure!(!*logged, "emission-delivered-after-recovery", "emission ({},{}) started after recovery had finished and still reached the recorder; events {:?}; trace {:?}", t, k, run.events, out.trace);
                }
            }
            Ev::RecoverStart => recover_started = true,
            Ev::RecoverEnd { inside_at_return, got_id } => {
                recover_done = true;
                if case.owner_into_inner {
                    ensure!(*got_id == Some(7), "into_inner-wrong-recorder", "into_inner returned {:?}", got_id);
                    ensure!(*inside_at_return == 0, "into_inner-returned-while-call-inside", "into_inner() returned while {} call(s) were executing inside the recorder; trace {:?}", inside_at_return, out.trace);
                }
            }
        }
    }
    // an emission wholly enclosed by another, delivered one cannot have been refused (into_inner case): the enclosing call
    // either held its strong reference all along, or obtained it later still — so the recorder had not been recovered
    if case.owner_into_inner {
        let pos = |want: &dyn Fn(&Ev) -> bool| run.events.iter().position(|e| want(e));
        let ids: Vec<(usize, usize)> = run.events.iter().filter_map(|e| if let Ev::EmitStart(t, k) = e { Some((*t, *k)) } else { None }).filter(|(t, _)| *t != 99).collect();
        for a in &ids {
            let (Some(a0), Some(a1)) = (pos(&|e| matches!(e, Ev::EmitStart(t, k) if (*t, *k) == *a)), pos(&|e| matches!(e, Ev::EmitEnd(t, k, true) if (*t, *k) == *a))) else { continue };
            for e in ids.iter().filter(|e| *e != a) {
                let (Some(e0), Some(e1)) = (pos(&|x| matches!(x, Ev::EmitStart(t, k) if (*t, *k) == *e)), pos(&|x| matches!(x, Ev::EmitEnd(t, k, _) if (*t, *k) == *e))) else { continue };
                if a0 < e0 && e1 < a1 {
                    ensure!(matches!(run.events[e1], Ev::EmitEnd(_, _, true)), "emission-lost-while-handle-alive", "emission {:?} ran entirely while the delivered emission {:?} was in progress (so the recorder had not been recovered), yet it did not reach the recorder; events {:?}; trace {:?}", e, a, run.events, out.trace);
                    ctx.class("emission-enclosed-by-a-delivered-one");
                }
            }
        }
    }
    // no call may enter the recorder after its finalisation began
    // (handles the recorder handed out earlier are its own objects and may outlive it; only
    // describe/register calls "enter the recorder")
    for e in run.log.iter().filter(|e| e.key.is_none()) {
        ensure!(!e.finalized, "call-after-finalisation", "a call entered the recorder after its drop began: {:?}", e);
    }
    ensure!(run.drops == 1, "recorder-not-dropped-exactly-once", "wrapped recorder dropped {} time(s) by the end of the case", run.drops);
    // non-triviality: recovery issued while an emission is in flight
    let owner = case.emitters.len() as u8;
    let mut in_flight: std::collections::HashSet<u8> = Default::default();
    let mut nontrivial = false;
    let mut owner_started = false;
    for (t, site) in &out.trace {
        if *t != owner {
            match *site {
                "recoverable.weak.upgraded" | "double.enter" | "double.exit" => {
                    in_flight.insert(*t);
                }
                "c20.emit_done" => {
                    in_flight.remove(t);
                }
                _ => {}
            }
        } else if (*site == "recoverable.into_inner.retry" || *site == "c20.recovered") && !owner_started {
            owner_started = true;
            if *site == "recoverable.into_inner.retry" {
                nontrivial = true;
            }
        }
    }
    let _ = in_flight;
    if nontrivial {
        ctx.nontrivial("into_inner-waited-for-in-flight-call");
    }
    if !case.owner_into_inner {
        // handle drop while some emitter still inside: the recorder's drop is deferred to that emitter
        let last_emit_done = out.trace.iter().rposition(|(t, s)| *t != owner && *s == "double.exit");
        let owner_done = out.trace.iter().rposition(|(t, _)| *t == owner);
        if let (Some(a), Some(b)) = (last_emit_done, owner_done) {
            if a > b {
                ctx.nontrivial("handle-dropped-while-call-in-flight");
            }
        }
    }
    Ok(())
}

fn decode(src: &mut Source) -> Case {
    let ne = 1 + src.below(3);
    let emitters = (0..ne).map(|_| (0..1 + src.below(3)).map(|_| *src.pick(&[EOp::Counter, EOp::Describe, EOp::Gauge, EOp::Histogram])).collect()).collect();
    Case { emitters, owner_delay: src.below(3), owner_into_inner: src.byte() < 176, retain: src.below(4) == 3 }
}

pub fn case_sched(bytes: &[u8], sched_bytes: &[u8], ctx: &mut Ctx) -> Result<(), Fail> {
    let mut src = Source::new(bytes);
    let case = decode(&mut src);
    ctx.case(&(&case, sched_bytes));
    let run = execute(&case, sched_bytes, None);
    oracle(&case, &run, ctx)
}

fn scenarios() -> Vec<Case> {
    vec![Case { emitters: vec![vec![EOp::Counter, EOp::Describe]], owner_delay: 0, owner_into_inner: true, retain: false }, Case { emitters: vec![vec![EOp::Gauge, EOp::Counter]], owner_delay: 0, owner_into_inner: false, retain: false }]
}

pub fn case_exhaustive_replay(bytes: &[u8], _s: &[u8], ctx: &mut Ctx) -> Result<(), Fail> {
    let sc = scenarios();
    let case = &sc[(*bytes.first().unwrap_or(&0) as usize).min(sc.len() - 1)];
    let sch: Vec<(u64, usize)> = bytes[1.min(bytes.len())..].chunks(2).filter(|c| c.len() == 2).map(|c| (c[0] as u64, c[1] as usize)).collect();
    ctx.case(&(case, &sch));
    let run = execute(case, &[], Some(sch));
    oracle(case, &run, ctx)
}

fn exhaustive(_pr: &PropRun) -> LaneReport {
    let start = std::time::Instant::now();
    let mut rep = LaneReport::named("exhaustive-le2-preemptions");
    rep.exhaustive = true;
    for (si, case) in scenarios().iter().enumerate() {
        let base = execute(case, &[], Some(vec![]));
        let schedules = schedules_le2(2, base.out.steps + 4);
        let mut seen = std::collections::HashSet::new();
        for (k, sch) in schedules.iter().enumerate() {
            let run = execute(case, &[], Some(sch.clone()));
            let mut ctx = Ctx::default();
            let th = hash_str(&format!("{}{:?}", si, run.out.trace));
            ctx.fingerprint = Some(th);
            let r = oracle(case, &run, &mut ctx);
            if !seen.insert(th) {
                ctx.nontrivial = false;
            }
            if k == 5 {
                ctx.desc = Some(format!("{:?} switches {:?} -> trace {:?}", case, sch, run.out.trace));
            }
            rep.account(ctx);
            if let Err(f) = r {
                let mut bytes = vec![si as u8];
                for (s, t) in sch {
                    bytes.push(*s as u8);
                    bytes.push(*t as u8);
                }
                rep.violations.push(Violation { lane: "exhaustive-le2-preemptions".into(), sig: f.sig, msg: f.msg, bytes, sched: vec![], decoded: format!("{:?} switches {:?}", case, sch) });
                break;
            }
        }
        rep.notes.push(format!("scenario {}: {} schedules, {} distinct interleavings", si, schedules.len(), seen.len()));
    }
    rep.wall_s = start.elapsed().as_secs_f64();
    rep
}

/// Child process: the real install() path.
pub fn child(seed: u64) -> i32 {
    let log = new_log();
    let pre_installed = seed % 2 == 1;
    if pre_installed {
        let other = LogRecorder::new(1, &log);
        if metrics::set_global_recorder(other).is_err() {
            println!("CHILD-FAIL harness could not pre-install");
            return 2;
        }
    }
    let double = LogRecorder::new(7, &log);
    let drops = double.drops.clone();
    // install() runs under the scheduler (one thread): if the failing path never hands the recorder back but spins in
    // into_inner's retry loop, that is a deterministic livelock instead of a child that has to be killed
    let mut installed = None;
    {
        let slot = &mut installed;
        let body: Box<dyn FnOnce() + Send + '_> = Box::new(move || *slot = Some(RecoverableRecorder::new(super::c02::Reentrant(double)).install()));
        let out = sched::explore(&[], SchedOpts { max_steps: 4000, ..Default::default() }, vec![body]);
        if out.livelock || out.budget_exhausted {
            println!("CHILD-FAIL failed-install-never-returns install() over an existing global recorder keeps spinning in into_inner's retry loop instead of handing the recorder back; trace tail {:?}", out.trace.iter().rev().take(4).collect::<Vec<_>>());
            return 1;
        }
        if !out.panics.is_empty() {
            println!("CHILD-FAIL install-panicked {:?}", out.panics);
            return 1;
        }
    }
    let Some(installed) = installed else {
        println!("CHILD-FAIL harness install() did not run");
        return 2;
    };
    match installed {
        Err(e) => {
            if !pre_installed {
                println!("CHILD-FAIL install-failed-without-existing-recorder install() failed although no global recorder existed");
                return 1;
            }
            let back = e.into_inner().0;
            if back.id != 7 || drops.load(Ordering::SeqCst) != 0 {
                println!("CHILD-FAIL failed-install-did-not-return-recorder got id {} drops {}", back.id, drops.load(Ordering::SeqCst));
                return 1;
            }
            drop(back);
            if drops.load(Ordering::SeqCst) != 1 {
                println!("CHILD-FAIL failed-install-recorder-drop-count {}", drops.load(Ordering::SeqCst));
                return 1;
            }
            // the pre-installed recorder still serves
            metrics::counter!("x").increment(1);
            if !log.lock().unwrap().iter().any(|e| e.rec == 1) {
                println!("CHILD-FAIL existing-recorder-displaced");
                return 1;
            }
            println!("CHILD-OK failed install handed the recorder back");
            0
        }
        Ok(handle) => {
            if pre_installed {
                println!("CHILD-FAIL install-succeeded-over-existing-recorder");
                return 1;
            }
            let n = 1 + (seed / 2 % 5) as usize;
            let threads: Vec<_> = (0..n)
                .map(|t| {
                    std::thread::spawn(move || {
                        for i in 0..50 {
                            metrics::counter!("live", "t" => t.to_string()).increment(i);
                        }
                    })
                })
                .collect();
            for t in threads {
                let _ = t.join();
            }
            let regs = log.lock().unwrap().iter().filter(|e| matches!(&e.op, Op::Register { name, .. } if name == "live")).count();
            if regs != n * 50 {
                println!("CHILD-FAIL emission-lost-while-handle-alive {} of {} registrations reached the recorder", regs, n * 50);
                return 1;
            }
            // while the handle is alive the wrapper passes everything on — also an emission the wrapped recorder makes
            // itself, through the macros, from inside one of its own calls (the installed wrapper is re-entered on the
            // same thread), and one made inside a with_recorder closure
            {
                let me = std::thread::current().id();
                let names = |l: &crate::doubles::Log| -> Vec<String> { l.lock().unwrap().iter().filter(|e| e.thread == me).filter_map(|e| match &e.op { Op::Register { name, .. } | Op::Describe { name, .. } => Some(name.clone()), _ => None }).collect() };
                let before = names(&log).len();
                metrics::describe_counter!("nest_me", "d");
                let got: Vec<String> = names(&log)[before..].to_vec();
                if got != ["nested_from_inside_the_recorder", "nest_me"] {
                    println!("CHILD-FAIL emission-lost-while-handle-alive the wrapped recorder emits a counter from inside describe_counter: the recorder received {:?}, expected the nested registration and then the description", got);
                    return 1;
                }
                metrics::with_recorder(|_r| metrics::counter!("inside_with_recorder").increment(1));
                if names(&log).last().map(|s| s.as_str()) != Some("inside_with_recorder") {
                    println!("CHILD-FAIL emission-lost-while-handle-alive an emission made inside a with_recorder closure did not reach the wrapped recorder");
                    return 1;
                }
            }
            let rec = if seed % 4 == 0 {
                drop(handle);
                None
            } else {
                Some(handle.into_inner().0)
            };
            let before = log.lock().unwrap().len();
            metrics::counter!("after").increment(1);
            metrics::describe_counter!("after", "d");
            if log.lock().unwrap().len() != before {
                println!("CHILD-FAIL emission-delivered-after-recovery");
                return 1;
            }
            if let Some(r) = rec {
                if r.id != 7 || drops.load(Ordering::SeqCst) != 0 {
                    println!("CHILD-FAIL into_inner-wrong-recorder id {} drops {}", r.id, drops.load(Ordering::SeqCst));
                    return 1;
                }
                drop(r);
            }
            if drops.load(Ordering::SeqCst) != 1 {
                println!("CHILD-FAIL recorder-not-dropped-exactly-once {}", drops.load(Ordering::SeqCst));
                return 1;
            }
            println!("CHILD-OK installed, {} emitter threads, recovered", n);
            0
        }
    }
}

// ---------------------------------------------------------------- pass-through lane (differential)

/// Generated recorder calls go through the wrapper and, in parallel, straight into a second double: while
/// the handle is alive both doubles must log the same operations; after recovery / handle drop the wrapper's
/// double must log nothing more and handles obtained through the wrapper afterwards must be inert.
pub fn case_passthrough(bytes: &[u8], _s: &[u8], ctx: &mut Ctx) -> Result<(), Fail> {
    use crate::doubles::{decode_call, ops_of, RecCall};
    let mut src = Source::new(bytes);
    let n_alive = 1 + src.below(8);
    let n_after = src.below(5);
    let into_inner = src.bool();
    let calls: Vec<RecCall> = (0..n_alive + n_after).map(|_| decode_call(&mut src)).collect();
    ctx.case(&(n_alive, into_inner, &calls));
    if calls[..n_alive].iter().any(|c| matches!(c, RecCall::Describe { unit: None, desc, .. } if desc.is_empty())) {
        ctx.nontrivial("describe-without-unit-and-text-while-alive");
    }
    if n_after > 0 {
        ctx.nontrivial("calls-after-recovery");
    }
    let (log_w, log_d) = (new_log(), new_log());
    let double = LogRecorder::new(7, &log_w);
    let drops = double.drops.clone();
    let direct = LogRecorder::new(8, &log_d);
    let (wrapped, handle) = RecoverableRecorder::new(double).__verif_build();
    // some calls are made from a destructor that runs while the thread unwinds from a panic (a scope guard
    // reporting a metric): the handle is alive, so they count like any other
    let unwind_mask = src.below(256);
    struct OnDrop<F: FnMut()>(F);
    impl<F: FnMut()> Drop for OnDrop<F> {
        fn drop(&mut self) {
            (self.0)()
        }
    }
    // in a quarter of the cases the caller keeps every handle its register calls return until the case is over
    let retain = src.below(4) == 3;
    // (with kept handles only the handle-drop path is taken here: a library that lets a kept handle hold the recorder
    // would make into_inner() spin for ever; the schedule lane covers that combination, where a livelock is detected)
    let into_inner = into_inner && !retain;
    let kept: std::cell::RefCell<Vec<crate::doubles::KeptHandle>> = Default::default();
    for (i, c) in calls[..n_alive].iter().enumerate() {
        if retain {
            if matches!(c, RecCall::Register { .. }) {
                ctx.nontrivial("metric-handle-kept-across-the-recovery");
            }
            c.apply_keeping(&wrapped, Some(&mut *kept.borrow_mut()));
            c.apply(&direct);
        } else if unwind_mask & (1 << i) != 0 && unwind_mask >= 128 {
            ctx.nontrivial("call-made-while-unwinding");
            let _ = std::panic::catch_unwind(std::panic::AssertUnwindSafe(|| {
                let _g = OnDrop(|| {
                    c.apply(&wrapped);
                    c.apply(&direct);
                });
                std::panic::resume_unwind(Box::new("harness: unwinding past a guard that emits"));
            }));
        } else {
            c.apply(&wrapped);
            c.apply(&direct);
        }
        let (w, d) = (ops_of(&log_w), ops_of(&log_d));
        ensure!(w == d, "emission-while-alive-not-passed-through", "call {} ({:?}) through the wrapper, handle alive: the wrapped recorder logged {:?}, a recorder called directly logs {:?}", i, c, w.iter().skip(d.len().min(w.len()).saturating_sub(3)).collect::<Vec<_>>(), d.iter().skip(d.len().saturating_sub(3)).collect::<Vec<_>>());
    }
    let before = log_w.lock().unwrap().len();
    if into_inner {
        let rec = handle.into_inner();
        ensure!(rec.id == 7, "into_inner-returned-another-recorder", "id {}", rec.id);
        ensure!(drops.load(Ordering::SeqCst) == 0, "recorder-dropped-before-hand-back", "into_inner returned a recorder whose destructor already ran");
        for c in &calls[n_alive..] {
            c.apply(&wrapped);
        }
        ensure!(log_w.lock().unwrap().len() == before, "emission-delivered-after-recovery", "calls through the wrapper after into_inner() reached the recorder: {:?}", ops_of(&log_w).into_iter().skip(before).collect::<Vec<_>>());
        drop(rec);
    } else {
        drop(handle);
        ensure!(drops.load(Ordering::SeqCst) == 1, "recorder-not-dropped-exactly-once", "after the handle drop (no call in flight) the recorder was dropped {} times", drops.load(Ordering::SeqCst));
        for c in &calls[n_alive..] {
            c.apply(&wrapped);
        }
        ensure!(log_w.lock().unwrap().len() == before, "emission-delivered-after-recovery", "calls through the wrapper after the handle was dropped reached the recorder or its handles: {:?}", ops_of(&log_w).into_iter().skip(before).collect::<Vec<_>>());
    }
    drop(wrapped);
    ensure!(drops.load(Ordering::SeqCst) == 1, "recorder-not-dropped-exactly-once", "dropped {} times", drops.load(Ordering::SeqCst));
    drop(kept);
    Ok(())
}

/// Free-running stress: emitters hammer the wrapper while the owner recovers.
fn stress(pr: &PropRun) -> LaneReport {
    let start = std::time::Instant::now();
    let mut rep = LaneReport::named("stress-recover-under-load");
    let rounds = pr.cfg.cases(1_500, 100_000);
    let mut problem: Option<(String, String)> = None;
    for round in 0..rounds {
        let log = new_log();
        let double = LogRecorder::new(7, &log);
        let drops = double.drops.clone();
        let inside = double.inside.clone();
        let (wrapped, handle) = RecoverableRecorder::new(double).__verif_build();
        let stop = std::sync::atomic::AtomicBool::new(false);
        let into_inner = round % 3 != 0;
        let mut bad: Option<(String, String)> = None;
        std::thread::scope(|s| {
            for t in 0..3 {
                let (wrapped, stop) = (&wrapped, &stop);
                s.spawn(move || {
                    let key = Key::from_name(format!("k{}", t));
                    while !stop.load(Ordering::Acquire) {
                        wrapped.register_counter(&key, &META).increment(1);
                    }
                });
            }
            for _ in 0..(round % 50) * 20 {
                std::hint::spin_loop();
            }
            // whatever happens below, the emitters are told to stop (a panic in into_inner must become a
            // reported violation, not a scope that waits for ever)
            struct StopOnDrop<'a>(&'a std::sync::atomic::AtomicBool);
            impl Drop for StopOnDrop<'_> {
                fn drop(&mut self) {
                    self.0.store(true, Ordering::Release);
                }
            }
            let _stop_guard = StopOnDrop(&stop);
            if into_inner {
                let rec = match std::panic::catch_unwind(std::panic::AssertUnwindSafe(|| handle.into_inner())) {
                    Ok(r) => r,
                    Err(p) => {
                        bad = Some(("into_inner-panicked".into(), format!("into_inner() panicked under concurrent emission instead of returning the recorder: {}", crate::engine::runner::panic_message(&*p))));
                        return;
                    }
                };
                let ins = inside.load(Ordering::SeqCst);
                if ins != 0 {
                    bad = Some(("into_inner-returned-while-call-inside".into(), format!("{} calls inside the recorder when into_inner returned", ins)));
                }
                let before = log.lock().unwrap().len();
                std::thread::yield_now();
                let after = log.lock().unwrap().iter().filter(|e| matches!(e.op, Op::Register { .. })).count();
                let before_regs = log.lock().unwrap().iter().take(before).filter(|e| matches!(e.op, Op::Register { .. })).count();
                if after != before_regs {
                    bad = Some(("emission-delivered-after-recovery".into(), "registrations reached the recorder after into_inner returned".into()));
                }
                drop(rec);
            } else {
                drop(handle);
            }
            stop.store(true, Ordering::Release);
        });
        drop(wrapped);
        if bad.is_none() && drops.load(Ordering::SeqCst) != 1 {
            bad = Some(("recorder-not-dropped-exactly-once".into(), format!("dropped {} times", drops.load(Ordering::SeqCst))));
        }
        if bad.is_none() && log.lock().unwrap().iter().any(|e| e.finalized && matches!(e.op, Op::Register { .. })) {
            bad = Some(("call-after-finalisation".into(), "a registration entered the recorder after its drop began".into()));
        }
        let mut ctx = Ctx::default();
        ctx.fingerprint = Some(round);
        ctx.nontrivial("recovery-under-free-running-load");
        if round == 0 {
            ctx.desc = Some("3 free-running emitter threads through the wrapper; owner calls into_inner()/drops the handle after a short spin".into());
        }
        rep.account(ctx);
        if bad.is_some() {
            problem = bad;
            break;
        }
    }
    if let Some((sig, msg)) = problem {
        rep.violations.push(Violation { lane: "stress-recover-under-load".into(), sig, msg, bytes: vec![], sched: vec![], decoded: "free-running threads (not deterministically replayable)".into() });
    }
    rep.wall_s = start.elapsed().as_secs_f64();
    rep
}

/// Recorder double whose every call waits inside until released: lets any number of emissions be in flight at once.
struct Gate {
    entered: std::sync::Arc<std::sync::atomic::AtomicUsize>,
    release: std::sync::Arc<std::sync::atomic::AtomicBool>,
    drops: std::sync::Arc<std::sync::atomic::AtomicUsize>,
}
impl Gate {
    fn wait(&self) {
        self.entered.fetch_add(1, Ordering::SeqCst);
        while !self.release.load(Ordering::Acquire) {
            std::thread::sleep(std::time::Duration::from_micros(200));
        }
    }
}
impl Drop for Gate {
    fn drop(&mut self) {
        self.drops.fetch_add(1, Ordering::SeqCst);
    }
}
impl Recorder for Gate {
    fn describe_counter(&self, _: metrics::KeyName, _: Option<metrics::Unit>, _: metrics::SharedString) {
        self.wait()
    }
    fn describe_gauge(&self, _: metrics::KeyName, _: Option<metrics::Unit>, _: metrics::SharedString) {
        self.wait()
    }
    fn describe_histogram(&self, _: metrics::KeyName, _: Option<metrics::Unit>, _: metrics::SharedString) {
        self.wait()
    }
    fn register_counter(&self, _: &Key, _: &Metadata<'_>) -> metrics::Counter {
        self.wait();
        metrics::Counter::noop()
    }
    fn register_gauge(&self, _: &Key, _: &Metadata<'_>) -> metrics::Gauge {
        self.wait();
        metrics::Gauge::noop()
    }
    fn register_histogram(&self, _: &Key, _: &Metadata<'_>) -> metrics::Histogram {
        self.wait();
        metrics::Histogram::noop()
    }
}

/// N emissions (N up to a few hundred, every Recorder method) are inside the wrapped recorder at the same time while the
/// recovery handle is alive: every one of them must have reached it, whatever N is.
fn many_in_flight(pr: &PropRun) -> LaneReport {
    use std::sync::{atomic::{AtomicBool, AtomicUsize}, Arc};
    let start = std::time::Instant::now();
    let mut rep = LaneReport::named("many-in-flight");
    let sizes: &[usize] = if pr.cfg.cases(1, 2) == 1 { &[2, 17, 31, 32, 33, 34, 63, 64, 65, 100, 129, 256] } else { &[2, 3, 5, 9, 17, 31, 32, 33, 34, 48, 63, 64, 65, 100, 127, 128, 129, 200, 255, 256, 257, 400, 512] };
    let mut problem: Option<(String, String)> = None;
    let mut inconclusive = false;
    for (round, &n) in sizes.iter().enumerate() {
        let (entered, release, drops) = (Arc::new(AtomicUsize::new(0)), Arc::new(AtomicBool::new(false)), Arc::new(AtomicUsize::new(0)));
        let (wrapped, handle) = RecoverableRecorder::new(Gate { entered: entered.clone(), release: release.clone(), drops: drops.clone() }).__verif_build();
        let returned = AtomicUsize::new(0);
        let mut bad: Option<(String, String)> = None;
        std::thread::scope(|s| {
            for t in 0..n {
                let (wrapped, returned) = (&wrapped, &returned);
                s.spawn(move || {
                    let key = Key::from_name(format!("k{}", t));
                    match t % 6 {
                        0 => drop(wrapped.register_counter(&key, &META)),
                        1 => drop(wrapped.register_gauge(&key, &META)),
                        2 => drop(wrapped.register_histogram(&key, &META)),
                        3 => wrapped.describe_counter(format!("k{}", t).into(), None, "d".into()),
                        4 => wrapped.describe_gauge(format!("k{}", t).into(), None, "d".into()),
                        _ => wrapped.describe_histogram(format!("k{}", t).into(), None, "d".into()),
                    }
                    returned.fetch_add(1, Ordering::SeqCst);
                });
            }
            // every emission is either waiting inside the recorder or has come back without reaching it
            let deadline = std::time::Instant::now() + std::time::Duration::from_secs(60);
            while entered.load(Ordering::SeqCst) + returned.load(Ordering::SeqCst) < n && std::time::Instant::now() < deadline {
                std::thread::sleep(std::time::Duration::from_micros(500));
            }
            let (e, r) = (entered.load(Ordering::SeqCst), returned.load(Ordering::SeqCst));
            if e + r < n {
                inconclusive = true;
            } else if e != n {
                bad = Some(("emission-lost-while-handle-alive".into(), format!("{} emissions issued concurrently through the wrapper while the recovery handle is alive: only {} reached the wrapped recorder, {} came back without reaching it", n, e, n - e)));
            }
            release.store(true, Ordering::Release);
        });
        let rec = handle.into_inner();
        if bad.is_none() && !inconclusive && drops.load(Ordering::SeqCst) != 0 {
            bad = Some(("recorder-dropped-before-recovery".into(), format!("dropped {} times before into_inner returned it", drops.load(Ordering::SeqCst))));
        }
        drop(rec);
        drop(wrapped);
        if bad.is_none() && !inconclusive && drops.load(Ordering::SeqCst) != 1 {
            bad = Some(("recorder-not-dropped-exactly-once".into(), format!("dropped {} times", drops.load(Ordering::SeqCst))));
        }
        let mut ctx = Ctx::default();
        ctx.fingerprint = Some(round as u64);
        ctx.nontrivial("many-emissions-in-flight");
        if round == 0 {
            ctx.desc = Some(format!("N threads each make one emission (all six Recorder methods) through the wrapper into a recorder that holds them inside until all N are accounted for; N over {:?}", sizes));
        }
        rep.account(ctx);
        if inconclusive {
            println!("harness: many-in-flight with {} threads did not settle within 60 s: inconclusive, not asserted", n);
            break;
        }
        if bad.is_some() {
            problem = bad;
            break;
        }
    }
    if let Some((sig, msg)) = problem {
        rep.violations.push(Violation { lane: "many-in-flight".into(), sig, msg, bytes: vec![], sched: vec![], decoded: "free-running threads held inside the recorder (deterministic outcome; not a byte replay)".into() });
    }
    rep.wall_s = start.elapsed().as_secs_f64();
    rep
}

pub fn run(cfg: &RunCfg, replay: Option<&str>) -> i32 {
    let mut pr = PropRun::new("C20", cfg, RULE);
    pr.register("schedules", &case_sched);
    pr.register("exhaustive-le2-preemptions", &case_exhaustive_replay);
    pr.register("pass-through", &case_passthrough);
    let child_replay = |b: &[u8], _s: &[u8], ctx: &mut Ctx| -> Result<(), Fail> {
        ctx.case(&("child process", b));
        crate::engine::child::replay_child("C20", b)
    };
    pr.register("install-processes", &child_replay);
    if let Some(f) = replay {
        return pr.replay(f);
    }
    pr.assume("SC interleavings at the wrapper's upgrade point, the into_inner retry loop and the double's enter/exit yields");
    pr.assume("after a handle drop, an emission that starts while an earlier call is still in flight (and so still owns the recorder) may reach it; emissions starting once no call is in flight must be ignored");
    pr.assume("handles obtained from the wrapped recorder before recovery are the recorder's own and are not required to become inert");
    let r = pr.run_regressions();
    pr.push(r);
    let c = pr.cfg.clone();
    let r = run_lane(&c, "C20", &Lane { name: "schedules", cases: c.cases(1_000_000, 10_000_000), max_len: 16, sched_len: 64, workers: 0, f: &case_sched });
    pr.push(r);
    let r = exhaustive(&pr);
    pr.push(r);
    let r = run_lane(&c, "C20", &Lane { name: "pass-through", cases: c.cases(300_000, 6_000_000), max_len: 200, sched_len: 0, workers: 0, f: &case_passthrough });
    pr.push(r);
    let r = stress(&pr);
    pr.push(r);
    let r = many_in_flight(&pr);
    pr.push(r);
    let r = crate::engine::child::run_children(&pr, "C20", "install-processes", pr.cfg.cases(32, 1000), |seed| format!("install() {} an existing global recorder", if seed % 2 == 1 { "over" } else { "without" }));
    pr.push(r);
    pr.finish()
}
