use crate::engine::runner::RunCfg;

pub mod c03;
pub mod c05;
pub mod c16;

pub type RunFn = fn(&RunCfg, Option<&str>) -> i32;

pub fn all() -> Vec<(&'static str, RunFn)> {
    vec![("C03", c03::run as RunFn), ("C16", c16::run as RunFn), ("C05", c05::run as RunFn)]
}
