use crate::engine::runner::RunCfg;

pub mod c03;

pub type RunFn = fn(&RunCfg, Option<&str>) -> i32;

pub fn all() -> Vec<(&'static str, RunFn)> {
    vec![("C03", c03::run as RunFn)]
}
