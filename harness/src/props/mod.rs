use crate::engine::runner::RunCfg;

pub mod c01;
pub mod c02;
pub mod c03;
pub mod c04;
pub mod c05;
pub mod c06;
pub mod c07;
pub mod c08;
pub mod c09;
pub mod c10;
pub mod c10_e2e;
pub mod c11;
pub mod c12;
pub mod c13;
pub mod c14;
pub mod c15;
pub mod c16;
pub mod c17;
pub mod c18;
pub mod c19;
pub mod c20;

pub type RunFn = fn(&RunCfg, Option<&str>) -> i32;

pub fn all() -> Vec<(&'static str, RunFn)> {
    vec![("C03", c03::run as RunFn), ("C16", c16::run as RunFn), ("C05", c05::run as RunFn), ("C02", c02::run as RunFn), ("C20", c20::run as RunFn), ("C09", c09::run as RunFn), ("C10", c10::run as RunFn), ("C08", c08::run as RunFn), ("C07", c07::run as RunFn), ("C12", c12::run as RunFn), ("C15", c15::run as RunFn), ("C13", c13::run as RunFn), ("C14", c14::run as RunFn), ("C19", c19::run as RunFn), ("C06", c06::run as RunFn), ("C04", c04::run as RunFn), ("C17", c17::run as RunFn), ("C01", c01::run as RunFn), ("C18", c18::run as RunFn), ("C11", c11::run as RunFn)]
}

/// Entry point of child processes (`harness <ID> --child <seed>`).
pub fn child(id: &str, seed: u64) -> i32 {
    match id {
        "C02" => c02::child(seed),
        "C20" => c20::child(seed),
        "C10" => c10_e2e::child(seed),
        "C06" => c06::child(seed),
        "C01" => c01::child(seed),
        "C11" => c11::child(seed),
        _ => {
            eprintln!("no child mode for {}", id);
            2
        }
    }
}

/// Case functions exposed to the libFuzzer targets (same decoder, same oracle).
pub fn fuzz_entry(id: &str, lane: &str) -> Option<&'static crate::engine::runner::CaseFn<'static>> {
    match (id, lane) {
        ("C03", "triples") => Some(&c03::case_triples),
        ("C08", "renders") => Some(&c08::case_render),
        ("C09", "writer-sequences") => Some(&c09::case_writer),
        ("C13", "layer-trees") => Some(&c13::case_layers),
        ("C14", "ops") => Some(&c14::case_tracked),
        ("C15", "histogram-storage") => Some(&c15::case_hist),
        ("C15", "matchers") => Some(&c15::case_match),
        ("C15", "rolling-summary") => Some(&c15::case_roll),
        _ => None,
    }
}
