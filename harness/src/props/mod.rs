use crate::engine::runner::RunCfg;

pub mod c01;
pub mod c02;
pub mod c03;
pub mod c04;
pub mod c05;
pub mod c06;
pub mod c07;
pub mod c08;
pub mod c09;
pub mod c10;
pub mod c10_e2e;
pub mod c11;
pub mod c12;
pub mod c13;
pub mod c14;
pub mod c15;
pub mod c16;
pub mod c17;
pub mod c18;
pub mod c19;
pub mod c20;

pub type RunFn = fn(&RunCfg, Option<&str>) -> i32;

pub fn all() -> Vec<(&'static str, RunFn)> {
    vec![("C03", c03::run as RunFn), ("C16", c16::run as RunFn), ("C05", c05::run as RunFn), ("C02", c02::run as RunFn), ("C20", c20::run as RunFn), ("C09", c09::run as RunFn), ("C10", c10::run as RunFn), ("C08", c08::run as RunFn), ("C07", c07::run as RunFn), ("C12", c12::run as RunFn), ("C15", c15::run as RunFn), ("C13", c13::run as RunFn), ("C14", c14::run as RunFn), ("C19", c19::run as RunFn), ("C06", c06::run as RunFn), ("C04", c04::run as RunFn), ("C17", c17::run as RunFn), ("C01", c01::run as RunFn), ("C18", c18::run as RunFn), ("C11", c11::run as RunFn)]
}

/// Entry point of child processes (`harness <ID> --child <seed>`).
pub fn child(id: &str, seed: u64) -> i32 {
    match id {
        "C02" => c02::child(seed),
        "C20" => c20::child(seed),
        "C10" => c10_e2e::child(seed),
        "C06" => c06::child(seed),
        "C01" => c01::child(seed),
        "C11" => c11::child(seed),
        _ => {
            eprintln!("no child mode for {}", id);
            2
        }
    }
}

/// Case functions exposed to the libFuzzer targets (same decoder, same oracle).
pub fn fuzz_entry(id: &str, lane: &str) -> Option<&'static crate::engine::runner::CaseFn<'static>> {
    match (id, lane) {
        ("C02", "cell-schedules") => Some(&c02::case_sched),
        ("C03", "triples") => Some(&c03::case_triples),
        ("C03", "hash-race") => Some(&c03::case_race),
        ("C04", "sequences") => Some(&c04::case_seq),
        ("C04", "threads-op-granularity") => Some(&c04::case_threads),
        ("C05", "schedules") => Some(&c05::case_sched),
        ("C05", "histogram-entry-point") => Some(&c05::case_histogram_entry),
        ("C06", "sequential") => Some(&c06::case_seq),
        ("C06", "concurrent") => Some(&c06::case_conc),
        ("C06", "custom-key-colliding-hashes") => Some(&c06::case_custom_key),
        ("C07", "histories") => Some(&c07::case_seq),
        ("C07", "schedules") => Some(&c07::case_sched),
        ("C08", "renders") => Some(&c08::case_render),
        ("C09", "writer-sequences") => Some(&c09::case_writer),
        ("C10", "sequential-model") => Some(&c10::case_seq),
        ("C10", "schedules") => Some(&c10::case_sched),
        ("C12", "recency-direct") => Some(&c12::case_direct),
        ("C12", "prometheus-mock-clock") => Some(&c12::case_prom),
        ("C13", "layer-trees") => Some(&c13::case_layers),
        ("C14", "ops") => Some(&c14::case_tracked),
        ("C15", "histogram-storage") => Some(&c15::case_hist),
        ("C15", "matchers") => Some(&c15::case_match),
        ("C15", "rolling-summary") => Some(&c15::case_roll),
        ("C15", "quantile-configs") => Some(&c15::case_quantile_cfg),
        ("C16", "sequential") => Some(&c16::case_seq),
        ("C16", "concurrent") => Some(&c16::case_conc),
        ("C16", "through-the-exporter") => Some(&c16::case_exporter),
        ("C17", "span-trees") => Some(&c17::case_spans),
        ("C19", "direct-histories") => Some(&c19::case_direct),
        ("C19", "schedules") => Some(&c19::case_sched),
        ("C20", "schedules") => Some(&c20::case_sched),
        ("C20", "pass-through") => Some(&c20::case_passthrough),
        _ => None,
    }
}
