//! C10 socket lane: a built DogStatsD exporter sending to harness-owned sockets (one case per
//! child process, because every built exporter leaks its forwarder thread).

use std::{
    collections::HashMap,
    io::Read,
    net::UdpSocket,
    os::unix::net::{UnixDatagram, UnixListener},
    sync::{Arc, Mutex},
    time::{Duration, Instant},
};

use metrics::{Key, Label, Level, Metadata, Recorder};
use metrics_exporter_dogstatsd::{AggregationMode, DogStatsDBuilder};

use crate::{
    engine::{
        report::PropRun,
        runner::{Ctx, Fail, LaneReport},
    },
    parsers::{parse_dsd_message, DsdMessage},
};

static META: Metadata<'static> = Metadata::new("c10e2e", Level::INFO, None);

pub fn register(pr: &mut PropRun) {
    fn replay(b: &[u8], _s: &[u8], ctx: &mut Ctx) -> Result<(), Fail> {
        ctx.case(&("child process", b));
        crate::engine::child::replay_child("C10", b)
    }
    pr.register("e2e-sockets", &replay);
}

pub fn lane(pr: &PropRun) -> LaneReport {
    crate::engine::child::run_children(pr, "C10", "e2e-sockets", pr.cfg.cases(24, 600), |seed| describe(seed))
}

fn describe(seed: u64) -> String {
    let transport = ["unix stream (length-prefixed)", "unixgram", "udp"][(seed % 3) as usize];
    format!(
        "transport {}, mode {}, prefix {}, {} phases, histogram sampling {}, telemetry {}",
        transport,
        if seed / 3 % 2 == 0 { "Conservative" } else { "Aggressive" },
        seed / 6 % 2 == 1,
        2 + seed / 12 % 2,
        ["builder default", "off", "on with reservoir 4", "on with reservoir 4096"][(seed / 5 % 4) as usize],
        seed / 7 % 3 == 0
    )
}

fn fail(sig: &str, msg: String) -> i32 {
    println!("CHILD-FAIL {} {}", sig, msg.replace('\n', " "));
    1
}

pub fn child(seed: u64) -> i32 {
    // every exit path (also the failing ones) leaves no socket directory behind in the temp dir
    let rc = child_inner(seed);
    let _ = std::fs::remove_dir_all(std::env::temp_dir().join(format!("verif-c10-{}-{}", std::process::id(), seed)));
    rc
}

fn child_inner(seed: u64) -> i32 {
    let transport = seed % 3;
    let aggressive = seed / 3 % 2 == 1;
    let with_prefix = seed / 6 % 2 == 1;
    let phases = 2 + (seed / 12 % 2) as usize;
    let distributions = seed / 24 % 2 == 1;
    let dir = std::env::temp_dir().join(format!("verif-c10-{}-{}", std::process::id(), seed));
    let _ = std::fs::create_dir_all(&dir);
    let path = dir.join("agent.sock");
    let received: Arc<Mutex<Vec<Vec<u8>>>> = Arc::new(Mutex::new(vec![])); // frames (stream) or datagrams
    let stream_bytes: Arc<Mutex<Vec<u8>>> = Arc::new(Mutex::new(vec![]));
    let addr: String;
    match transport {
        0 => {
            let l = match UnixListener::bind(&path) {
                Ok(l) => l,
                Err(e) => {
                    println!("harness: cannot bind {:?}: {}", path, e);
                    return 2;
                }
            };
            addr = format!("unix://{}", path.display());
            let sb = stream_bytes.clone();
            std::thread::spawn(move || {
                for conn in l.incoming() {
                    let Ok(mut c) = conn else { break };
                    let mut buf = [0u8; 65536];
                    loop {
                        match c.read(&mut buf) {
                            Ok(0) | Err(_) => break,
                            Ok(n) => sb.lock().unwrap().extend_from_slice(&buf[..n]),
                        }
                    }
                }
            });
        }
        1 => {
            let s = match UnixDatagram::bind(&path) {
                Ok(s) => s,
                Err(e) => {
                    println!("harness: cannot bind {:?}: {}", path, e);
                    return 2;
                }
            };
            addr = format!("unixgram://{}", path.display());
            let r = received.clone();
            std::thread::spawn(move || {
                let mut buf = vec![0u8; 70000];
                while let Ok(n) = s.recv(&mut buf) {
                    r.lock().unwrap().push(buf[..n].to_vec());
                }
            });
        }
        _ => {
            let s = match UdpSocket::bind("127.0.0.1:0") {
                Ok(s) => s,
                Err(e) => {
                    println!("harness: cannot bind udp: {}", e);
                    return 2;
                }
            };
            addr = format!("{}", s.local_addr().unwrap());
            let r = received.clone();
            std::thread::spawn(move || {
                let mut buf = vec![0u8; 70000];
                while let Ok(n) = s.recv(&mut buf) {
                    r.lock().unwrap().push(buf[..n].to_vec());
                }
            });
        }
    }
    let interval = Duration::from_millis(25);
    let mut b = match DogStatsDBuilder::default().with_remote_address(addr.as_str()) {
        Ok(b) => b,
        Err(e) => return fail("builder-rejects-address", format!("{:?}: {}", addr, e)),
    };
    // histogram sampling: builder default (on, 1024), off, on with a tiny reservoir, on with a large one
    let sampling_mode = seed / 5 % 4;
    let telemetry = seed / 7 % 3 == 0;
    b = match sampling_mode {
        0 => b,
        1 => b.with_histogram_sampling(false),
        2 => b.with_histogram_sampling(true).with_histogram_reservoir_size(4),
        _ => b.with_histogram_sampling(true).with_histogram_reservoir_size(4096),
    };
    b = b
        .with_telemetry(telemetry)
        .with_flush_interval(interval)
        .with_aggregation_mode(if aggressive { AggregationMode::Aggressive } else { AggregationMode::Conservative })
        .send_histograms_as_distributions(distributions)
        .with_global_labels(vec![Label::new("env", "test")]);
    if with_prefix {
        b = b.set_global_prefix("pfx");
    }
    if seed / 48 % 2 == 1 {
        // a small payload limit makes histogram value lists split over several payloads
        b = match b.with_maximum_payload_length(96) {
            Ok(b) => b,
            Err(e) => return fail("builder-rejects-payload-length", format!("{}", e)),
        };
    }
    // With telemetry on the exporter is installed as the process's global recorder (this is a child process):
    // its own telemetry handles are created through the macros on the forwarder thread and only exist then.
    // Otherwise it is built and driven directly.
    #[derive(Clone)]
    struct Rec(Option<Arc<metrics_exporter_dogstatsd::DogStatsDRecorder>>);
    impl Rec {
        fn with<T>(&self, f: impl FnOnce(&dyn Recorder) -> T) -> T {
            match &self.0 {
                Some(r) => f(&**r),
                None => metrics::with_recorder(|r| f(r)),
            }
        }
    }
    let rec = if telemetry {
        match b.install() {
            Ok(()) => Rec(None),
            Err(e) => return fail("exporter-does-not-build", format!("install(): {}", e)),
        }
    } else {
        match b.build() {
            Ok(r) => Rec(Some(Arc::new(r))),
            Err(e) => return fail("exporter-does-not-build", format!("{}", e)),
        }
    };
    // script
    let mut total_inc = [0u64; 2];
    let mut last_gauge = 0.0f64;
    let mut tags: Vec<u32> = vec![];
    let mut next_tag = 1u32;
    for phase in 0..phases {
        let per_thread = 20 + (seed as usize % 7) * 13 + phase * 5;
        let hs: Vec<_> = (0..2usize)
            .map(|t| {
                let rec = rec.clone();
                std::thread::spawn(move || {
                    for i in 0..per_thread {
                        rec.with(|r| r.register_counter(&Key::from_name(format!("ci{}", (t + i) % 2)), &META)).increment(1 + (i as u64 % 3));
                    }
                })
            })
            .collect();
        for t in 0..2usize {
            for i in 0..per_thread {
                total_inc[(t + i) % 2] += 1 + (i as u64 % 3);
            }
        }
        for i in 0..(10 + phase * 7) {
            rec.with(|r| r.register_histogram(&Key::from_parts("h", vec![Label::new("own", "l")]), &META)).record(next_tag as f64);
            tags.push(next_tag);
            next_tag += 1;
            last_gauge = (phase * 100 + i) as f64 + 0.5;
            rec.with(|r| r.register_gauge(&Key::from_name("g"), &META)).set(last_gauge);
        }
        for h in hs {
            let _ = h.join();
        }
        std::thread::sleep(interval * (2 + (seed % 3) as u32));
    }
    // collect until the expected totals are reached (bounded liveness), then a short quiet period
    let deadline = Instant::now() + Duration::from_secs(25);
    // with sampling on the histogram lives in a reservoir: C10 promises every recorded value only "with sampling
    // off", and a record() that straddles a flush of the reservoir can lose its value (C16's recorded finding
    // push-lost-when-drain-resets-count). Completeness of the histogram is then waited for only this long after
    // everything else has arrived; what did arrive is checked as before.
    let mut others_complete_since: Option<Instant> = None;
    let name = |n: &str| if with_prefix { format!("pfx.{}", n) } else { n.to_string() };
    loop {
        std::thread::sleep(interval * 3);
        let msgs = match decode_all(transport, &received, &stream_bytes) {
            Ok(m) => m,
            Err(e) => return fail(&e.0, e.1),
        };
        let mut sums: HashMap<String, u64> = HashMap::new();
        let mut hist: HashMap<u32, u32> = HashMap::new();
        let mut gauge_last: Option<f64> = None;
        let mut sampled_messages = 0usize;
        let mut telemetry_messages = 0usize;
        let tags_total = tags.len();
        for m in &msgs {
            if telemetry && m.name.starts_with("datadog.dogstatsd.client.") {
                // the exporter's own telemetry (documented, enabled by default, always under this namespace): not
                // part of the accounting, but counters like any other as far as the timestamp rule goes
                if m.mtype != "c" {
                    return fail("wrong-type", format!("telemetry message {:?}", m));
                }
                if m.timestamp.is_some() != aggressive {
                    return fail("timestamp-mode-mismatch", format!("mode {} but the telemetry counter {:?} has timestamp {:?}", if aggressive { "Aggressive" } else { "Conservative" }, m.name, m.timestamp));
                }
                telemetry_messages += 1;
                continue;
            }
            match m.mtype.as_str() {
                "c" => {
                    if m.timestamp.is_some() != aggressive {
                        return fail("timestamp-mode-mismatch", format!("mode {} but counter message timestamp {:?}", if aggressive { "Aggressive" } else { "Conservative" }, m.timestamp));
                    }
                    let Ok(v) = m.values[0].parse::<u64>() else { return fail("bad-value", format!("{:?}", m)) };
                    *sums.entry(m.name.clone()).or_insert(0) += v;
                }
                "g" => {
                    if m.timestamp.is_some() != aggressive {
                        return fail("timestamp-mode-mismatch", format!("gauge message timestamp {:?}", m.timestamp));
                    }
                    gauge_last = m.values[0].parse().ok();
                }
                "h" | "d" => {
                    if (m.mtype == "d") != distributions {
                        return fail("wrong-type", format!("histograms_as_distributions={} but got type {}", distributions, m.mtype));
                    }
                    let exp_tags = Some(vec![("env".to_string(), Some("test".to_string())), ("own".to_string(), Some("l".to_string()))]);
                    if m.tags != exp_tags {
                        return fail("wrong-tags", format!("{:?}", m.tags));
                    }
                    for v in &m.values {
                        *hist.entry(v.parse::<f64>().unwrap_or(-1.0) as u32).or_insert(0) += 1;
                    }
                    match m.sample_rate.as_deref().map(|r| r.parse::<f64>().unwrap_or(f64::NAN)) {
                        None => {}
                        Some(r) if sampling_mode == 2 && r > 0.0 && r < 1.0 => {
                            sampled_messages += 1;
                            // values / rate = number of values recorded in that flush window: a whole number no
                            // larger than everything recorded
                            let pushed = m.values.len() as f64 / r;
                            if (pushed - pushed.round()).abs() > 1e-6 * pushed || pushed.round() as usize > tags_total {
                                return fail("sample-rate-wrong", format!("message with {} values and sample rate {} implies {} recorded values ({} were recorded in all)", m.values.len(), r, pushed, tags_total));
                            }
                        }
                        Some(r) if r == 1.0 => {}
                        Some(r) => return fail("sample-rate-without-sampling", format!("histogram message carries sample rate {} but {}", r, if sampling_mode == 2 { "it is not a proper fraction" } else { "the configured reservoir holds every recorded value" })),
                    }
                    if sampling_mode == 2 && m.values.len() > 4 {
                        return fail("more-than-capacity", format!("reservoir size 4 but one flush sent {} values of a histogram: {:?}", m.values.len(), m.values));
                    }
                }
                _ => return fail("wrong-type", format!("{:?}", m)),
            }
            if !(m.name == name("ci0") || m.name == name("ci1") || m.name == name("g") || m.name == name("h")) {
                return fail("wrong-name", format!("unexpected metric name {:?}", m.name));
            }
        }
        for (t, n) in hist.iter() {
            if *n > 1 {
                return fail("histogram-value-sent-twice", format!("value {} received {} times", t, n));
            }
        }
        for i in 0..2 {
            let got = sums.get(&name(&format!("ci{}", i))).copied().unwrap_or(0);
            if got > total_inc[i] {
                return fail("delta-exceeds-increments", format!("ci{} received {} > incremented {}", i, got, total_inc[i]));
            }
        }
        let others_complete = (0..2).all(|i| sums.get(&name(&format!("ci{}", i))).copied().unwrap_or(0) == total_inc[i]) && gauge_last.map(|g| g == last_gauge).unwrap_or(false);
        if others_complete && others_complete_since.is_none() {
            others_complete_since = Some(Instant::now());
        }
        let hist_complete = if sampling_mode == 2 {
            // more than 4 values are recorded back to back in every phase, so at least one flush must have sampled
            sampled_messages >= 1 && hist.len() < tags.len()
        } else if sampling_mode == 1 {
            tags.iter().all(|t| hist.contains_key(t))
        } else {
            let missing = tags.iter().filter(|t| !hist.contains_key(t)).count();
            let waited = others_complete_since.map(|t| t.elapsed() > Duration::from_secs(3)).unwrap_or(false);
            if missing > 0 && waited {
                println!("harness: {} of {} histogram values did not arrive with sampling on (reservoir storage): not asserted by C10", missing, tags.len());
            }
            missing == 0 || waited
        };
        if hist.keys().any(|t| !tags.contains(t)) {
            return fail("sampled-value-not-recorded", format!("histogram values received that were never recorded: {:?}", hist.keys().filter(|t| !tags.contains(t)).collect::<Vec<_>>()));
        }
        // telemetry is documented to be sent when enabled: wait for some of it as well
        // (not under the 96-byte payload limit: the telemetry lines with their client tags do not fit it and are dropped)
        let hist_complete = hist_complete && (!telemetry || seed / 48 % 2 == 1 || telemetry_messages > 0);
        let complete = (0..2).all(|i| sums.get(&name(&format!("ci{}", i))).copied().unwrap_or(0) == total_inc[i]) && hist_complete && gauge_last.map(|g| g == last_gauge).unwrap_or(false);
        if complete {
            println!("CHILD-OK {} messages over {}", msgs.len(), describe(seed));
            let _ = std::fs::remove_dir_all(&dir);
            return 0;
        }
        if Instant::now() > deadline && std::env::var("VERIF_C10_DEBUG").is_ok() {
            let mut names: std::collections::BTreeMap<String, usize> = Default::default();
            for m in &msgs {
                *names.entry(format!("{}|{}", m.name, m.mtype)).or_insert(0) += 1;
            }
            eprintln!("C10 debug: messages by name {:?}", names);
        }
        if Instant::now() > deadline {
            let _ = std::fs::remove_dir_all(&dir);
            if transport == 2 {
                // UDP may legitimately lose datagrams: inconclusive, not a violation
                println!("harness: udp shortfall after deadline (datagram loss is possible)");
                return 2;
            }
            return fail(
                "e2e-not-delivered-within-deadline",
                format!(
                    "after 25 s: counters received {:?} expected {:?}; histogram values {} of {}; last gauge {:?} expected {}",
                    (0..2).map(|i| sums.get(&name(&format!("ci{}", i))).copied().unwrap_or(0)).collect::<Vec<_>>(),
                    total_inc,
                    tags.iter().filter(|t| hist.contains_key(t)).count(),
                    tags.len(),
                    gauge_last,
                    last_gauge
                ),
            );
        }
    }
}

fn decode_all(transport: u64, received: &Arc<Mutex<Vec<Vec<u8>>>>, stream_bytes: &Arc<Mutex<Vec<u8>>>) -> Result<Vec<DsdMessage>, (String, String)> {
    let mut out = vec![];
    if transport == 0 {
        let bytes = stream_bytes.lock().unwrap().clone();
        let mut i = 0;
        while i + 4 <= bytes.len() {
            let n = u32::from_le_bytes([bytes[i], bytes[i + 1], bytes[i + 2], bytes[i + 3]]) as usize;
            if i + 4 + n > bytes.len() {
                break; // frame still arriving
            }
            let body = &bytes[i + 4..i + 4 + n];
            out.push(parse_dsd_message(body).map_err(|e| ("stream-frame-not-one-message".to_string(), format!("frame at offset {}: {}", i, e)))?);
            i += 4 + n;
        }
    } else {
        for d in received.lock().unwrap().iter() {
            out.push(parse_dsd_message(d).map_err(|e| ("datagram-not-one-message".to_string(), e))?);
        }
    }
    Ok(out)
}
