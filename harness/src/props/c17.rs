//! C17 — span fields become labels with metric > inner span > outer span precedence.

use std::sync::{Arc, Mutex};

use metrics::{Key, KeyName, Label, Level, Metadata, Recorder};
use metrics_tracing_context::{LabelFilter, MetricsLayer, TracingContextLayer};
use metrics_util::layers::Layer;
use tracing::span::EnteredSpan;
use tracing_subscriber::layer::SubscriberExt;

use crate::{
    doubles::{new_log, LogRecorder, Op},
    engine::{
        report::PropRun,
        runner::{run_lane, Ctx, Fail, Lane, RunCfg},
        source::Source,
    },
    ensure,
};

const RULE: &str = "a case = a label filter (include-all / allow-list over a subset of the field pool / a custom filter deciding on metric name and label) and 1-2 threads sharing one subscriber, each executing 2-25 operations: open a span (a call site with six Option-valued fields of types str, i64, bool, u64, f64, Display, or a field-less call site) nested under the current one (or created with an explicit parent that is another open span, or as an explicit root) up to depth 4, close the innermost span, record() a field on any open span, emit a counter/gauge/histogram whose own labels overlap the field pool. A reference model (per span: creation fields, then the parent's map as of creation for missing names, later records overwrite) predicts the name->value label map the inner recorder receives. Now and then a span comes from a call site with 18 fields of its own (maps of 14-18 labels, more with inheritance). Non-trivial = some field name occurs at >= 2 of {metric, inner span, outer span} for an emission, or an 18-field span was opened. Distinct = distinct decoded cases.";

static META: Metadata<'static> = Metadata::new("c17", Level::INFO, None);

// (the last field name is not ASCII: one character, two bytes)
const FIELDS: [&str; 6] = ["a", "b", "c", "d", "e", "é"];

#[derive(Debug, Clone, PartialEq)]
enum Val {
    Str(String),
    I64(i64),
    Bool(bool),
    U64(u64),
    F64(f64),
    Disp(String),
}

impl Val {
    fn expected(&self) -> String {
        match self {
            Val::Str(s) => s.clone(),
            Val::I64(v) => v.to_string(),
            Val::Bool(b) => b.to_string(),
            Val::U64(v) => v.to_string(),
            Val::F64(v) => format!("{:?}", v),
            Val::Disp(s) => s.clone(),
        }
    }
}

fn dec_val(src: &mut Source, field: usize) -> Val {
    match field {
        0 => Val::Str(src.pick(&["", "x", "héllo", "a b"]).to_string()),
        1 => Val::I64(*src.pick(&[0i64, -1, 42, i64::MIN])),
        2 => Val::Bool(src.bool()),
        3 => Val::U64(*src.pick(&[0u64, 7, u64::MAX])),
        4 => Val::F64(*src.pick(&[0.0f64, 1.5, -2.25, 1e300])),
        _ => Val::Disp(src.pick(&["disp", "", "12"]).to_string()),
    }
}

#[derive(Debug, Clone, Copy, PartialEq)]
enum Parent {
    Contextual,
    Root,
    Explicit(usize), // an open span of the stack (index modulo depth), not necessarily the current one
}

#[derive(Debug, Clone)]
enum Op2 {
    Open { fields: [Option<Val>; 6], empty_site: bool, parent: Parent, wide: Option<(u32, u64)> },
    Close,
    Record { level: usize, field: usize, val: Val },
    /// record() a value on field `f` whose Debug impl emits a counter while it is being formatted
    RecordEmitting { level: usize },
    Emit { kind: char, name: String, labels: Vec<(String, String)> },
}

#[derive(Debug, Clone)]
enum Filter {
    All,
    Allow(Vec<String>),
    Custom,
}

#[derive(Debug)]
struct Case {
    filter: Filter,
    threads: Vec<Vec<Op2>>,
}

fn dec_ops(src: &mut Source) -> Vec<Op2> {
    let n = 2 + src.below(24);
    (0..n)
        .map(|_| match src.below(8) {
            0 | 1 | 2 => {
                let empty_site = src.chance(40);
                let mut fields: [Option<Val>; 6] = Default::default();
                if !empty_site {
                    for (i, f) in fields.iter_mut().enumerate() {
                        if src.chance(100) {
                            *f = Some(dec_val(src, i));
                        }
                    }
                }
                let parent = match src.below(8) {
                    0 => Parent::Root,
                    1 | 2 => Parent::Explicit(src.below(4)),
                    _ => Parent::Contextual,
                };
                // now and then a call site with 18 fields of its own (label maps far larger than the usual handful)
                let wide = if src.chance(28) { Some((src.int_in(0, (1 << 18) - 1) as u32 | 0x3_fff0, *src.pick(&[0u64, 7, u64::MAX - 20]))) } else { None };
                Op2::Open { fields, empty_site, parent, wide }
            }
            3 => Op2::Close,
            4 => {
                let field = src.below(6);
                if field == 5 && src.chance(128) {
                    Op2::RecordEmitting { level: src.below(4) }
                } else {
                    Op2::Record { level: src.below(4), field, val: dec_val(src, field) }
                }
            }
            _ => {
                let labels = src.vec(3, |s| (s.pick(&["a", "b", "é", "x", "y"]).to_string(), s.pick(&["m1", "m2", ""]).to_string()));
                let mut seen = std::collections::HashSet::new();
                let labels: Vec<(String, String)> = labels.into_iter().filter(|(k, _)| seen.insert(k.clone())).collect();
                Op2::Emit { kind: *src.pick(&['c', 'g', 'h']), name: src.pick(&["metric", "other.name"]).to_string(), labels }
            }
        })
        .collect()
}

fn decode(src: &mut Source) -> Case {
    let filter = match src.below(3) {
        0 => Filter::All,
        1 => Filter::Allow(FIELDS.iter().filter(|_| src.bool()).map(|s| s.to_string()).collect()),
        _ => Filter::Custom,
    };
    let nt = if src.chance(32) { 2 } else { 1 };
    Case { filter, threads: (0..nt).map(|_| dec_ops(src)).collect() }
}

/// Custom filter: keeps a label unless the metric is "other.name" and the label is "a", or the value is empty.
#[derive(Clone)]
struct Custom;
impl LabelFilter for Custom {
    fn should_include_label(&self, name: &KeyName, label: &Label) -> bool {
        !(name.as_str() == "other.name" && label.key() == "a") && !label.value().is_empty()
    }
}

fn admits(filter: &Filter, metric: &str, k: &str, v: &str) -> bool {
    match filter {
        Filter::All => true,
        Filter::Allow(names) => names.iter().any(|n| n == k),
        Filter::Custom => !(metric == "other.name" && k == "a") && !v.is_empty(),
    }
}

fn open_span(fields: &[Option<Val>; 6], empty_site: bool, parent: Option<Option<&tracing::Span>>) -> tracing::Span {
    // parent: None = contextual, Some(None) = explicit root, Some(Some(p)) = explicit parent
    if empty_site {
        return match parent {
            None => tracing::span!(tracing::Level::INFO, "fieldless"),
            Some(None) => tracing::span!(parent: None, tracing::Level::INFO, "fieldless"),
            Some(Some(p)) => tracing::span!(parent: p, tracing::Level::INFO, "fieldless"),
        };
    }
    let a = fields[0].as_ref().map(|v| if let Val::Str(s) = v { s.as_str() } else { "" });
    let b = fields[1].as_ref().map(|v| if let Val::I64(x) = v { *x } else { 0 });
    let c = fields[2].as_ref().map(|v| if let Val::Bool(x) = v { *x } else { false });
    let d = fields[3].as_ref().map(|v| if let Val::U64(x) = v { *x } else { 0 });
    let e = fields[4].as_ref().map(|v| if let Val::F64(x) = v { *x } else { 0.0 });
    let f = fields[5].as_ref().map(|v| if let Val::Disp(s) = v { tracing::field::display(s.clone()) } else { tracing::field::display(String::new()) });
    match parent {
        None => tracing::span!(tracing::Level::INFO, "six_fields", a = a, b = b, c = c, d = d, e = e, é = f),
        Some(None) => tracing::span!(parent: None, tracing::Level::INFO, "six_fields", a = a, b = b, c = c, d = d, e = e, é = f),
        Some(Some(p)) => tracing::span!(parent: p, tracing::Level::INFO, "six_fields", a = a, b = b, c = c, d = d, e = e, é = f),
    }
}

const WIDE: [&str; 18] = ["w00", "w01", "w02", "w03", "w04", "w05", "w06", "w07", "w08", "w09", "w10", "w11", "w12", "w13", "w14", "w15", "w16", "w17"];

fn wide_values(mask: u32, base: u64) -> [Option<u64>; 18] {
    let mut w = [None; 18];
    for (i, v) in w.iter_mut().enumerate() {
        if mask & (1 << i) != 0 {
            *v = Some(base.wrapping_add(i as u64));
        }
    }
    w
}

fn open_wide(mask: u32, base: u64, parent: Option<Option<&tracing::Span>>) -> tracing::Span {
    let w = wide_values(mask, base);
    macro_rules! wide_span {
        ($($head:tt)*) => {
            tracing::span!($($head)* tracing::Level::INFO, "wide", w00 = w[0], w01 = w[1], w02 = w[2], w03 = w[3], w04 = w[4], w05 = w[5], w06 = w[6], w07 = w[7], w08 = w[8], w09 = w[9], w10 = w[10], w11 = w[11], w12 = w[12], w13 = w[13], w14 = w[14], w15 = w[15], w16 = w[16], w17 = w[17])
        };
    }
    match parent {
        None => wide_span!(),
        Some(None) => wide_span!(parent: None,),
        Some(Some(p)) => wide_span!(parent: p,),
    }
}

fn record_on(span: &tracing::Span, field: usize, val: &Val) {
    match val {
        Val::Str(s) => {
            span.record(FIELDS[field], s.as_str());
        }
        Val::I64(x) => {
            span.record(FIELDS[field], *x);
        }
        Val::Bool(x) => {
            span.record(FIELDS[field], *x);
        }
        Val::U64(x) => {
            span.record(FIELDS[field], *x);
        }
        Val::F64(x) => {
            span.record(FIELDS[field], *x);
        }
        Val::Disp(s) => {
            span.record(FIELDS[field], tracing::field::display(s.clone()));
        }
    }
}

thread_local! {
    /// the recorder an `EmitOnFmt` value emits through (set for the duration of a thread's program)
    static FMT_RECORDER: std::cell::Cell<Option<*const (dyn Recorder + Sync)>> = const { std::cell::Cell::new(None) };
}

/// A field value whose `Debug` impl emits a counter: the emission happens in the middle of `Span::record`.
struct EmitOnFmt;
impl std::fmt::Debug for EmitOnFmt {
    fn fmt(&self, f: &mut std::fmt::Formatter<'_>) -> std::fmt::Result {
        if let Some(p) = FMT_RECORDER.with(|c| c.get()) {
            // SAFETY: the pointer is set by run_thread for exactly the time its recorder reference is alive
            let rec: &(dyn Recorder + Sync) = unsafe { &*p };
            rec.register_counter(&Key::from_name("from_fmt"), &META).increment(1);
        }
        f.write_str("emit")
    }
}

type MapModel = Vec<(String, String)>;

fn set(map: &mut MapModel, k: &str, v: String) {
    if let Some(e) = map.iter_mut().find(|(n, _)| n == k) {
        e.1 = v;
    } else {
        map.push((k.to_string(), v));
    }
}

fn run_thread(ops: &[Op2], filter: &Filter, rec: &(dyn Recorder + Sync), log: &crate::doubles::Log) -> Result<bool, Fail> {
    let me = std::thread::current().id();
    struct ClearOnDrop;
    impl Drop for ClearOnDrop {
        fn drop(&mut self) {
            FMT_RECORDER.with(|c| c.set(None));
        }
    }
    // (the lifetime is erased for the thread-local; ClearOnDrop removes the pointer before `rec` can end)
    FMT_RECORDER.with(|c| c.set(Some(unsafe { std::mem::transmute::<*const (dyn Recorder + Sync + '_), *const (dyn Recorder + Sync + 'static)>(rec as *const (dyn Recorder + Sync)) })));
    let _clear = ClearOnDrop;
    let mut stack: Vec<(EnteredSpan, MapModel, bool)> = vec![]; // (span, model map, has fields callsite)
    let mut nontrivial = false;
    let mut explicit_parent_differs = false;
    let mut wide_seen = false;
    let result = (|| -> Result<(), Fail> {
        for op in ops {
            match op {
                Op2::Open { fields, empty_site, parent, wide } => {
                    if stack.len() >= 4 {
                        continue;
                    }
                    // which span the new one descends from
                    let parent_idx: Option<usize> = match parent {
                        Parent::Contextual => stack.len().checked_sub(1),
                        Parent::Root => None,
                        Parent::Explicit(l) => {
                            if stack.is_empty() {
                                None
                            } else {
                                Some(*l % stack.len())
                            }
                        }
                    };
                    let open = |p: Option<Option<&tracing::Span>>| match wide {
                        Some((mask, base)) => open_wide(*mask, *base, p),
                        None => open_span(fields, *empty_site, p),
                    };
                    let span = match parent {
                        Parent::Contextual => open(None),
                        Parent::Root => open(Some(None)),
                        Parent::Explicit(_) => match parent_idx {
                            Some(i) => {
                                let p: &tracing::Span = &stack[i].0;
                                open(Some(Some(p)))
                            }
                            None => open(Some(None)),
                        },
                    };
                    if *parent != Parent::Contextual && parent_idx != stack.len().checked_sub(1) {
                        explicit_parent_differs = true;
                    }
                    let mut map: MapModel = vec![];
                    if let Some((mask, base)) = wide {
                        for (i, v) in wide_values(*mask, *base).iter().enumerate() {
                            if let Some(v) = v {
                                set(&mut map, WIDE[i], v.to_string());
                            }
                        }
                        wide_seen = true;
                    } else if !*empty_site {
                        for (i, f) in fields.iter().enumerate() {
                            if let Some(v) = f {
                                set(&mut map, FIELDS[i], v.expected());
                            }
                        }
                    }
                    if let Some(pi) = parent_idx {
                        for (k, v) in &stack[pi].1 {
                            if !map.iter().any(|(n, _)| n == k) {
                                map.push((k.clone(), v.clone()));
                            }
                        }
                    }
                    stack.push((span.entered(), map, wide.is_none() && !*empty_site));
                }
                Op2::Close => {
                    stack.pop();
                }
                Op2::Record { level, field, val } => {
                    if stack.is_empty() {
                        continue;
                    }
                    let idx = *level % stack.len();
                    if !stack[idx].2 {
                        continue; // the field-less call site declares no fields to record
                    }
                    record_on(&stack[idx].0, *field, val);
                    set(&mut stack[idx].1, FIELDS[*field], val.expected());
                }
                Op2::RecordEmitting { level } => {
                    if stack.is_empty() {
                        continue;
                    }
                    let idx = *level % stack.len();
                    if !stack[idx].2 {
                        continue;
                    }
                    let before = log.lock().unwrap().iter().filter(|e| e.thread == me).count();
                    let current_before: MapModel = stack.last().map(|s| s.1.clone()).unwrap_or_default();
                    stack[idx].0.record("é", tracing::field::debug(EmitOnFmt));
                    set(&mut stack[idx].1, "é", "emit".to_string());
                    // what the emission made while the value was being formatted reached the recorder with: the current
                    // span's labels, complete — for the field being recorded either its earlier or its new value
                    let l = log.lock().unwrap();
                    let mine: Vec<_> = l.iter().filter(|e| e.thread == me).skip(before).collect();
                    for ev in mine.iter().filter(|e| matches!(&e.op, Op::Register { name, .. } if name == "from_fmt")) {
                        let Op::Register { labels: got, .. } = &ev.op else { continue };
                        let got_map: std::collections::BTreeMap<String, String> = got.iter().cloned().collect();
                        let want_old: std::collections::BTreeMap<String, String> = current_before.iter().filter(|(k, v)| admits(filter, "from_fmt", k, v)).cloned().collect();
                        let mut want_new = want_old.clone();
                        if idx + 1 == stack.len() && admits(filter, "from_fmt", "é", "emit") {
                            want_new.insert("é".to_string(), "emit".to_string());
                        }
                        ensure!(got_map == want_old || got_map == want_new, "labels-lost-during-record", "a counter emitted while Span::record was formatting its value (span level {} of {}) reached the recorder with {:?}; the current span's labels are {:?} (or {:?} with the new value)", idx, stack.len(), got_map, want_old, want_new);
                        nontrivial = true;
                    }
                }
                Op2::Emit { kind, name, labels } => {
                    let key = Key::from_parts(name.clone(), labels.iter().map(|(k, v)| Label::new(k.clone(), v.clone())).collect::<Vec<_>>());
                    let before = log.lock().unwrap().iter().filter(|e| e.thread == me).count();
                    match kind {
                        'c' => rec.register_counter(&key, &META).increment(1),
                        'g' => rec.register_gauge(&key, &META).set(1.0),
                        _ => rec.register_histogram(&key, &META).record(1.0),
                    }
                    let got: Vec<(String, String)> = {
                        let l = log.lock().unwrap();
                        let mine: Vec<_> = l.iter().filter(|e| e.thread == me).collect();
                        ensure!(mine.len() == before + 2, "emission-count-wrong", "one emission produced {} events at the inner recorder", mine.len() - before);
                        match &mine[before].op {
                            Op::Register { kind: k, name: n, labels, .. } => {
                                ensure!(k == kind && n == name, "name-or-kind-changed", "emitted {} {:?}, inner recorder saw {} {:?}", kind, name, k, n);
                                labels.clone()
                            }
                            other => return Err(Fail::new("unexpected-event", format!("{:?}", other))),
                        }
                    };
                    // no label name twice
                    let mut names: Vec<&str> = got.iter().map(|(k, _)| k.as_str()).collect();
                    names.sort();
                    ensure!(names.windows(2).all(|w| w[0] != w[1]), "duplicate-label-name", "the key reaching the recorder has a label name twice: {:?}", got);
                    let span_map: MapModel = stack.last().map(|s| s.1.clone()).unwrap_or_default();
                    if span_map.is_empty() {
                        ensure!(got == *labels, "key-changed-without-span-fields", "no current span / no fields, yet labels {:?} became {:?}", labels, got);
                        continue;
                    }
                    let mut want: std::collections::BTreeMap<String, String> = span_map.iter().filter(|(k, v)| admits(filter, name, k, v)).cloned().collect();
                    for (k, v) in labels {
                        want.insert(k.clone(), v.clone());
                    }
                    let got_map: std::collections::BTreeMap<String, String> = got.iter().cloned().collect();
                    ensure!(got_map == want, "labels-differ-from-model", "metric {:?} with own labels {:?} under span stack {:?} (filter {:?}) reached the recorder with {:?}, expected {:?}", name, labels, stack.iter().map(|s| &s.1).collect::<Vec<_>>(), filter, got_map, want);
                    // non-trivial: a name at two of {metric, inner, outer}
                    let metric_names: Vec<&String> = labels.iter().map(|l| &l.0).collect();
                    let inner_names: Vec<&String> = span_map.iter().map(|l| &l.0).collect();
                    let outer_names: Vec<&String> = if stack.len() >= 2 { stack[stack.len() - 2].1.iter().map(|l| &l.0).collect() } else { vec![] };
                    if metric_names.iter().any(|n| inner_names.contains(n)) || (stack.len() >= 2 && inner_names.iter().any(|n| outer_names.contains(n))) {
                        nontrivial = true;
                    }
                }
            }
        }
        Ok(())
    })();
    while let Some(s) = stack.pop() {
        drop(s);
    }
    let _ = explicit_parent_differs;
    result.map(|_| nontrivial || wide_seen)
}

pub fn case_spans(bytes: &[u8], _s: &[u8], ctx: &mut Ctx) -> Result<(), Fail> {
    let mut src = Source::new(bytes);
    let case = decode(&mut src);
    ctx.case(&case);
    let log = new_log();
    let rec: Box<dyn Recorder + Sync + Send> = match &case.filter {
        Filter::All => Box::new(TracingContextLayer::all().layer(LogRecorder::new(1, &log))),
        Filter::Allow(names) => Box::new(TracingContextLayer::only_allow(names.iter()).layer(LogRecorder::new(1, &log))),
        Filter::Custom => Box::new(TracingContextLayer::new(Custom).layer(LogRecorder::new(1, &log))),
    };
    // one subscriber per harness worker thread, reused across cases (every span of a case is closed before it ends)
    thread_local! {
        static DISPATCH: tracing::Dispatch = tracing::Dispatch::new(tracing_subscriber::registry().with(MetricsLayer::new()));
    }
    let dispatch = DISPATCH.with(|d| d.clone());
    let results: Mutex<Vec<Result<bool, Fail>>> = Mutex::new(vec![]);
    if case.threads.len() == 1 {
        let r = tracing::dispatcher::with_default(&dispatch, || run_thread(&case.threads[0], &case.filter, rec.as_ref(), &log));
        results.lock().unwrap().push(r);
    } else {
        let barrier = Arc::new(std::sync::Barrier::new(case.threads.len()));
        std::thread::scope(|s| {
            for ops in &case.threads {
                let (dispatch, rec, log, results, filter, barrier) = (&dispatch, &rec, &log, &results, &case.filter, barrier.clone());
                s.spawn(move || {
                    barrier.wait();
                    let r = tracing::dispatcher::with_default(dispatch, || run_thread(ops, filter, rec.as_ref(), log));
                    results.lock().unwrap().push(r);
                });
            }
        });
        ctx.class("two-threads-one-subscriber");
    }
    for r in results.into_inner().unwrap() {
        if r? {
            ctx.nontrivial("name-at-two-levels");
        }
    }
    Ok(())
}

pub fn run(cfg: &RunCfg, replay: Option<&str>) -> i32 {
    let mut pr = PropRun::new("C17", cfg, RULE);
    pr.register("span-trees", &case_spans);
    if let Some(f) = replay {
        return pr.replay(f);
    }
    pr.assume("label sets are compared as name->value maps (the order of labels in the resulting key is not part of the statement), except that with no current span or no fields the key must be unchanged including order; the metric's own label names are distinct");
    pr.assume("f64 fields are expected as their Debug text and Display fields as their Display text, which is how tracing hands them to a visitor without record_f64");
    let r = pr.run_regressions();
    pr.push(r);
    let c = pr.cfg.clone();
    let r = run_lane(&c, "C17", &Lane { name: "span-trees", cases: c.cases(400_000, 10_000_000), max_len: 400, sched_len: 0, workers: 0, f: &case_spans });
    pr.push(r);
    pr.finish()
}
