//! C01 — emissions reach exactly the recorder in scope, never one whose scope ended.

use std::{
    cell::RefCell,
    panic::{catch_unwind, AssertUnwindSafe},
    sync::{atomic::Ordering, Mutex},
};

use metrics::{counter, describe_counter, describe_gauge, describe_histogram, gauge, histogram, Label, Level, LocalRecorderGuard, Unit};

use crate::{
    doubles::{new_log, LogRecorder, Op, RecEvent},
    engine::{
        report::PropRun,
        runner::{run_lane, Ctx, Fail, Lane, RunCfg},
        sched::{self, SchedOpts},
        source::Source,
    },
    ensure,
};

const RULE: &str = "a case = programs for 1-3 threads, each an op tree over up to 4 thread-private recorder doubles: with_local_recorder closures nested to depth <= 5 (optionally ending in a panic caught by the enclosing level), set_default_local_recorder guards kept in slots and dropped or mem::forgotten in any order, 'end of borrow' of a recorder once safe Rust would allow dropping it, and emissions through a table of 43 macro call sites (incl. empty target, empty and non-ASCII names, empty label key and value) (counter!/gauge!/histogram! x literal/computed name x no labels / literal labels / computed labels / slice of pairs / Vec<Label> / label iterator x target:/level: prefixes; describe_* with and without unit, literal and owned strings); threads interleave at op granularity under a generated schedule on fresh OS threads. 3/4 of the cases are 'clean' (guards dropped LIFO, never forgotten) and are checked against the exact stack model; the rest may drop out of order or forget and are checked for the safety clauses only. Non-trivial = an emission at nesting depth >= 2 or after a scope on that thread ended. Child-process lane: the same with a global recorder double installed first. Distinct = distinct decoded (case, schedule).";

const MODULE: &str = "harness::props::c01";

#[derive(Debug, Clone, PartialEq)]
struct Expect {
    kind: char,
    describe: bool,
    name: String,
    labels: Vec<(String, String)>,
    target: String,
    level: Level,
    unit: Option<Unit>,
    desc: String,
}

fn ex(kind: char, name: &str, labels: &[(&str, &str)], target: &str, level: Level) -> Expect {
    Expect { kind, describe: false, name: name.to_string(), labels: labels.iter().map(|(a, b)| (a.to_string(), b.to_string())).collect(), target: target.to_string(), level, unit: None, desc: String::new() }
}

fn exd(kind: char, name: &str, unit: Option<Unit>, desc: &str) -> Expect {
    Expect { kind, describe: true, name: name.to_string(), labels: vec![], target: String::new(), level: Level::INFO, unit, desc: desc.to_string() }
}

pub const NFORMS: usize = 43;

/// Performs the emission spelled by call site `form` (with runtime string `d`) and says what it spells.
fn emit(form: usize, d: &str) -> Expect {
    let dynname = format!("dyn_{}", d);
    let lv: Vec<Label> = vec![Label::new("vk", d.to_string()), Label::new("vk2", "two")];
    let pairs = [("pk", "pv"), ("pk2", "pv2")];
    match form {
        0 => {
            counter!("lit_c").increment(1);
            ex('c', "lit_c", &[], MODULE, Level::INFO)
        }
        1 => {
            counter!(dynname.clone()).increment(1);
            ex('c', &dynname, &[], MODULE, Level::INFO)
        }
        2 => {
            counter!("lit_c", "k" => "v").increment(1);
            ex('c', "lit_c", &[("k", "v")], MODULE, Level::INFO)
        }
        3 => {
            counter!("lit_c", "k1" => "v1", "k2" => "v2",).increment(1);
            ex('c', "lit_c", &[("k1", "v1"), ("k2", "v2")], MODULE, Level::INFO)
        }
        4 => {
            counter!(dynname.clone(), "k" => "v").increment(1);
            ex('c', &dynname, &[("k", "v")], MODULE, Level::INFO)
        }
        5 => {
            counter!("lit_c", "k" => d.to_string(), "k2" => "lit").increment(1);
            ex('c', "lit_c", &[("k", d), ("k2", "lit")], MODULE, Level::INFO)
        }
        6 => {
            counter!("lit_c", &pairs).increment(1);
            ex('c', "lit_c", &pairs, MODULE, Level::INFO)
        }
        7 => {
            counter!("lit_c", lv.clone()).increment(1);
            ex('c', "lit_c", &[("vk", d), ("vk2", "two")], MODULE, Level::INFO)
        }
        8 => {
            counter!(dynname.clone(), lv.iter()).increment(1);
            ex('c', &dynname, &[("vk", d), ("vk2", "two")], MODULE, Level::INFO)
        }
        9 => {
            counter!(target: "tgt", "lit_c").increment(1);
            ex('c', "lit_c", &[], "tgt", Level::INFO)
        }
        10 => {
            counter!(level: Level::DEBUG, "lit_c").increment(1);
            ex('c', "lit_c", &[], MODULE, Level::DEBUG)
        }
        11 => {
            counter!(target: "tgt2", level: Level::TRACE, "lit_c", "k" => "v").increment(1);
            ex('c', "lit_c", &[("k", "v")], "tgt2", Level::TRACE)
        }
        12 => {
            counter!(target: "tgt3", level: Level::ERROR, dynname.clone(), "k" => d.to_string()).increment(1);
            ex('c', &dynname, &[("k", d)], "tgt3", Level::ERROR)
        }
        13 => {
            gauge!("lit_g").set(1.0);
            ex('g', "lit_g", &[], MODULE, Level::INFO)
        }
        14 => {
            gauge!(dynname.clone(), "k" => "v").set(1.0);
            ex('g', &dynname, &[("k", "v")], MODULE, Level::INFO)
        }
        15 => {
            gauge!("lit_g", "k1" => "v1", "k2" => "v2").increment(1.0);
            ex('g', "lit_g", &[("k1", "v1"), ("k2", "v2")], MODULE, Level::INFO)
        }
        16 => {
            gauge!("lit_g", lv.clone()).decrement(1.0);
            ex('g', "lit_g", &[("vk", d), ("vk2", "two")], MODULE, Level::INFO)
        }
        17 => {
            gauge!(target: "tgt", level: Level::WARN, "lit_g", &pairs).set(2.0);
            ex('g', "lit_g", &pairs, "tgt", Level::WARN)
        }
        18 => {
            gauge!(level: Level::TRACE, dynname.clone()).set(2.0);
            ex('g', &dynname, &[], MODULE, Level::TRACE)
        }
        19 => {
            histogram!("lit_h").record(1.0);
            ex('h', "lit_h", &[], MODULE, Level::INFO)
        }
        20 => {
            histogram!(dynname.clone()).record(1.0);
            ex('h', &dynname, &[], MODULE, Level::INFO)
        }
        21 => {
            histogram!("lit_h", "k" => "v").record(1.0);
            ex('h', "lit_h", &[("k", "v")], MODULE, Level::INFO)
        }
        22 => {
            histogram!("lit_h", "k" => d.to_string()).record(1.0);
            ex('h', "lit_h", &[("k", d)], MODULE, Level::INFO)
        }
        23 => {
            histogram!(target: "tgt", "lit_h", lv.iter()).record(1.0);
            ex('h', "lit_h", &[("vk", d), ("vk2", "two")], "tgt", Level::INFO)
        }
        24 => {
            histogram!(target: "tgt", level: Level::DEBUG, dynname.clone(), "k1" => "v1", "k2" => "v2").record(1.0);
            ex('h', &dynname, &[("k1", "v1"), ("k2", "v2")], "tgt", Level::DEBUG)
        }
        25 => {
            describe_counter!("lit_c", "counts things");
            exd('c', "lit_c", None, "counts things")
        }
        26 => {
            describe_counter!("lit_c", Unit::Bytes, "counts bytes");
            exd('c', "lit_c", Some(Unit::Bytes), "counts bytes")
        }
        27 => {
            describe_counter!(dynname.clone(), Unit::Count, format!("desc {}", d),);
            exd('c', &dynname, Some(Unit::Count), &format!("desc {}", d))
        }
        28 => {
            describe_gauge!("lit_g", "a gauge");
            exd('g', "lit_g", None, "a gauge")
        }
        29 => {
            describe_gauge!(dynname.clone(), Unit::Seconds, "gauge in seconds");
            exd('g', &dynname, Some(Unit::Seconds), "gauge in seconds")
        }
        30 => {
            describe_histogram!("lit_h", "a histogram");
            exd('h', "lit_h", None, "a histogram")
        }
        31 => {
            describe_histogram!("lit_h", Unit::Milliseconds, format!("h {}", d));
            exd('h', "lit_h", Some(Unit::Milliseconds), &format!("h {}", d))
        }
        32 => {
            describe_histogram!(dynname.clone(), format!("owned {}", d));
            exd('h', &dynname, None, &format!("owned {}", d))
        }
        33 => {
            counter!("lit_c", "k" => "v", "k" => "again").increment(1);
            ex('c', "lit_c", &[("k", "v"), ("k", "again")], MODULE, Level::INFO)
        }
        // boundary spellings: an empty target, an empty and a non-ASCII name, an empty label key and value
        34 => {
            counter!(target: "", "lit_c").increment(1);
            ex('c', "lit_c", &[], "", Level::INFO)
        }
        35 => {
            gauge!(target: "", level: Level::TRACE, "", "" => "").set(1.0);
            ex('g', "", &[("", "")], "", Level::TRACE)
        }
        36 => {
            histogram!(target: " ", "é.名", "ké" => d.to_string()).record(1.0);
            ex('h', "é.名", &[("ké", d)], " ", Level::INFO)
        }
        // every kind with a level: prefix alone and with a target: prefix alone (the prefix arms of the three macros are
        // written out separately)
        37 => {
            histogram!(level: Level::WARN, "lit_h").record(1.0);
            ex('h', "lit_h", &[], MODULE, Level::WARN)
        }
        38 => {
            histogram!(level: Level::ERROR, dynname.clone(), "k" => "v").record(1.0);
            ex('h', &dynname, &[("k", "v")], MODULE, Level::ERROR)
        }
        39 => {
            gauge!(level: Level::DEBUG, "lit_g", "k" => "v").set(1.0);
            ex('g', "lit_g", &[("k", "v")], MODULE, Level::DEBUG)
        }
        40 => {
            histogram!(target: "tgt5", dynname.clone()).record(1.0);
            ex('h', &dynname, &[], "tgt5", Level::INFO)
        }
        41 => {
            counter!(level: Level::TRACE, dynname.clone(), "k" => d.to_string()).increment(1);
            ex('c', &dynname, &[("k", d)], MODULE, Level::TRACE)
        }
        _ => {
            describe_counter!("", Unit::Percent, "");
            exd('c', "", Some(Unit::Percent), "")
        }
    }
}

#[derive(Debug, Clone)]
enum Node {
    Emit(usize, u8),
    With { rec: usize, body: Vec<Node>, panic_at_end: bool },
    Guard { rec: usize, slot: usize },
    DropGuard(usize),
    ForgetGuard(usize),
    EndBorrow(usize),
}

#[derive(Debug)]
struct Case {
    clean: bool,
    threads: Vec<Vec<Node>>,
}

const NREC: usize = 4;
const NSLOT: usize = 4;

fn dec_body(src: &mut Source, depth: usize, clean: bool, max: usize, in_use: &mut Vec<usize>) -> Vec<Node> {
    let n = 1 + src.below(max);
    let mut out = vec![];
    let mut open_slots: Vec<usize> = vec![];
    for _ in 0..n {
        match src.below(10) {
            0 | 1 | 2 | 3 => out.push(Node::Emit(src.below(NFORMS), src.byte() % 4)),
            4 | 5 if depth < 5 => out.push(Node::With { rec: src.below(NREC), body: dec_body(src, depth + 1, clean, 4, in_use), panic_at_end: src.chance(40) }),
            6 => {
                let slot = src.below(NSLOT);
                if !in_use.contains(&slot) {
                    out.push(Node::Guard { rec: src.below(NREC), slot });
                    open_slots.push(slot);
                    in_use.push(slot);
                }
            }
            7 => {
                if clean {
                    if let Some(slot) = open_slots.pop() {
                        out.push(Node::DropGuard(slot));
                        in_use.retain(|x| *x != slot);
                    }
                } else if !in_use.is_empty() {
                    // any guard alive at this point, including one created by an enclosing body and moved into this closure
                    let i = src.below(in_use.len());
                    let slot = in_use.remove(i);
                    open_slots.retain(|x| *x != slot);
                    out.push(Node::DropGuard(slot));
                }
            }
            8 if !clean => {
                if !in_use.is_empty() {
                    let i = src.below(in_use.len());
                    let slot = in_use.remove(i);
                    open_slots.retain(|x| *x != slot);
                    out.push(Node::ForgetGuard(slot));
                }
            }
            9 => out.push(Node::EndBorrow(src.below(NREC))),
            _ => out.push(Node::Emit(src.below(NFORMS), src.byte() % 4)),
        }
    }
    // guards opened in this body are closed before it ends (LIFO in clean mode, arbitrary otherwise, possibly leaked in dirty mode)
    while let Some(slot) = open_slots.pop() {
        in_use.retain(|x| *x != slot);
        if clean || src.bool() {
            out.push(Node::DropGuard(slot));
        } else if src.bool() {
            out.push(Node::ForgetGuard(slot));
        }
        // else: left open until the thread's clean-up (dirty mode only)
    }
    out
}

fn decode(src: &mut Source) -> Case {
    let clean = src.byte() < 192;
    let nt = 1 + src.below(3);
    Case { clean, threads: (0..nt).map(|_| dec_body(src, 0, clean, 8, &mut Vec::new())).collect() }
}

// ---- per-thread interpreter state
struct Th<'a> {
    recs: Vec<&'static LogRecorder>,
    /// what is actually installed for recorder i (for i = 2 the wrapper whose first field is recorder 3: same address)
    dyns: Vec<&'static (dyn metrics::Recorder + Sync)>,
    guards: Vec<Option<LocalRecorderGuard<'static>>>,
    guard_rec: Vec<Option<usize>>,
    // model (spec semantics; exact in clean mode)
    stack: Vec<(usize, usize)>, // (recorder, installation id: slot number for guards, 100+n for closure scopes)
    ended: Vec<bool>,
    installed_count: Vec<u32>, // live installations (with scopes + undropped, unforgotten guards) per recorder
    forgotten: Vec<bool>,
    non_lifo: bool,
    expects: &'a Mutex<Vec<(std::thread::ThreadId, Expect, Option<u32>, bool)>>, // (thread, what, expected recorder id or None=global/no-op, strict?)
    /// where the *known* behaviour (every scope end writes back the pointer it saved, whatever the order; a forgotten
    /// guard writes nothing back) sends each emission: parallel to `expects`
    impl_targets: &'a Mutex<Vec<Option<u32>>>,
    impl_slot: Option<usize>,
    guard_prev: Vec<Option<Option<usize>>>,
    depth: usize,
    scope_ended_before: bool,
    nontrivial: &'a std::sync::atomic::AtomicBool,
}

struct PanicMarker;

/// Two different recorders at one address: the wrapper (which records under `second`'s identity) and its
/// first field. A `&dyn Recorder` is an address *and* a vtable; whoever identifies recorders by address alone
/// confuses these two.
#[repr(C)]
struct Alias {
    first: LogRecorder,
    second: LogRecorder,
}
impl metrics::Recorder for Alias {
    fn describe_counter(&self, k: metrics::KeyName, u: Option<Unit>, d: metrics::SharedString) {
        self.second.describe_counter(k, u, d)
    }
    fn describe_gauge(&self, k: metrics::KeyName, u: Option<Unit>, d: metrics::SharedString) {
        self.second.describe_gauge(k, u, d)
    }
    fn describe_histogram(&self, k: metrics::KeyName, u: Option<Unit>, d: metrics::SharedString) {
        self.second.describe_histogram(k, u, d)
    }
    fn register_counter(&self, k: &metrics::Key, m: &metrics::Metadata<'_>) -> metrics::Counter {
        self.second.register_counter(k, m)
    }
    fn register_gauge(&self, k: &metrics::Key, m: &metrics::Metadata<'_>) -> metrics::Gauge {
        self.second.register_gauge(k, m)
    }
    fn register_histogram(&self, k: &metrics::Key, m: &metrics::Metadata<'_>) -> metrics::Histogram {
        self.second.register_histogram(k, m)
    }
}

fn exec(nodes: &[Node], th: &mut Th, clean: bool) {
    for n in nodes {
        sched::point("c01.op");
        match n {
            Node::Emit(form, d) => {
                let strict = clean || (!th.non_lifo && !th.forgotten.iter().any(|f| *f));
                let target = th.stack.last().map(|r| th.recs[r.0].id);
                let dstr = ["x", "y", "", "zé"][*d as usize];
                let e = emit(*form, dstr);
                {
                    // one lock for both vectors keeps them parallel across threads
                    let mut ex = th.expects.lock().unwrap();
                    ex.push((std::thread::current().id(), e, target, strict));
                    th.impl_targets.lock().unwrap().push(th.impl_slot.map(|r| th.recs[r].id));
                }
                if th.depth >= 2 || th.scope_ended_before {
                    th.nontrivial.store(true, Ordering::Relaxed);
                }
            }
            Node::With { rec, body, panic_at_end } => {
                if th.ended[*rec] {
                    continue;
                }
                let r = th.dyns[*rec];
                let impl_prev = th.impl_slot;
                th.impl_slot = Some(*rec);
                th.stack.push((*rec, 100 + th.stack.len()));
                th.installed_count[*rec] += 1;
                th.depth += 1;
                let depth_stack = th.stack.len();
                let res = catch_unwind(AssertUnwindSafe(|| {
                    metrics::with_local_recorder(r, || {
                        exec(body, th, clean);
                        if *panic_at_end {
                            // a destructor that emits while the panic unwinds through this scope: the scope has not
                            // ended yet, so the emission is routed like any other made at this point
                            struct OnDrop<F: FnMut()>(F);
                            impl<F: FnMut()> Drop for OnDrop<F> {
                                fn drop(&mut self) {
                                    (self.0)()
                                }
                            }
                            let thp: *mut Th = th;
                            let _g = OnDrop(move || unsafe { exec(&[Node::Emit(body.len() % NFORMS, 1)], &mut *thp, clean) });
                            std::panic::resume_unwind(Box::new(PanicMarker));
                        }
                    })
                }));
                if let Err(p) = res {
                    if p.downcast_ref::<PanicMarker>().is_none() {
                        std::panic::resume_unwind(p);
                    }
                }
                // the scope ended (normally or by unwinding): the model restores what was below it.
                // A guard created inside the closure and still alive now outlives the closure's own
                // installation, which is an out-of-order end of scopes.
                if th.stack.len() > depth_stack {
                    th.non_lifo = true;
                }
                th.stack.truncate(depth_stack - 1);
                th.impl_slot = impl_prev;
                th.installed_count[*rec] -= 1;
                th.depth -= 1;
                th.scope_ended_before = true;
            }
            Node::Guard { rec, slot } => {
                if th.ended[*rec] || th.guards[*slot].is_some() {
                    continue;
                }
                let g = metrics::set_default_local_recorder(th.dyns[*rec]);
                th.guards[*slot] = Some(g);
                th.guard_prev[*slot] = Some(th.impl_slot);
                th.impl_slot = Some(*rec);
                th.guard_rec[*slot] = Some(*rec);
                th.stack.push((*rec, *slot));
                th.installed_count[*rec] += 1;
                th.depth += 1;
            }
            Node::DropGuard(slot) => {
                if let Some(g) = th.guards[*slot].take() {
                    let rec = th.guard_rec[*slot].take().unwrap();
                    // LIFO iff this guard's installation is the top of the model stack
                    if let Some(pos) = th.stack.iter().rposition(|r| r.1 == *slot) {
                        if pos != th.stack.len() - 1 {
                            th.non_lifo = true;
                        }
                        th.stack.remove(pos);
                    }
                    drop(g);
                    if let Some(prev) = th.guard_prev[*slot].take() {
                        th.impl_slot = prev;
                    }
                    th.installed_count[rec] -= 1;
                    th.depth = th.depth.saturating_sub(1);
                    th.scope_ended_before = true;
                }
            }
            Node::ForgetGuard(slot) => {
                if let Some(g) = th.guards[*slot].take() {
                    let rec = th.guard_rec[*slot].take().unwrap();
                    std::mem::forget(g);
                    th.guard_prev[*slot] = None;
                    th.forgotten[rec] = true;
                    // the installation stays in thread-local storage: keep it in the model stack (routing is not asserted from here on)
                    th.installed_count[rec] -= 1; // the borrow is over as far as the compiler is concerned
                }
            }
            Node::EndBorrow(rec) => {
                if !th.ended[*rec] && th.installed_count[*rec] == 0 {
                    th.ended[*rec] = true;
                    th.recs[*rec].in_scope.store(false, Ordering::SeqCst);
                }
            }
        }
    }
}

thread_local! {
    static POOL: RefCell<Vec<Vec<&'static LogRecorder>>> = RefCell::new(Vec::new());
}

fn run_case(case: &Case, sched_bytes: &[u8], ctx: &mut Ctx, global_id: Option<u32>, global_log: Option<&crate::doubles::Log>) -> Result<(), Fail> {
    let log = new_log();
    // leaked doubles ('static so that the *borrow* can end while the memory stays valid)
    let mut recs: Vec<Vec<&'static LogRecorder>> = vec![];
    let mut dyns: Vec<Vec<&'static (dyn metrics::Recorder + Sync)>> = vec![];
    for t in 0..case.threads.len() {
        let id = |i: usize| (t * 10 + i + 1) as u32;
        let plain: Vec<&'static LogRecorder> = (0..2).map(|i| &*Box::leak(Box::new(LogRecorder::new(id(i), &log)))).collect();
        // recorders 2 and 3 live at one address (wrapper and first field)
        let alias: &'static Alias = Box::leak(Box::new(Alias { first: LogRecorder::new(id(3), &log), second: LogRecorder::new(id(2), &log) }));
        recs.push(vec![plain[0], plain[1], &alias.second, &alias.first]);
        dyns.push(vec![plain[0], plain[1], alias, &alias.first]);
    }
    let expects: Mutex<Vec<(std::thread::ThreadId, Expect, Option<u32>, bool)>> = Mutex::new(vec![]);
    let impl_targets: Mutex<Vec<Option<u32>>> = Mutex::new(vec![]);
    let flags: Mutex<Vec<(usize, bool, Vec<bool>)>> = Mutex::new(vec![]);
    let nontrivial = std::sync::atomic::AtomicBool::new(false);
    let owner: Mutex<Vec<(std::thread::ThreadId, usize)>> = Mutex::new(vec![]);
    let global_before = global_log.map(|l| l.lock().unwrap().len()).unwrap_or(0);
    let bodies: Vec<Box<dyn FnOnce() + Send + '_>> = case
        .threads
        .iter()
        .enumerate()
        .map(|(t, prog)| {
            let (recs, dyns, expects, impl_targets, flags, nontrivial, owner) = (&recs, &dyns, &expects, &impl_targets, &flags, &nontrivial, &owner);
            let clean = case.clean;
            Box::new(move || {
                owner.lock().unwrap().push((std::thread::current().id(), t));
                let mut th = Th {
                    recs: recs[t].clone(),
                    dyns: dyns[t].clone(),
                    guards: (0..NSLOT).map(|_| None).collect(),
                    guard_rec: vec![None; NSLOT],
                    impl_targets,
                    impl_slot: None,
                    guard_prev: vec![None; NSLOT],
                    stack: vec![],
                    ended: vec![false; NREC],
                    installed_count: vec![0; NREC],
                    forgotten: vec![false; NREC],
                    non_lifo: false,
                    expects,
                    depth: 0,
                    scope_ended_before: false,
                    nontrivial,
                };
                exec(prog, &mut th, clean);
                // thread epilogue: remaining guards are dropped (slot order, which may be out of order in dirty
                // mode), then every recorder's borrow ends, then two more emissions are made: whatever is
                // still installed in thread-local storage at this point is a recorder whose scope ended
                let leftovers: Vec<Node> = (0..NSLOT).filter(|s| th.guards[*s].is_some()).map(Node::DropGuard).collect();
                exec(&leftovers, &mut th, clean);
                let tail: Vec<Node> = (0..NREC).map(Node::EndBorrow).chain([Node::Emit(0, 0), Node::Emit(26, 1)]).collect();
                exec(&tail, &mut th, clean);
                flags.lock().unwrap().push((t, th.non_lifo, th.forgotten.clone()));
            }) as Box<dyn FnOnce() + Send + '_>
        })
        .collect();
    let out = sched::explore(sched_bytes, SchedOpts { fresh_threads: true, max_steps: 5000, ..Default::default() }, bodies);
    if out.budget_exhausted {
        ctx.discard = true;
        return Ok(());
    }
    ensure!(out.panics.is_empty(), "panic-in-thread", "{:?}", out.panics);
    if nontrivial.load(Ordering::Relaxed) {
        ctx.nontrivial("emission-nested-or-after-scope-end");
    }
    let any_non_lifo = flags.lock().unwrap().iter().any(|f| f.1);
    let any_forgot = flags.lock().unwrap().iter().any(|f| f.2.iter().any(|x| *x));
    if any_non_lifo {
        ctx.class("non-lifo-guard-drop");
    }
    if any_forgot {
        ctx.class("guard-forgotten");
    }
    if !case.clean {
        ctx.class("dirty-mode");
    } else {
        ctx.excluded = Some("clean-mode:no-forget-no-out-of-order-drop");
    }
    // ---- oracle
    let events: Vec<RecEvent> = log.lock().unwrap().clone();
    let owner = owner.into_inner().unwrap();
    let thread_index = |tid: std::thread::ThreadId| owner.iter().find(|(t, _)| *t == tid).map(|(_, i)| *i);
    // (a) never entered while out of scope; (d) never from a thread that did not install it
    let mut deferred: Option<Fail> = None;
    for e in events.iter().filter(|e| e.key.is_none()) {
        // classify by what happened to *this* recorder on *its* thread
        let (rt, ri) = (((e.rec - 1) / 10) as usize, ((e.rec - 1) % 10) as usize);
        let fl = flags.lock().unwrap();
        let mine = fl.iter().find(|f| f.0 == rt);
        let sig = if mine.map(|f| f.2.get(ri).copied().unwrap_or(false)).unwrap_or(false) {
            "dispatch-after-forget"
        } else if mine.map(|f| f.1).unwrap_or(false) {
            "restore-after-non-lifo-drop"
        } else {
            "dispatch-to-ended-recorder"
        };
        drop(fl);
        if !e.in_scope && sig != "dispatch-to-ended-recorder" {
            // one of the two known findings: remember it, but let the remaining checks look for anything else first
            // (a known finding must not hide a different violation in the same history)
            deferred.get_or_insert_with(|| Fail::new(sig, format!("recorder {} was entered ({:?}) after the borrow that installed it had ended; case {:?}", e.rec, e.op, case)));
            continue;
        }
        ensure!(e.in_scope, sig, "recorder {} was entered ({:?}) after the borrow that installed it had ended; case {:?}", e.rec, e.op, case);
        let t = thread_index(e.thread);
        ensure!(t == Some(((e.rec - 1) / 10) as usize), "local-recorder-visible-to-other-thread", "recorder {} (private to thread {}) received an emission made on thread {:?}", e.rec, (e.rec - 1) / 10, t);
    }
    // (b)/(c): each emission delivered exactly once, to the expected recorder, with what the call site spells
    let global_events: Vec<RecEvent> = global_log.map(|l| l.lock().unwrap()[global_before..].to_vec()).unwrap_or_default();
    let exps = expects.into_inner().unwrap();
    let impl_t = impl_targets.into_inner().unwrap();
    let flags_snapshot: Vec<(usize, bool, Vec<bool>)> = flags.lock().unwrap().clone();
    let fl_forgot = |tid: std::thread::ThreadId| -> bool { thread_index(tid).and_then(|t| flags_snapshot.iter().find(|f| f.0 == t)).map(|f| f.2.iter().any(|x| *x)).unwrap_or(false) };
    // exactly-once overall: per thread, the number of describe/register events equals the number of emissions expected to reach some recorder
    for (tid, _) in owner.iter() {
        let delivered = events.iter().chain(global_events.iter()).filter(|ev| ev.thread == *tid && ev.key.is_none()).count();
        let emitted_total = exps.iter().filter(|(t, ..)| t == tid).count();
        let strict_all = exps.iter().filter(|(t, ..)| t == tid).all(|x| x.3);
        let expected_delivered = exps.iter().filter(|(t, _, target, _)| t == tid && (target.is_some() || global_id.is_some())).count();
        if strict_all {
            ensure!(delivered == expected_delivered, "delivery-count-wrong", "thread {:?}: {} emissions should have reached a recorder, {} describe/register events were logged", thread_index(*tid), expected_delivered, delivered);
            // and per recorder the multiset of spelled emissions matches
            let mut want: std::collections::HashMap<(u32, String), i64> = Default::default();
            for (_, e, target, _) in exps.iter().filter(|(t, ..)| t == tid) {
                if let Some(r) = target.or(global_id) {
                    *want.entry((r, format!("{:?}", e))).or_insert(0) += 1;
                }
            }
            for ev in events.iter().chain(global_events.iter()).filter(|ev| ev.thread == *tid && ev.key.is_none()) {
                let as_expect = match &ev.op {
                    Op::Describe { kind, name, unit, desc } => Expect { kind: *kind, describe: true, name: name.clone(), labels: vec![], target: String::new(), level: Level::INFO, unit: *unit, desc: desc.clone() },
                    Op::Register { kind, name, labels, target, level, module_path } => {
                        ensure!(module_path.as_deref() == Some(MODULE), "module-path-wrong", "module path {:?}", module_path);
                        Expect { kind: *kind, describe: false, name: name.clone(), labels: labels.clone(), target: target.clone(), level: *level, unit: None, desc: String::new() }
                    }
                    _ => continue,
                };
                let k = (ev.rec, format!("{:?}", as_expect));
                let c = want.entry(k.clone()).or_insert(0);
                *c -= 1;
                ensure!(*c >= 0, "unexpected-or-misrouted-delivery", "recorder {} received {:?}, which the model does not route there (or routes there fewer times); case {:?}", ev.rec, as_expect, case);
            }
            ensure!(want.values().all(|c| *c == 0), "emission-missing", "some emissions did not arrive where the model routes them: {:?}", want.iter().filter(|(_, c)| **c != 0).collect::<Vec<_>>());
        } else {
            ensure!(delivered <= emitted_total, "more-deliveries-than-emissions", "thread {:?}: {} emissions but {} deliveries", thread_index(*tid), emitted_total, delivered);
            // Histories with an out-of-order end or a forgotten guard: every emission must still go where the statement
            // routes it, or — the two known findings — where "each scope end writes back the pointer it saved" sends it.
            // Anything else (lost, duplicated, sent to a third recorder) is a different defect.
            let mine: Vec<(String, Option<u32>, Option<u32>)> = exps
                .iter()
                .zip(impl_t.iter())
                .filter(|((t, ..), _)| t == tid)
                .map(|((_, e, spec, _), imp)| (format!("{:?}", e), spec.or(global_id), imp.or(global_id)))
                .collect();
            let mut evs: Vec<(String, u32)> = vec![];
            for ev in events.iter().chain(global_events.iter()).filter(|ev| ev.thread == *tid && ev.key.is_none()) {
                let as_expect = match &ev.op {
                    Op::Describe { kind, name, unit, desc } => Expect { kind: *kind, describe: true, name: name.clone(), labels: vec![], target: String::new(), level: Level::INFO, unit: *unit, desc: desc.clone() },
                    Op::Register { kind, name, labels, target, level, .. } => Expect { kind: *kind, describe: false, name: name.clone(), labels: labels.clone(), target: target.clone(), level: *level, unit: None, desc: String::new() },
                    _ => continue,
                };
                evs.push((format!("{:?}", as_expect), ev.rec));
            }
            // the log is ordered by time across recorders only per recorder; order the thread's events by position in the
            // shared log (one log for all local doubles) followed by the global ones — alignment is by subsequence per target,
            // so only "is there an assignment" is asked: emissions in order, each either delivered to an allowed recorder
            // (consuming that recorder's next event with the same content) or, if an allowed target is "nobody", not at all
            let feasible = |use_impl: bool| -> bool {
                let mut next: std::collections::HashMap<u32, usize> = Default::default(); // per recorder: events consumed
                let per_rec = |r: u32| -> Vec<&String> { evs.iter().filter(|(_, er)| *er == r).map(|(c, _)| c).collect() };
                // greedy is exact here: an emission has at most two candidate recorders and per-recorder order is fixed, so try
                // spec first, then impl, with backtracking over the (few) emissions where both are possible
                #[allow(clippy::too_many_arguments)]
                fn go(i: usize, mine: &[(String, Option<u32>, Option<u32>)], use_impl: bool, next: &mut std::collections::HashMap<u32, usize>, per_rec: &dyn Fn(u32) -> Vec<String>, total: usize, used: usize, dead: &mut std::collections::HashSet<(usize, Vec<(u32, usize)>)>) -> bool {
                    if i == mine.len() {
                        return used == total;
                    }
                    let mut state: Vec<(u32, usize)> = next.iter().map(|(k, v)| (*k, *v)).filter(|(_, v)| *v > 0).collect();
                    state.sort();
                    if dead.contains(&(i, state.clone())) {
                        return false;
                    }
                    let (content, spec, imp) = &mine[i];
                    let mut cands: Vec<Option<u32>> = vec![*spec];
                    if use_impl && imp != spec {
                        cands.push(*imp);
                    }
                    for c in cands {
                        match c {
                            None => {
                                if go(i + 1, mine, use_impl, next, per_rec, total, used, dead) {
                                    return true;
                                }
                            }
                            Some(r) => {
                                let k = *next.get(&r).unwrap_or(&0);
                                let evr = per_rec(r);
                                if k < evr.len() && evr[k] == *content {
                                    next.insert(r, k + 1);
                                    if go(i + 1, mine, use_impl, next, per_rec, total, used + 1, dead) {
                                        return true;
                                    }
                                    next.insert(r, k);
                                }
                            }
                        }
                    }
                    dead.insert((i, state));
                    false
                }
                let owned = |r: u32| -> Vec<String> { per_rec(r).into_iter().cloned().collect() };
                go(0, &mine, use_impl, &mut next, &owned, evs.len(), 0, &mut Default::default())
            };
            if !feasible(false) {
                let known = if fl_forgot(*tid) { "dispatch-after-forget" } else { "restore-after-non-lifo-drop" };
                ensure!(feasible(true), "unexpected-or-misrouted-delivery", "thread {:?} (scopes ended out of order / guard forgotten): the deliveries {:?} match neither the statement's routing nor the known write-back-what-was-saved behaviour; emissions (content, routed to, known behaviour sends to): {:?}; case {:?}", thread_index(*tid), evs, mine, case);
                deferred.get_or_insert_with(|| Fail::new(known, format!("thread {:?}: emissions were routed by 'each scope end writes back the pointer it saved' rather than to the innermost recorder still in scope: {:?} delivered as {:?}", thread_index(*tid), mine, evs)));
            }
        }
    }
    match deferred {
        Some(f) => Err(f),
        None => Ok(()),
    }
}


/// The programs of the exhaustive lane (see `exhaustive_case` for the encoding) and the number of plain move sequences.
fn exhaustive_programs() -> (Vec<Vec<u8>>, usize) {
    // enumerate sequences of moves: 0 = create next guard, 1+i = drop guard i, 10+i = forget guard i
    let mut seqs: Vec<Vec<u8>> = vec![];
    fn go(next: usize, alive: &Vec<usize>, cur: &mut Vec<u8>, out: &mut Vec<Vec<u8>>) {
        if !cur.is_empty() {
            out.push(cur.clone());
        }
        if cur.len() >= 6 {
            return;
        }
        if next < 3 {
            let mut a = alive.clone();
            a.push(next);
            cur.push(0);
            go(next + 1, &a, cur, out);
            cur.pop();
        }
        for (pos, g) in alive.iter().enumerate() {
            for forget in [false, true] {
                let mut a = alive.clone();
                a.remove(pos);
                cur.push(if forget { 10 + *g as u8 } else { 1 + *g as u8 });
                go(next, &a, cur, out);
                cur.pop();
            }
        }
    }
    go(0, &vec![], &mut vec![], &mut seqs);
    // every sequence as it is, and (for sequences of at most 5 moves) with every contiguous range of its moves placed
    // inside a with_local_recorder closure on a fourth recorder — so guards of the enclosing body are dropped or
    // forgotten from inside the closure and guards created inside it may outlive it
    let mut programs: Vec<Vec<u8>> = vec![];
    for seq in &seqs {
        programs.push(seq.clone());
        if seq.len() <= 5 {
            for a in 0..seq.len() {
                for b in a + 1..=seq.len() {
                    let mut p = seq.clone();
                    p.push(100 + a as u8);
                    p.push(100 + b as u8);
                    programs.push(p);
                }
            }
        }
    }
    let n = seqs.len();
    (programs, n)
}

/// One program of the exhaustive lane: moves (0 = create the next guard, 1+i = drop guard i, 10+i = forget guard i), an
/// emission after each, optionally followed by two bytes 100+a, 100+b meaning "moves a..b run inside a closure scope".
fn exhaustive_case(prog: &[u8], k: usize) -> Case {
    let (seq, wrap): (&[u8], Option<(usize, usize)>) = match prog {
        [head @ .., a, b] if *a >= 100 && *b >= 100 => (head, Some(((*a - 100) as usize, (*b - 100) as usize))),
        _ => (prog, None),
    };
    let mut per_move: Vec<Vec<Node>> = vec![];
    let mut alive: Vec<usize> = vec![];
    let mut next = 0usize;
    let mut clean = wrap.is_none();
    for m in seq {
        let mut nodes = vec![];
        match *m {
            0 => {
                nodes.push(Node::Guard { rec: next, slot: next });
                alive.push(next);
                next += 1;
            }
            x if x >= 10 => {
                let g = (x - 10) as usize;
                alive.retain(|a| *a != g);
                nodes.push(Node::ForgetGuard(g));
                clean = false;
            }
            x => {
                let g = (x - 1) as usize;
                if alive.last() != Some(&g) {
                    clean = false;
                }
                alive.retain(|a| *a != g);
                nodes.push(Node::DropGuard(g));
            }
        }
        nodes.push(Node::Emit(k % NFORMS, 0));
        per_move.push(nodes);
    }
    // leftovers are dropped in slot order by the epilogue, which is creation order = out of order when >= 2 remain
    if alive.len() >= 2 {
        clean = false;
    }
    let nodes: Vec<Node> = match wrap {
        None => per_move.into_iter().flatten().collect(),
        Some((a, b)) => {
            let (a, b) = (a.min(per_move.len()), b.min(per_move.len()).max(a.min(per_move.len())));
            let mut out: Vec<Node> = per_move[..a].iter().flatten().cloned().collect();
            let mut body: Vec<Node> = per_move[a..b].iter().flatten().cloned().collect();
            body.push(Node::Emit((k + 1) % NFORMS, 1));
            out.push(Node::With { rec: 3, body, panic_at_end: false });
            out.push(Node::Emit((k + 2) % NFORMS, 2));
            out.extend(per_move[b..].iter().flatten().cloned());
            out
        }
    };
    Case { clean, threads: vec![nodes] }
}

pub fn case_exhaustive_replay(bytes: &[u8], _s: &[u8], ctx: &mut Ctx) -> Result<(), Fail> {
    let case = exhaustive_case(bytes, bytes.len());
    ctx.case(&case);
    run_case(&case, &[], ctx, None, None)
}

/// Bounded-exhaustive: every order of creating, dropping and forgetting up to three guards (each on
/// its own recorder), with an emission after every step and the usual epilogue.
fn exhaustive(pr: &PropRun) -> crate::engine::runner::LaneReport {
    use crate::engine::runner::{LaneReport, Violation};
    let start = std::time::Instant::now();
    let mut rep = LaneReport::named("exhaustive-guard-orders-le3");
    rep.exhaustive = true;
    let (programs, nseqs) = exhaustive_programs();
    for (k, prog) in programs.iter().enumerate() {
        let case = exhaustive_case(prog, k);
        let mut ctx = Ctx::default();
        ctx.fingerprint = Some(k as u64);
        if k % 97 == 5 {
            ctx.desc = Some(format!("{:?}", case));
        }
        let r = run_case(&case, &[], &mut ctx, None, None);
        rep.account(ctx);
        if let Err(f) = r {
            if pr.cfg.is_known(&f.sig) {
                rep.known_hits.entry(f.sig.clone()).or_insert((0, vec![], vec![], format!("{:?}", case))).0 += 1;
            } else {
                rep.violations.push(Violation { lane: "exhaustive-guard-orders-le3".into(), sig: f.sig, msg: f.msg, bytes: prog.clone(), sched: vec![], decoded: format!("{:?}", case) });
                break;
            }
        }
    }
    rep.notes.push(format!("{} programs: {} move sequences over <= 3 guards, the short ones also with every contiguous range of moves inside a closure scope", programs.len(), nseqs));
    rep.wall_s = start.elapsed().as_secs_f64();
    rep
}

pub fn case_local(bytes: &[u8], sched_bytes: &[u8], ctx: &mut Ctx) -> Result<(), Fail> {
    let mut src = Source::new(bytes);
    let case = decode(&mut src);
    ctx.case(&(&case, sched_bytes));
    run_case(&case, sched_bytes, ctx, None, None)
}

thread_local! {
    static GLOBAL: RefCell<Option<(u32, crate::doubles::Log)>> = RefCell::new(None);
}
static GLOBAL_LOG: std::sync::OnceLock<crate::doubles::Log> = std::sync::OnceLock::new();

pub fn case_with_global(bytes: &[u8], sched_bytes: &[u8], ctx: &mut Ctx) -> Result<(), Fail> {
    let mut src = Source::new(bytes);
    let case = decode(&mut src);
    ctx.case(&(&case, sched_bytes));
    let gl = GLOBAL_LOG.get().expect("global installed");
    run_case(&case, sched_bytes, ctx, Some(999), Some(gl))
}

// ---------------------------------------------------------------- guard thread affinity
//
// The generated programs above only contain what the compiler accepts today: a guard cannot leave its
// thread because `LocalRecorderGuard` is not `Send`. Whether that is (still) so is probed at compile time
// (an inherent method on `SendProbe<T: Send>` shadows the trait fallback), and if the type system would let
// a safe program move a guard to another thread, the lane runs exactly those programs and applies the
// property's oracle to them: a scope ended on another thread must not make a recorder visible there, and
// the creating thread must get its previous recorder back.
struct SendProbe<T>(std::marker::PhantomData<T>);
trait SendProbeFallback {
    fn is_send(&self) -> bool {
        false
    }
}
impl<T> SendProbeFallback for SendProbe<T> {}
impl<T: Send> SendProbe<T> {
    fn is_send(&self) -> bool {
        true
    }
}
/// Used only when the probe says the wrapped type is `Send` anyway (so the harness does nothing safe code could not).
struct Carry<T>(T);
unsafe impl<T> Send for Carry<T> {}

fn guard_is_send() -> bool {
    SendProbe::<LocalRecorderGuard<'static>>(std::marker::PhantomData).is_send()
}

/// variant 0: outer closure scope r0 on A, guard r1 on A, guard dropped on B; 1: no outer scope; 2: B has its own scope r2 when it drops the guard
fn affinity_program(variant: u8) -> Result<(), Fail> {
    let log = new_log();
    let r: Vec<&'static LogRecorder> = (0..3).map(|i| &*Box::leak(Box::new(LogRecorder::new(700 + i, &log)))).collect();
    let (r0, r1, r2) = (r[0], r[1], r[2]);
    let a_id = std::thread::current().id();
    let body = move || -> Result<(), Fail> {
        let g = Carry(metrics::set_default_local_recorder(r1));
        let b = std::thread::spawn(move || {
            let g = g;
            let inner = move || {
                drop(g.0);
                counter!("affinity_b").increment(1);
            };
            if variant == 2 {
                metrics::with_local_recorder(r2, inner);
                counter!("affinity_b_after").increment(1);
            } else {
                inner();
            }
            std::thread::current().id()
        });
        let b_id = b.join().map_err(|_| Fail::new("panic-in-thread", "the thread that received the guard panicked".to_string()))?;
        counter!("affinity_a").increment(1);
        let l = log.lock().unwrap();
        for e in l.iter() {
            let home = if e.rec == 702 { b_id } else { a_id };
            if e.thread != home {
                return Err(Fail::new("local-recorder-visible-to-another-thread", format!("recorder {} was installed locally on one thread but received {:?} from another thread (guard dropped across threads, variant {})", e.rec, e.op, variant)));
            }
        }
        // r1's scope has ended (its guard is gone): A's emission must go to what was in scope before it
        let a_em: Vec<u32> = l.iter().filter(|e| matches!(&e.op, Op::Register { name, .. } if name == "affinity_a")).map(|e| e.rec).collect();
        let want: Vec<u32> = if variant == 1 { vec![] } else { vec![700] };
        if a_em != want {
            return Err(Fail::new("scope-end-did-not-restore-previous-recorder", format!("after the guard of recorder 701 ended (on another thread), the creating thread's emission went to {:?}, expected {:?} (variant {})", a_em, want, variant)));
        }
        Ok(())
    };
    if variant == 1 {
        body()
    } else {
        metrics::with_local_recorder(r0, body)
    }
}

pub fn case_affinity(bytes: &[u8], _s: &[u8], ctx: &mut Ctx) -> Result<(), Fail> {
    let variant = bytes.first().copied().unwrap_or(0) % 3;
    ctx.case(&("guard moved to another thread and dropped there", variant));
    if !guard_is_send() {
        ctx.class("guard-not-send-program-rejected-by-compiler");
        return Ok(());
    }
    ctx.nontrivial("guard-is-send-cross-thread-scope-end");
    std::thread::spawn(move || affinity_program(variant)).join().map_err(|_| Fail::new("panic-in-thread", "affinity program panicked".to_string()))?
}

fn affinity(pr: &PropRun) -> crate::engine::runner::LaneReport {
    use crate::engine::runner::{LaneReport, Violation};
    let start = std::time::Instant::now();
    let mut rep = LaneReport::named("guard-thread-affinity");
    rep.exhaustive = true;
    for v in 0..3u8 {
        let mut ctx = Ctx::default();
        ctx.fingerprint = Some(v as u64);
        let r = crate::engine::runner::run_case(&case_affinity, &[v], &[], &mut ctx);
        let desc = format!("variant {}: LocalRecorderGuard is {}Send", v, if guard_is_send() { "" } else { "not " });
        ctx.desc = Some(desc.clone());
        rep.account(ctx);
        if let Err(f) = r {
            if !pr.cfg.is_known(&f.sig) {
                rep.violations.push(Violation { lane: "guard-thread-affinity".into(), sig: f.sig, msg: f.msg, bytes: vec![v], sched: vec![], decoded: desc });
                break;
            }
        }
    }
    rep.notes.push(format!("LocalRecorderGuard: Send = {}", guard_is_send()));
    rep.wall_s = start.elapsed().as_secs_f64();
    rep
}

// ---------------------------------------------------------------- re-entrant local recorders
//
// A locally installed recorder that emits through the macros from inside one of its own calls (a self-instrumenting
// recorder, a wrapping layer): its scope is still open while the call runs, so the nested emission goes to the
// innermost local recorder like any other, and guards created or dropped around such calls restore what they saved.

/// Logs under `inner`'s identity; for the name "nest_me" it first emits a counter through the macros, for
/// "nest_scope" it opens (and closes) a local scope on `other` from inside the call and emits in it.
struct NestingRecorder {
    inner: LogRecorder,
    other: &'static LogRecorder,
}
impl metrics::Recorder for NestingRecorder {
    fn describe_counter(&self, k: metrics::KeyName, u: Option<Unit>, d: metrics::SharedString) {
        match k.as_str() {
            "nest_me" => counter!("nested_from_inside").increment(1),
            "nest_scope" => {
                metrics::with_local_recorder(self.other, || counter!("nested_in_inner_scope").increment(1));
                counter!("nested_after_inner_scope").increment(1);
            }
            _ => {}
        }
        self.inner.describe_counter(k, u, d)
    }
    fn describe_gauge(&self, k: metrics::KeyName, u: Option<Unit>, d: metrics::SharedString) {
        self.inner.describe_gauge(k, u, d)
    }
    fn describe_histogram(&self, k: metrics::KeyName, u: Option<Unit>, d: metrics::SharedString) {
        self.inner.describe_histogram(k, u, d)
    }
    fn register_counter(&self, k: &metrics::Key, m: &metrics::Metadata<'_>) -> metrics::Counter {
        if k.name() == "register_nests" {
            describe_gauge!("nested_describe_from_register", "d");
        }
        self.inner.register_counter(k, m)
    }
    fn register_gauge(&self, k: &metrics::Key, m: &metrics::Metadata<'_>) -> metrics::Gauge {
        self.inner.register_gauge(k, m)
    }
    fn register_histogram(&self, k: &metrics::Key, m: &metrics::Metadata<'_>) -> metrics::Histogram {
        self.inner.register_histogram(k, m)
    }
}

pub fn case_reentrant(bytes: &[u8], _s: &[u8], ctx: &mut Ctx) -> Result<(), Fail> {
    let variant = bytes.first().copied().unwrap_or(0) % 6;
    ctx.case(&("re-entrant local recorder", variant));
    ctx.nontrivial("emission-from-inside-a-local-recorders-call");
    std::thread::spawn(move || -> Result<(), Fail> {
        let log = new_log();
        let other: &'static LogRecorder = Box::leak(Box::new(LogRecorder::new(802, &log)));
        let outer: &'static LogRecorder = Box::leak(Box::new(LogRecorder::new(803, &log)));
        let nest: &'static NestingRecorder = Box::leak(Box::new(NestingRecorder { inner: LogRecorder::new(801, &log), other }));
        let names = |rec: u32| -> Vec<String> { log.lock().unwrap().iter().filter(|e| e.rec == rec).filter_map(|e| match &e.op { Op::Register { name, .. } | Op::Describe { name, .. } => Some(name.clone()), _ => None }).collect() };
        let want = |rec: u32, expect: &[&str], what: &str| -> Result<(), Fail> {
            let got = names(rec);
            ensure!(got == expect, "nested-emission-misrouted", "variant {} ({}): recorder {} received {:?}, expected {:?}; all deliveries {:?}", variant, what, rec, got, expect, log.lock().unwrap().iter().map(|e| (e.rec, format!("{:?}", e.op))).collect::<Vec<_>>());
            Ok(())
        };
        match variant {
            0 => {
                metrics::with_local_recorder(nest, || describe_counter!("nest_me", "d"));
                want(801, &["nested_from_inside", "nest_me"], "closure scope; the recorder emits from inside describe_counter")?;
            }
            1 => {
                let g = metrics::set_default_local_recorder(nest);
                describe_counter!("nest_me", "d");
                counter!("register_nests").increment(1);
                drop(g);
                counter!("after_scope").increment(1);
                want(801, &["nested_from_inside", "nest_me", "nested_describe_from_register", "register_nests"], "guard scope; nested emission from describe and from register")?;
            }
            2 => {
                // an enclosing scope on another recorder must not receive the nested emission
                metrics::with_local_recorder(outer, || {
                    metrics::with_local_recorder(nest, || describe_counter!("nest_me", "d"));
                    counter!("outer_after").increment(1);
                });
                want(801, &["nested_from_inside", "nest_me"], "inner scope nests")?;
                want(803, &["outer_after"], "enclosing scope")?;
            }
            3 => {
                // the recorder opens a scope of its own from inside the call; afterwards it is the innermost one again
                metrics::with_local_recorder(nest, || {
                    describe_counter!("nest_scope", "d");
                    counter!("after_the_call").increment(1);
                });
                want(802, &["nested_in_inner_scope"], "scope opened inside the call")?;
                want(801, &["nested_after_inner_scope", "nest_scope", "after_the_call"], "after the inner scope closed")?;
            }
            4 => {
                // the same from a guard scope, twice, with an enclosing scope
                let g0 = metrics::set_default_local_recorder(outer);
                let g1 = metrics::set_default_local_recorder(nest);
                describe_counter!("nest_scope", "d");
                describe_counter!("nest_me", "d");
                drop(g1);
                counter!("outer_after").increment(1);
                drop(g0);
                counter!("nobody").increment(1);
                want(801, &["nested_after_inner_scope", "nest_scope", "nested_from_inside", "nest_me"], "guard scopes")?;
                want(803, &["outer_after"], "enclosing guard scope restored")?;
                want(802, &["nested_in_inner_scope"], "scope opened inside the call")?;
            }
            _ => {
                // through with_recorder directly
                metrics::with_local_recorder(nest, || metrics::with_recorder(|r| r.describe_counter("nest_me".into(), None, "d".into())));
                want(801, &["nested_from_inside", "nest_me"], "call made through with_recorder")?;
            }
        }
        Ok(())
    })
    .join()
    .map_err(|_| Fail::new("panic-in-thread", "the re-entrant program panicked".to_string()))?
}

fn reentrant(pr: &PropRun) -> crate::engine::runner::LaneReport {
    use crate::engine::runner::{LaneReport, Violation};
    let start = std::time::Instant::now();
    let mut rep = LaneReport::named("re-entrant-local-recorder");
    rep.exhaustive = true;
    for v in 0..6u8 {
        let mut ctx = Ctx::default();
        ctx.fingerprint = Some(v as u64);
        let r = crate::engine::runner::run_case(&case_reentrant, &[v], &[], &mut ctx);
        rep.account(ctx);
        if let Err(f) = r {
            if !pr.cfg.is_known(&f.sig) {
                rep.violations.push(Violation { lane: "re-entrant-local-recorder".into(), sig: f.sig, msg: f.msg, bytes: vec![v], sched: vec![], decoded: format!("variant {}", v) });
                break;
            }
        }
    }
    rep.wall_s = start.elapsed().as_secs_f64();
    rep
}

/// A seed-chosen use of local scopes by a thread that has no recorder otherwise (used by the C01 and C02
/// process lanes before the global recorder is installed): every emission inside a scope must reach that
/// scope's recorder, none outside may.
pub fn preamble(variant: u64, who: &str) -> Result<(), String> {
    let llog = new_log();
    let r1: &'static LogRecorder = Box::leak(Box::new(LogRecorder::new(501, &llog)));
    let r2: &'static LogRecorder = Box::leak(Box::new(LogRecorder::new(502, &llog)));
    counter!("before_any_recorder").increment(1);
    describe_gauge!("before_any_recorder", "d");
    let mut expect_local = 0usize;
    match variant % 6 {
        0 => {}
        1 => {
            metrics::with_local_recorder(r1, || counter!("pre_local").increment(1));
            expect_local = 1;
        }
        2 => {
            let g = metrics::set_default_local_recorder(r1);
            counter!("pre_local").increment(1);
            drop(g);
            expect_local = 1;
        }
        3 => {
            let g = metrics::set_default_local_recorder(r1);
            metrics::with_local_recorder(r2, || counter!("pre_local").increment(1));
            counter!("pre_local").increment(1);
            drop(g);
            expect_local = 2;
        }
        4 => {
            let _ = std::panic::catch_unwind(|| {
                metrics::with_local_recorder(r1, || {
                    counter!("pre_local").increment(1);
                    std::panic::resume_unwind(Box::new("harness: unwinding through a local scope"));
                })
            });
            expect_local = 1;
        }
        _ => {
            for _ in 0..3 {
                metrics::with_local_recorder(r1, || {
                    let g = metrics::set_default_local_recorder(r2);
                    counter!("pre_local").increment(1);
                    drop(g);
                });
            }
            expect_local = 3;
        }
    }
    counter!("before_any_recorder").increment(1);
    let got = llog.lock().unwrap().iter().filter(|e| matches!(&e.op, Op::Register { name, .. } if name == "pre_local")).count();
    if got != expect_local {
        return Err(format!("{}: preamble {} delivered {} of {} emissions to its local recorders", who, variant % 6, got, expect_local));
    }
    if llog.lock().unwrap().iter().any(|e| matches!(&e.op, Op::Register { name, .. } | Op::Describe { name, .. } if name == "before_any_recorder")) {
        return Err(format!("{}: an emission outside every local scope reached a local recorder whose scope had ended", who));
    }
    Ok(())
}

/// Child process: installs a global double, then runs a batch of cases (single worker, since the
/// global log is shared) in which emissions with no local recorder must reach the global one.
pub fn child(seed: u64) -> i32 {
    let log = new_log();
    let g = LogRecorder::new(999, &log);
    // Before the installation both the main thread and a helper thread emit with no recorder at all and
    // run a seed-chosen preamble of local scopes (closure, guard, nested, closure ending in a panic): none
    // of it may be delivered to the global recorder, and once the installation has happened both threads'
    // emissions outside any local scope must reach it.
    let (to_helper, helper_rx) = std::sync::mpsc::channel::<()>();
    let (helper_tx, from_helper) = std::sync::mpsc::channel::<Result<(), String>>();
    let hlog = log.clone();
    let helper = std::thread::spawn(move || {
        let r = preamble(seed.wrapping_add(3), "helper thread");
        let _ = helper_tx.send(r);
        if helper_rx.recv().is_err() {
            return;
        }
        let me = std::thread::current().id();
        counter!("after_install_helper_thread").increment(1);
        let ok = hlog.lock().unwrap().iter().any(|e| e.thread == me && e.rec == 999 && matches!(&e.op, Op::Register { name, .. } if name == "after_install_helper_thread"));
        let _ = helper_tx.send(if ok { Ok(()) } else { Err("a thread that used (and left) local scopes before the global recorder was installed does not reach it afterwards".to_string()) });
    });
    if let Err(e) = preamble(seed, "main thread") {
        println!("CHILD-FAIL pre-install-local-scope-wrong {}", e);
        return 1;
    }
    match from_helper.recv() {
        Ok(Ok(())) => {}
        Ok(Err(e)) => {
            println!("CHILD-FAIL pre-install-local-scope-wrong {}", e);
            return 1;
        }
        Err(_) => {
            println!("CHILD-FAIL panic-in-thread the helper thread died in its pre-install preamble");
            return 1;
        }
    }
    if metrics::set_global_recorder(g).is_err() {
        println!("harness: could not install the global double");
        return 2;
    }
    // ... and the same threads' emissions reach the global recorder once it is installed
    {
        let before = log.lock().unwrap().len();
        counter!("after_install_same_thread").increment(1);
        let l = log.lock().unwrap();
        if l.iter().any(|e| matches!(&e.op, Op::Register { name, .. } | Op::Describe { name, .. } if name == "before_any_recorder" || name == "pre_local")) {
            println!("CHILD-FAIL pre-install-emission-delivered an emission made before the global recorder existed was delivered to it");
            return 1;
        }
        if !(l.len() > before && matches!(&l[before].op, Op::Register { name, .. } if name == "after_install_same_thread")) {
            println!("CHILD-FAIL emission-after-install-not-delivered the thread that emitted (preamble {}) before the global recorder was installed does not reach it afterwards", seed % 6);
            return 1;
        }
    }
    let _ = to_helper.send(());
    match from_helper.recv() {
        Ok(Ok(())) => {}
        Ok(Err(e)) => {
            println!("CHILD-FAIL emission-after-install-not-delivered {} (preamble {})", e, seed.wrapping_add(3) % 6);
            return 1;
        }
        Err(_) => {
            println!("CHILD-FAIL panic-in-thread the helper thread died after the installation");
            return 1;
        }
    }
    let _ = helper.join();
    let _ = GLOBAL_LOG.set(log);
    // In this fresh process, before anything leaks a guard: every forget-free program of the exhaustive lane, one at a
    // time (process-wide bookkeeping inside the library — counters of installed recorders and the like — is only
    // observable while no other thread and no leaked guard disturbs it).
    {
        let gl = GLOBAL_LOG.get().expect("global installed");
        let (programs, _) = exhaustive_programs();
        for (k, prog) in programs.iter().enumerate().filter(|(_, p)| p.iter().all(|m| *m < 10 || *m >= 100)) {
            let case = exhaustive_case(prog, k);
            let mut ctx = Ctx::default();
            if let Err(f) = run_case(&case, &[], &mut ctx, Some(999), Some(gl)) {
                if f.sig != "dispatch-after-forget" && f.sig != "restore-after-non-lifo-drop" {
                    println!("CHILD-FAIL {} {} ; exhaustive program {:?} in a fresh process", f.sig, f.msg.replace('\n', " "), prog);
                    return 1;
                }
            }
        }
    }
    let cfg = RunCfg { tier: crate::engine::runner::Tier::Quick, seed, scale: 1.0, strict: false, known: vec!["dispatch-after-forget".into(), "restore-after-non-lifo-drop".into()] };
    let rep = run_lane(&cfg, "C01", &Lane { name: "with-global-recorder", cases: 1500, max_len: 160, sched_len: 48, workers: 1, f: &case_with_global });
    if let Some(v) = rep.violations.first() {
        println!("CHILD-FAIL {} {} ; case {}", v.sig, v.msg.replace('\n', " "), v.decoded.replace('\n', " "));
        return 1;
    }
    println!("CHILD-OK {} programs with a global recorder installed ({} known-finding hits)", rep.evaluations, rep.known_hits.values().map(|v| v.0).sum::<u64>());
    0
}

// ---------------------------------------------------------------- programs the borrow checker must reject
//
// "No emission is ever dispatched to a recorder after the borrow that installed it has ended" is carried, for
// set_default_local_recorder, by the guard's lifetime: the guard keeps the recorder borrowed. Programs in which the
// borrow would end while the guard lives do not compile today; if a change to the guard type lets them through,
// each of them dispatches to a recorder whose borrow has ended (and says so when it is run).

const PROBE_PRELUDE: &str = r#"#![allow(unused)]
use metrics::{Counter, Gauge, Histogram, Key, KeyName, Metadata, Recorder, SharedString, Unit};
use std::sync::atomic::{AtomicUsize, Ordering};

static CALLS: AtomicUsize = AtomicUsize::new(0);

#[derive(Default)]
struct Rec {
    touched: u32,
}
impl Rec {
    fn touch(&mut self) {
        self.touched += 1;
    }
}
impl Recorder for Rec {
    fn describe_counter(&self, _: KeyName, _: Option<Unit>, _: SharedString) {}
    fn describe_gauge(&self, _: KeyName, _: Option<Unit>, _: SharedString) {}
    fn describe_histogram(&self, _: KeyName, _: Option<Unit>, _: SharedString) {}
    fn register_counter(&self, _: &Key, _: &Metadata<'_>) -> Counter {
        CALLS.fetch_add(1, Ordering::SeqCst);
        Counter::noop()
    }
    fn register_gauge(&self, _: &Key, _: &Metadata<'_>) -> Gauge {
        Gauge::noop()
    }
    fn register_histogram(&self, _: &Key, _: &Metadata<'_>) -> Histogram {
        Histogram::noop()
    }
}
fn report(what: &str) {
    println!("PROBE-RAN {}: {} emission(s) were dispatched to the recorder after its borrow had ended", what, CALLS.load(Ordering::SeqCst));
}
"#;

fn guard_probes() -> Vec<crate::engine::probes::Probe> {
    use crate::engine::probes::Probe;
    let mk = |name: &'static str, what: &str, body: &str| Probe { name, what: what.to_string(), source: format!("{}\n{}", PROBE_PRELUDE, body) };
    vec![
        mk(
            "guard_outlives_recorder",
            "`let guard; { let rec = Rec::default(); guard = set_default_local_recorder(&rec); } counter!(..); drop(guard)` (the recorder is dropped before its guard)",
            r#"fn main() {
    let guard;
    {
        let rec = Box::new(Rec::default());
        guard = metrics::set_default_local_recorder(&*rec);
        std::mem::forget(rec); // (only so that a build that accepts this program does not touch freed memory when run)
    }
    metrics::counter!("after").increment(1);
    drop(guard);
    report("guard outlives the recorder's scope");
}
"#,
        ),
        mk(
            "recorder_mutated_while_installed",
            "`let mut rec = ..; let guard = set_default_local_recorder(&rec); rec.touch() /* &mut */; counter!(..); drop(guard)` (the shared borrow must still be alive at the &mut use)",
            r#"fn main() {
    let mut rec = Rec::default();
    let guard = metrics::set_default_local_recorder(&rec);
    rec.touch();
    metrics::counter!("after").increment(1);
    drop(guard);
    report("recorder re-borrowed mutably while installed");
}
"#,
        ),
        mk(
            "guard_returned_as_static",
            "`fn install(rec: &Rec) -> LocalRecorderGuard<'static> { set_default_local_recorder(rec) }` (a guard for a short borrow passed off as one for 'static)",
            r#"fn install(rec: &Rec) -> metrics::LocalRecorderGuard<'static> {
    metrics::set_default_local_recorder(rec)
}
fn main() {
    let rec: &'static Rec = Box::leak(Box::new(Rec::default()));
    let guard = install(rec);
    metrics::counter!("after").increment(1);
    drop(guard);
    println!("PROBE-RAN a LocalRecorderGuard<'static> was obtained from a borrow of any length");
}
"#,
        ),
    ]
}

fn guard_probe_lane(pr: &PropRun) -> crate::engine::runner::LaneReport {
    crate::engine::probes::run(pr, "ill-typed-programs-rejected", "probes-c01", "guard-outlives-the-borrow-it-was-made-from", &guard_probes())
}

pub fn case_probe_replay(bytes: &[u8], _s: &[u8], ctx: &mut Ctx) -> Result<(), Fail> {
    let n = guard_probes().len();
    let i = bytes.first().copied().unwrap_or(0) as usize % n;
    ctx.case(&("compile probe", guard_probes()[i].name));
    let cfg = RunCfg { tier: crate::engine::runner::Tier::Quick, seed: 1, scale: 1.0, strict: true, known: vec![] };
    let pr = PropRun::new("C01", &cfg, RULE);
    let rep = guard_probe_lane(&pr);
    match rep.violations.iter().find(|v| v.bytes.first().map(|b| *b as usize) == Some(i)) {
        Some(v) => Err(Fail::new(&v.sig, v.msg.clone())),
        None => Ok(()),
    }
}

pub fn run(cfg: &RunCfg, replay: Option<&str>) -> i32 {
    let mut pr = PropRun::new("C01", cfg, RULE);
    pr.register("programs", &case_local);
    let child_replay = |b: &[u8], _s: &[u8], ctx: &mut Ctx| -> Result<(), Fail> {
        ctx.case(&("child process", b));
        crate::engine::child::replay_child("C01", b)
    };
    pr.register("global-recorder-processes", &child_replay);
    pr.register("guard-thread-affinity", &case_affinity);
    pr.register("re-entrant-local-recorder", &case_reentrant);
    pr.register("ill-typed-programs-rejected", &case_probe_replay);
    pr.register("exhaustive-guard-orders-le3", &case_exhaustive_replay);
    if let Some(f) = replay {
        return pr.replay(f);
    }
    pr.assume("recorder doubles are leaked ('static) so that the end of a borrow can be modelled by a flag while the memory stays valid; 'end of borrow' is generated only where safe Rust would allow the recorder to be dropped");
    pr.assume("in histories with an out-of-order guard drop or a forgotten guard only the safety clauses are asserted (never dispatched after the borrow ended, at most once, never across threads), because the statement's routing sentences conflict there");
    pr.assume("threads interleave at operation granularity; every logical thread is a fresh OS thread so thread-locals start empty");
    let r = pr.run_regressions();
    pr.push(r);
    let c = pr.cfg.clone();
    let r = run_lane(&c, "C01", &Lane { name: "programs", cases: c.cases(60_000, 3_000_000), max_len: 160, sched_len: 48, workers: 0, f: &case_local });
    pr.push(r);
    let r = exhaustive(&pr);
    pr.push(r);
    let r = affinity(&pr);
    pr.push(r);
    let r = reentrant(&pr);
    pr.push(r);
    let r = guard_probe_lane(&pr);
    pr.push(r);
    let r = crate::engine::child::run_children(&pr, "C01", "global-recorder-processes", pr.cfg.cases(12, 300), |_| "1500 generated programs with a global recorder double installed first".to_string());
    pr.push(r);
    pr.finish()
}
