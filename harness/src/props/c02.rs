//! C02 — the global recorder is installed at most once and is seen whole by everyone.

use std::sync::{atomic::Ordering, Mutex};

use metrics::{Recorder, __verif::RecorderOnceCell};

use crate::{
    doubles::{new_log, LogRecorder, Op},
    engine::{
        report::PropRun,
        runner::{hash_str, run_lane, Ctx, Fail, Lane, LaneReport, RunCfg, Violation},
        sched::{self, schedules_le2, Outcome, SchedOpts},
        source::Source,
    },
    ensure,
};

const RULE: &str = "a case = 2-4 installer threads (each with its own drop-counting recorder double) and 0-3 emitter threads doing 1-3 lookups each (a successful lookup emits through the recorder it got), all racing on one fresh recorder cell under a generated schedule over the three cell hook sites; non-trivial = a second installer's attempt or a lookup executes between the winner's compare-exchange and the end of its set(). Distinct = distinct (decoded case, schedule bytes); in the exhaustive sub-lane distinct = distinct interleavings (trace hash). Stress lane: 4 free-running threads released by a spin barrier call set() on a fresh cell per round while 2 loaders poll; every round is a distinct non-trivial case (distinct cell). Child-process lane: real set_global_recorder + macros raced by free-running threads, one installation race per process.";

#[derive(Debug, Clone)]
struct Case {
    installers: usize,
    emitters: Vec<usize>,
}

#[derive(Debug)]
enum Ev {
    SetStart(usize),
    SetEnd(usize, Result<(), u32>), // Err carries the id of the recorder handed back
    LoadStart(usize),
    LoadEnd(usize, Option<u32>), // id observed through an emission on the loaded recorder
}

struct RunOut {
    events: Vec<Ev>,
    out: Outcome,
    drops: Vec<u32>,
    returned_drops_at_return: Vec<(usize, u32)>,
}

fn execute(case: &Case, sched_bytes: &[u8], explicit: Option<Vec<(u64, usize)>>) -> RunOut {
    let cell: &'static RecorderOnceCell = Box::leak(Box::new(RecorderOnceCell::new()));
    let log = new_log();
    let events: Mutex<Vec<Ev>> = Mutex::new(Vec::new());
    let returned: Mutex<Vec<(usize, u32)>> = Mutex::new(Vec::new());
    let recorders: Vec<LogRecorder> = (0..case.installers).map(|i| LogRecorder::new(i as u32 + 1, &log)).collect();
    let drop_counters: Vec<_> = recorders.iter().map(|r| r.drops.clone()).collect();
    let mut bodies: Vec<Box<dyn FnOnce() + Send + '_>> = Vec::new();
    for (i, rec) in recorders.into_iter().enumerate() {
        let (events, returned) = (&events, &returned);
        let dc = drop_counters[i].clone();
        bodies.push(Box::new(move || {
            events.lock().unwrap().push(Ev::SetStart(i));
            let r = cell.set(rec);
            sched::point("c02.set_done");
            match r {
                Ok(()) => events.lock().unwrap().push(Ev::SetEnd(i, Ok(()))),
                Err(e) => {
                    let back = e.into_inner();
                    let already = dc.load(Ordering::SeqCst);
                    returned.lock().unwrap().push((i, already));
                    events.lock().unwrap().push(Ev::SetEnd(i, Err(back.id)));
                    sched::point("c02.before_drop_of_rejected");
                    if already != 0 {
                        // the library already ran this recorder's destructor: dropping the bit-copy again would
                        // corrupt the heap before the oracle can report it
                        std::mem::forget(back);
                    } else {
                        drop(back);
                    }
                }
            }
        }));
    }
    for (e, &loads) in case.emitters.iter().enumerate() {
        let tid = case.installers + e;
        let (events, log) = (&events, &log);
        bodies.push(Box::new(move || {
            for _ in 0..loads {
                events.lock().unwrap().push(Ev::LoadStart(tid));
                let got = cell.try_load();
                let seen = got.map(|r| {
                    let before = log.lock().unwrap().len();
                    r.describe_counter("probe".into(), None, "".into());
                    let l = log.lock().unwrap();
                    if l.len() == before + 1 {
                        l[before].rec
                    } else {
                        u32::MAX
                    }
                });
                events.lock().unwrap().push(Ev::LoadEnd(tid, seen));
                sched::point("c02.between_loads");
            }
        }));
    }
    let opts = SchedOpts { explicit, max_steps: 2000, ..Default::default() };
    let out = sched::explore(sched_bytes, opts, bodies);
    RunOut { events: events.into_inner().unwrap(), out, drops: drop_counters.iter().map(|d| d.load(Ordering::SeqCst)).collect(), returned_drops_at_return: returned.into_inner().unwrap() }
}

fn oracle(case: &Case, run: &RunOut, ctx: &mut Ctx) -> Result<(), Fail> {
    let out = &run.out;
    if out.budget_exhausted {
        ctx.discard = true;
        return Ok(());
    }
    ensure!(out.panics.is_empty(), "panic-in-thread", "{:?}", out.panics);
    ensure!(!out.livelock, "livelock", "trace {:?}", out.trace);
    let mut winners = vec![];
    for e in &run.events {
        match e {
            Ev::SetEnd(i, Ok(())) => winners.push(*i),
            Ev::SetEnd(i, Err(id)) => {
                ensure!(*id == *i as u32 + 1, "rejected-recorder-not-handed-back", "installer {} got back recorder {} instead of its own", i, id);
            }
            _ => {}
        }
    }
    ensure!(winners.len() == 1, "not-exactly-one-winner", "{} successful installations out of {}: {:?}; trace {:?}", winners.len(), case.installers, run.events, out.trace);
    let w = winners[0];
    for (i, d) in &run.returned_drops_at_return {
        ensure!(*d == 0, "rejected-recorder-dropped-by-library", "installer {}'s recorder was already dropped {} time(s) when handed back", i, d);
    }
    for (i, d) in run.drops.iter().enumerate() {
        if i == w {
            ensure!(*d == 0, "winner-dropped", "the installed recorder was dropped {} time(s)", d);
        } else {
            ensure!(*d == 1, "rejected-recorder-leaked-or-double-dropped", "rejected recorder of installer {} dropped {} time(s) after the caller dropped it once", i, d);
        }
    }
    // lookups
    let mut some_returned = false;
    let mut winner_set_returned = false;
    let mut open_started_after_some: std::collections::HashMap<usize, bool> = Default::default();
    for e in &run.events {
        match e {
            Ev::SetEnd(i, Ok(())) if *i == w => winner_set_returned = true,
            Ev::LoadStart(t) => {
                open_started_after_some.insert(*t, some_returned || winner_set_returned);
            }
            Ev::LoadEnd(t, seen) => {
                if let Some(id) = seen {
                    ensure!(*id == w as u32 + 1, "lookup-returned-non-winner", "a lookup dispatched to recorder {} but installer {} won; events {:?}", id, w, run.events);
                    some_returned = true;
                } else {
                    ensure!(!open_started_after_some.get(t).copied().unwrap_or(false), "lookup-none-after-installed", "a lookup that started after the recorder was visible (or set() had returned Ok) found nothing; events {:?}; trace {:?}", run.events, out.trace);
                }
            }
            _ => {}
        }
    }
    // a lookup that saw the INITIALIZED state must return the winner (seen whole)
    // (the site cell.try_load.after_state is only reached on that branch)
    let ninst = case.installers as u8;
    let mut pending: std::collections::HashMap<u8, bool> = Default::default();
    let mut load_results: std::collections::HashMap<usize, Vec<Option<u32>>> = Default::default();
    for e in &run.events {
        if let Ev::LoadEnd(t, seen) = e {
            load_results.entry(*t).or_default().push(*seen);
        }
    }
    let mut idx: std::collections::HashMap<u8, usize> = Default::default();
    for (t, site) in &out.trace {
        if *t >= ninst {
            if *site == "cell.try_load.after_state" {
                pending.insert(*t, true);
            } else if *site == "c02.between_loads" {
                let k = idx.entry(*t).or_insert(0);
                let res = load_results.get(&(*t as usize)).and_then(|v| v.get(*k)).copied().flatten();
                if pending.remove(t).unwrap_or(false) {
                    ensure!(res == Some(w as u32 + 1), "initialized-state-but-no-recorder", "lookup {} of thread {} observed the initialised state but returned {:?}; trace {:?}", k, t, res, out.trace);
                }
                *k += 1;
            }
        }
    }
    // non-triviality
    let wt = w as u8;
    let mut in_window = false;
    let mut overlap = false;
    for (t, site) in &out.trace {
        if *t == wt && *site == "cell.set.after_cas" {
            in_window = true;
        } else if *t == wt && *site == "c02.set_done" {
            in_window = false;
        } else if in_window && *t != wt {
            overlap = true;
        }
    }
    if overlap {
        ctx.nontrivial("step-inside-winners-set");
    }
    Ok(())
}

fn decode(src: &mut Source) -> Case {
    let installers = 2 + src.below(3);
    let ne = src.below(4);
    Case { installers, emitters: (0..ne).map(|_| 1 + src.below(3)).collect() }
}

pub fn case_sched(bytes: &[u8], sched_bytes: &[u8], ctx: &mut Ctx) -> Result<(), Fail> {
    let mut src = Source::new(bytes);
    let case = decode(&mut src);
    ctx.case(&(&case, sched_bytes));
    let run = execute(&case, sched_bytes, None);
    oracle(&case, &run, ctx)
}

fn scenario() -> Case {
    Case { installers: 2, emitters: vec![2] }
}

pub fn case_exhaustive_replay(bytes: &[u8], _s: &[u8], ctx: &mut Ctx) -> Result<(), Fail> {
    let sch: Vec<(u64, usize)> = bytes.chunks(2).filter(|c| c.len() == 2).map(|c| (c[0] as u64, c[1] as usize)).collect();
    let case = scenario();
    ctx.case(&(&case, &sch));
    let run = execute(&case, &[], Some(sch));
    oracle(&case, &run, ctx)
}

fn exhaustive(pr: &PropRun) -> LaneReport {
    let start = std::time::Instant::now();
    let mut rep = LaneReport::named("exhaustive-le2-preemptions");
    rep.exhaustive = true;
    let case = scenario();
    let base = execute(&case, &[], Some(vec![]));
    let schedules = schedules_le2(3, base.out.steps + 4);
    let mut seen = std::collections::HashSet::new();
    for (k, sch) in schedules.iter().enumerate() {
        let run = execute(&case, &[], Some(sch.clone()));
        let mut ctx = Ctx::default();
        let th = hash_str(&format!("{:?}", run.out.trace));
        ctx.fingerprint = Some(th);
        let r = oracle(&case, &run, &mut ctx);
        if !seen.insert(th) {
            ctx.nontrivial = false;
        }
        if k == 3 || k == schedules.len() / 2 {
            ctx.desc = Some(format!("2 installers + 1 emitter x2 lookups, switches {:?} -> trace {:?}", sch, run.out.trace));
        }
        rep.account(ctx);
        if let Err(f) = r {
            let mut bytes = vec![];
            for (s, t) in sch {
                bytes.push(*s as u8);
                bytes.push(*t as u8);
            }
            rep.violations.push(Violation { lane: "exhaustive-le2-preemptions".into(), sig: f.sig, msg: f.msg, bytes, sched: vec![], decoded: format!("switches {:?}", sch) });
            break;
        }
    }
    rep.notes.push(format!("{} schedules, {} distinct interleavings", schedules.len(), seen.len()));
    let _ = pr;
    rep.wall_s = start.elapsed().as_secs_f64();
    rep
}


/// Free-running stress on fresh cells: k threads hit `set` on the same cell at (nearly) the same
/// instant behind a spin barrier, for thousands of cells; loaders poll concurrently.
fn stress(pr: &PropRun) -> LaneReport {
    use std::sync::atomic::{AtomicU32, AtomicU8, AtomicUsize};
    struct Tok {
        thread: u8,
        round: u32,
        drops: &'static [AtomicU8],
        seen: &'static [AtomicU32],
        magic: u64,
    }
    impl Drop for Tok {
        fn drop(&mut self) {
            self.drops[self.round as usize * 4 + self.thread as usize].fetch_add(1, Ordering::SeqCst);
        }
    }
    impl Recorder for Tok {
        fn describe_counter(&self, _: metrics::KeyName, _: Option<metrics::Unit>, _: metrics::SharedString) {
            assert_eq!(self.magic, crate::doubles::MAGIC);
            self.seen[self.round as usize].store(self.thread as u32 + 1, Ordering::SeqCst);
        }
        fn describe_gauge(&self, _: metrics::KeyName, _: Option<metrics::Unit>, _: metrics::SharedString) {}
        fn describe_histogram(&self, _: metrics::KeyName, _: Option<metrics::Unit>, _: metrics::SharedString) {}
        fn register_counter(&self, _: &metrics::Key, _: &metrics::Metadata<'_>) -> metrics::Counter {
            metrics::Counter::noop()
        }
        fn register_gauge(&self, _: &metrics::Key, _: &metrics::Metadata<'_>) -> metrics::Gauge {
            metrics::Gauge::noop()
        }
        fn register_histogram(&self, _: &metrics::Key, _: &metrics::Metadata<'_>) -> metrics::Histogram {
            metrics::Histogram::noop()
        }
    }
    let start = std::time::Instant::now();
    let mut rep = LaneReport::named("stress-fresh-cells");
    let rounds = pr.cfg.cases(200_000, 3_000_000) as usize;
    let k = 4usize;
    let cells: Vec<RecorderOnceCell> = (0..rounds).map(|_| RecorderOnceCell::new()).collect();
    let drops: &'static [AtomicU8] = Box::leak((0..rounds * 4).map(|_| AtomicU8::new(0)).collect::<Vec<_>>().into_boxed_slice());
    let seen: &'static [AtomicU32] = Box::leak((0..rounds).map(|_| AtomicU32::new(0)).collect::<Vec<_>>().into_boxed_slice());
    let arrive = AtomicUsize::new(0);
    let results: Vec<Mutex<Vec<(bool, u8, u32, u8)>>> = (0..k).map(|_| Mutex::new(Vec::with_capacity(rounds))).collect();
    let bad: Mutex<Option<(String, String)>> = Mutex::new(None);
    std::thread::scope(|s| {
        for t in 0..k {
            let (cells, arrive, results) = (&cells, &arrive, &results);
            s.spawn(move || {
                let mut mine = Vec::with_capacity(rounds);
                for (i, cell) in cells.iter().enumerate() {
                    let tok = Tok { thread: t as u8, round: i as u32, drops, seen, magic: crate::doubles::MAGIC };
                    arrive.fetch_add(1, Ordering::SeqCst);
                    while arrive.load(Ordering::SeqCst) < (i + 1) * k {
                        std::hint::spin_loop();
                    }
                    match cell.set(tok) {
                        Ok(()) => mine.push((true, t as u8, i as u32, 0)),
                        Err(e) => {
                            let back = e.into_inner();
                            let d = drops[i * 4 + t].load(Ordering::SeqCst);
                            mine.push((false, back.thread, back.round, d));
                        }
                    }
                }
                *results[t].lock().unwrap() = mine;
            });
        }
        // two loaders chasing the installers
        for _ in 0..2 {
            let (cells, arrive, bad) = (&cells, &arrive, &bad);
            s.spawn(move || loop {
                let r = arrive.load(Ordering::SeqCst) / k;
                if r >= rounds {
                    break;
                }
                if let Some(rec) = cells[r].try_load() {
                    rec.describe_counter("probe".into(), None, "".into());
                    if cells[r].try_load().is_none() {
                        *bad.lock().unwrap() = Some(("lookup-none-after-installed".into(), format!("cell {} lookup returned a recorder and then nothing", r)));
                    }
                }
            });
        }
    });
    let results: Vec<Vec<(bool, u8, u32, u8)>> = results.into_iter().map(|m| m.into_inner().unwrap()).collect();
    let mut problem = bad.into_inner().unwrap();
    for i in 0..rounds {
        let mut ctx = Ctx::default();
        ctx.fingerprint = Some(i as u64);
        ctx.nontrivial("barrier-released-installers");
        let winners: Vec<usize> = (0..k).filter(|t| results[*t][i].0).collect();
        if i == 0 {
            ctx.desc = Some(format!("{} threads released by a spin barrier call set() on fresh cell #{}; winner {:?}", k, i, winners));
        }
        rep.account(ctx);
        if problem.is_some() {
            continue;
        }
        if winners.len() != 1 {
            problem = Some(("not-exactly-one-winner".into(), format!("cell {}: {} of {} simultaneous set() calls succeeded", i, winners.len(), k)));
            continue;
        }
        for t in 0..k {
            let (ok, bt, br, d) = results[t][i];
            if !ok && (bt as usize != t || br as usize != i || d != 0) {
                problem = Some(("rejected-recorder-not-handed-back".into(), format!("cell {} thread {} got back ({},{}) with {} drops", i, t, bt, br, d)));
            }
            let dd = drops[i * 4 + t].load(Ordering::SeqCst);
            let expect = if t == winners[0] { 0 } else { 1 };
            if dd != expect {
                problem = Some(("drop-count".into(), format!("cell {} thread {} recorder dropped {} times, expected {}", i, t, dd, expect)));
            }
        }
        let s = seen[i].load(Ordering::SeqCst);
        if s != 0 && s != winners[0] as u32 + 1 {
            problem = Some(("lookup-returned-non-winner".into(), format!("cell {}: lookup dispatched to thread {}'s recorder but thread {} won", i, s - 1, winners[0])));
        }
    }
    if let Some((sig, msg)) = problem {
        rep.violations.push(Violation { lane: "stress-fresh-cells".into(), sig, msg, bytes: vec![], sched: vec![], decoded: "free-running threads behind a spin barrier (not deterministically replayable)".into() });
    }
    rep.wall_s = start.elapsed().as_secs_f64();
    rep
}

/// Child process: races real `set_global_recorder` calls and macro emissions with free-running
/// threads. Prints "CHILD-OK" or "CHILD-FAIL <sig> <msg>".
/// The recorder installed by the process lane: a logging double that, for two reserved names, behaves like
/// real exporters sometimes do — it emits a metric of its own from inside a call (re-entering the facade on
/// the same thread), or it panics inside a call.
pub struct Reentrant(pub LogRecorder);
impl Recorder for Reentrant {
    fn describe_counter(&self, k: metrics::KeyName, u: Option<metrics::Unit>, d: metrics::SharedString) {
        if k.as_str() == "nest_me" {
            metrics::counter!("nested_from_inside_the_recorder").increment(1);
        }
        if k.as_str() == "panic_me" {
            std::panic::resume_unwind(Box::new("harness: the recorder panics inside a call"));
        }
        self.0.describe_counter(k, u, d)
    }
    fn describe_gauge(&self, k: metrics::KeyName, u: Option<metrics::Unit>, d: metrics::SharedString) {
        self.0.describe_gauge(k, u, d)
    }
    fn describe_histogram(&self, k: metrics::KeyName, u: Option<metrics::Unit>, d: metrics::SharedString) {
        self.0.describe_histogram(k, u, d)
    }
    fn register_counter(&self, k: &metrics::Key, m: &metrics::Metadata<'_>) -> metrics::Counter {
        self.0.register_counter(k, m)
    }
    fn register_gauge(&self, k: &metrics::Key, m: &metrics::Metadata<'_>) -> metrics::Gauge {
        self.0.register_gauge(k, m)
    }
    fn register_histogram(&self, k: &metrics::Key, m: &metrics::Metadata<'_>) -> metrics::Histogram {
        self.0.register_histogram(k, m)
    }
}

/// Process-lane variant: the crate's own `NoopRecorder` takes part in the installation — first and alone, or racing
/// the logging recorders. It is a recorder like any other: exactly one installation succeeds, and if it is the no-op
/// one, every other recorder is handed back and no emission reaches anybody.
fn child_with_noop(seed: u64) -> i32 {
    use std::sync::{Arc, Barrier};
    let log = new_log();
    let racing = seed % 16 >= 8;
    let k = 3usize;
    let mut oks = 0usize;
    if !racing {
        if metrics::set_global_recorder(metrics::NoopRecorder).is_err() {
            println!("CHILD-FAIL not-exactly-one-winner installing NoopRecorder into a fresh process failed");
            return 1;
        }
        oks += 1;
        metrics::counter!("to_the_noop_recorder").increment(1);
    }
    let barrier = Arc::new(Barrier::new(k + racing as usize));
    let results: Arc<Mutex<Vec<(usize, bool, u32, u32)>>> = Arc::new(Mutex::new(vec![]));
    let mut hs = vec![];
    for i in 0..k {
        let rec = LogRecorder::new(i as u32 + 1, &log);
        let dc = rec.drops.clone();
        let (b, results) = (barrier.clone(), results.clone());
        hs.push(std::thread::spawn(move || {
            b.wait();
            match metrics::set_global_recorder(rec) {
                Ok(()) => results.lock().unwrap().push((i, true, i as u32 + 1, 0)),
                Err(e) => {
                    let back = e.into_inner();
                    let d = dc.load(Ordering::SeqCst);
                    results.lock().unwrap().push((i, false, back.id, d));
                    if d != 0 {
                        std::mem::forget(back);
                    }
                }
            }
        }));
    }
    let noop_ok = Arc::new(std::sync::atomic::AtomicBool::new(false));
    if racing {
        let (b, noop_ok) = (barrier.clone(), noop_ok.clone());
        hs.push(std::thread::spawn(move || {
            b.wait();
            if metrics::set_global_recorder(metrics::NoopRecorder).is_ok() {
                noop_ok.store(true, Ordering::SeqCst);
            }
        }));
    }
    for h in hs {
        if h.join().is_err() {
            println!("CHILD-FAIL panic-in-thread a racing installer panicked");
            return 1;
        }
    }
    let results = results.lock().unwrap();
    oks += results.iter().filter(|r| r.1).count() + noop_ok.load(Ordering::SeqCst) as usize;
    if oks != 1 {
        println!("CHILD-FAIL not-exactly-one-winner {} installations succeeded ({}: NoopRecorder {}, logging recorders {:?})", oks, if racing { "racing" } else { "NoopRecorder first" }, if racing { noop_ok.load(Ordering::SeqCst) } else { true }, results.iter().filter(|r| r.1).map(|r| r.2).collect::<Vec<_>>());
        return 1;
    }
    for (i, ok, id, d) in results.iter() {
        if !ok && (*id != *i as u32 + 1 || *d != 0) {
            println!("CHILD-FAIL rejected-recorder-not-handed-back installer {} got recorder {} with {} drops", i, id, d);
            return 1;
        }
    }
    let winner: Option<u32> = results.iter().find(|r| r.1).map(|r| r.2);
    let before = log.lock().unwrap().len();
    let _ = std::thread::spawn(|| metrics::counter!("after_the_race").increment(1)).join();
    metrics::describe_gauge!("after_the_race", "d");
    let l = log.lock().unwrap();
    let new: Vec<u32> = l[before..].iter().map(|e| e.rec).collect();
    match winner {
        None if !new.is_empty() || !l.is_empty() => {
            println!("CHILD-FAIL lookup-returned-non-winner the NoopRecorder was installed, yet recorders {:?} received emissions", l.iter().map(|e| e.rec).collect::<Vec<_>>());
            1
        }
        Some(w) if new.iter().any(|r| *r != w) || new.len() < 2 => {
            println!("CHILD-FAIL late-emission-not-delivered recorder {} won, emissions after the race reached {:?}", w, new);
            1
        }
        _ => {
            println!("CHILD-OK NoopRecorder {} ; winner {:?}", if racing { "raced the others" } else { "was installed first" }, winner);
            0
        }
    }
}

pub fn child(seed: u64) -> i32 {
    use std::sync::{Arc, Barrier};
    if seed % 8 == 7 {
        return child_with_noop(seed);
    }
    let k = 2 + (seed % 3) as usize;
    let emitters = 1 + (seed / 3 % 3) as usize;
    let log = new_log();
    let barrier = Arc::new(Barrier::new(k + emitters));
    // before installation: emissions have no effect
    metrics::counter!("pre_install").increment(1);
    let mut hs = vec![];
    let results: Arc<Mutex<Vec<(usize, bool, u32, u32)>>> = Arc::new(Mutex::new(vec![]));
    let mut drop_counters = vec![];
    for i in 0..k {
        let rec = LogRecorder::new(i as u32 + 1, &log);
        drop_counters.push(rec.drops.clone());
        let dc = rec.drops.clone();
        let (b, results) = (barrier.clone(), results.clone());
        hs.push(std::thread::spawn(move || {
            b.wait();
            for _ in 0..(seed % 7) * 50 {
                std::hint::spin_loop();
            }
            match metrics::set_global_recorder(Reentrant(rec)) {
                Ok(()) => results.lock().unwrap().push((i, true, i as u32 + 1, 0)),
                Err(e) => {
                    let back = e.into_inner();
                    let d = dc.load(Ordering::SeqCst);
                    results.lock().unwrap().push((i, false, back.0.id, d));
                    if d != 0 {
                        std::mem::forget(back);
                    } else {
                        drop(back);
                    }
                }
            }
        }));
    }
    let observed: Arc<Mutex<Vec<Vec<Option<u32>>>>> = Arc::new(Mutex::new(vec![]));
    let installed_main = Arc::new(std::sync::atomic::AtomicBool::new(false));
    for _ in 0..emitters {
        let (b, log, observed) = (barrier.clone(), log.clone(), observed.clone());
        let variant = seed.wrapping_add(hs.len() as u64);
        let installed = installed_main.clone();
        hs.push(std::thread::spawn(move || {
            // local scopes used and left before the race must not keep this thread from the winner
            if let Err(e) = super::c01::preamble(variant, "emitter thread") {
                println!("CHILD-FAIL pre-install-local-scope-wrong {}", e);
                std::process::exit(1);
            }
            b.wait();
            let mut mine = vec![];
            let me = std::thread::current().id();
            for _ in 0..2000 {
                let before = log.lock().unwrap().iter().filter(|e| e.thread == me).count();
                metrics::describe_counter!("probe", "d");
                let l = log.lock().unwrap();
                let evs: Vec<_> = l.iter().filter(|e| e.thread == me).collect();
                mine.push(if evs.len() > before { Some(evs[evs.len() - 1].rec) } else { None });
            }
            // one more probe once every installer has returned: it must reach the winner
            while !installed.load(Ordering::Acquire) {
                std::thread::yield_now();
            }
            let before = log.lock().unwrap().iter().filter(|e| e.thread == me).count();
            metrics::describe_counter!("probe", "d");
            let l = log.lock().unwrap();
            let evs: Vec<_> = l.iter().filter(|e| e.thread == me).collect();
            mine.push(if evs.len() > before { Some(evs[evs.len() - 1].rec) } else { None });
            drop(l);
            if mine.last() == Some(&None) {
                println!("CHILD-FAIL emission-after-install-not-delivered an emitter thread (local-scope preamble {}) does not reach the installed recorder after every installer returned", variant % 6);
                std::process::exit(1);
            }
            observed.lock().unwrap().push(mine);
        }));
    }
    for (i, h) in hs.into_iter().enumerate() {
        if h.join().is_err() {
            println!("CHILD-FAIL panic-in-thread a racing thread panicked");
            return 1;
        }
        if i + 1 == k {
            installed_main.store(true, Ordering::Release);
        }
    }
    let results = results.lock().unwrap();
    let winners: Vec<_> = results.iter().filter(|r| r.1).collect();
    if winners.len() != 1 {
        println!("CHILD-FAIL not-exactly-one-winner {} winners among {} installers", winners.len(), k);
        return 1;
    }
    let w = winners[0].2;
    for (i, ok, id, d) in results.iter() {
        if !ok && (*id != *i as u32 + 1 || *d != 0) {
            println!("CHILD-FAIL rejected-recorder-not-handed-back installer {} got recorder {} with {} drops", i, id, d);
            return 1;
        }
    }
    for (i, d) in drop_counters.iter().enumerate() {
        let d = d.load(Ordering::SeqCst);
        let expect = if i as u32 + 1 == w { 0 } else { 1 };
        if d != expect {
            println!("CHILD-FAIL drop-count recorder {} dropped {} times, expected {}", i + 1, d, expect);
            return 1;
        }
    }
    for obs in observed.lock().unwrap().iter() {
        let mut seen_some = false;
        for o in obs {
            match o {
                Some(id) if *id != w => {
                    println!("CHILD-FAIL lookup-returned-non-winner emission reached recorder {} but {} won", id, w);
                    return 1;
                }
                Some(_) => seen_some = true,
                None if seen_some => {
                    println!("CHILD-FAIL lookup-none-after-installed an emission was lost after an earlier one had reached the installed recorder");
                    return 1;
                }
                None => {}
            }
        }
    }
    // the pre-install emission reached nobody
    if log.lock().unwrap().iter().any(|e| matches!(&e.op, Op::Register { name, .. } if name == "pre_install")) {
        println!("CHILD-FAIL pre-install-emission-delivered");
        return 1;
    }
    // after the race every emission on a fresh thread reaches the winner
    let log2 = log.clone();
    let ok = std::thread::spawn(move || {
        let before = log2.lock().unwrap().len();
        metrics::gauge!("after").set(1.0);
        let l = log2.lock().unwrap();
        l.len() > before && l[before].rec == w
    })
    .join()
    .unwrap_or(false);
    if !ok {
        println!("CHILD-FAIL late-emission-not-delivered");
        return 1;
    }
    // the main thread emitted before any recorder existed; its later emissions must reach the winner too
    {
        let me = std::thread::current().id();
        let before = log.lock().unwrap().iter().filter(|e| e.thread == me).count();
        metrics::counter!("after_on_the_thread_that_emitted_before_install").increment(1);
        let l = log.lock().unwrap();
        let mine: Vec<_> = l.iter().filter(|e| e.thread == me).collect();
        if !(mine.len() > before && mine[before].rec == w) {
            println!("CHILD-FAIL emission-after-install-not-delivered a thread that had emitted before the installation does not reach the installed recorder afterwards");
            return 1;
        }
    }
    // emissions that re-enter the facade from inside a call into the installed recorder, from inside a
    // with_recorder closure, and after a call into the recorder panicked: all on threads without a local
    // recorder, so all must reach the installed recorder
    {
        let log3 = log.clone();
        let verdict = std::thread::spawn(move || -> Result<(), String> {
            let me = std::thread::current().id();
            let names_of = |l: &crate::doubles::Log| -> Vec<String> { l.lock().unwrap().iter().filter(|e| e.thread == me).filter_map(|e| match &e.op { Op::Register { name, .. } | Op::Describe { name, .. } => Some(name.clone()), _ => None }).collect() };
            metrics::describe_counter!("nest_me", "d");
            let got = names_of(&log3);
            if got != ["nested_from_inside_the_recorder", "nest_me"] {
                return Err(format!("a describe call whose recorder emits a counter of its own from inside the call delivered {:?}, expected the nested registration and then the description", got));
            }
            metrics::with_recorder(|_r| metrics::counter!("inside_with_recorder").increment(1));
            if names_of(&log3).last().map(|s| s.as_str()) != Some("inside_with_recorder") {
                return Err("an emission made inside a with_recorder closure was not delivered to the installed recorder".to_string());
            }
            let r = std::panic::catch_unwind(|| metrics::describe_counter!("panic_me", "d"));
            if r.is_ok() {
                return Err("harness: the panicking call did not panic".to_string());
            }
            metrics::counter!("after_a_panic_inside_the_recorder").increment(1);
            if names_of(&log3).last().map(|s| s.as_str()) != Some("after_a_panic_inside_the_recorder") {
                return Err("after a call into the installed recorder panicked (and the panic was caught), a later emission on the same thread was not delivered".to_string());
            }
            Ok(())
        })
        .join()
        .unwrap_or_else(|_| Err("the re-entrancy thread panicked".to_string()));
        if let Err(e) = verdict {
            println!("CHILD-FAIL later-emission-not-delivered {}", e);
            return 1;
        }
        // an emission from another thread-local's destructor while the thread exits (a per-thread tally flushed at exit),
        // the tally being touched before the thread's first emission so that it is torn down last
        struct Tally;
        impl Drop for Tally {
            fn drop(&mut self) {
                metrics::counter!("from_a_thread_local_destructor").increment(1);
            }
        }
        thread_local! {
            static TALLY: Tally = Tally;
        }
        for first_touch_before_emission in [true, false] {
            let before = log.lock().unwrap().iter().filter(|e| matches!(&e.op, Op::Register { name, .. } if name == "from_a_thread_local_destructor")).count();
            let _ = std::thread::spawn(move || {
                if first_touch_before_emission {
                    TALLY.with(|_| ());
                }
                metrics::counter!("tls_thread_alive").increment(1);
                TALLY.with(|_| ());
            })
            .join();
            let l = log.lock().unwrap();
            let after: Vec<u32> = l.iter().filter(|e| matches!(&e.op, Op::Register { name, .. } if name == "from_a_thread_local_destructor")).map(|e| e.rec).collect();
            if after.len() != before + 1 || after.last() != Some(&w) {
                println!("CHILD-FAIL later-emission-not-delivered an emission made from a thread-local destructor at thread exit (tally first touched {} the thread's first emission) was not delivered to the installed recorder", if first_touch_before_emission { "before" } else { "after" });
                return 1;
            }
        }
    }
    println!("CHILD-OK installers={} emitters={} winner={}", k, emitters, w);
    0
}

fn child_lane(pr: &PropRun) -> LaneReport {
    crate::engine::child::run_children(pr, "C02", "global-recorder-processes", pr.cfg.cases(64, 2000), |seed| format!("{} racing installers, {} emitter threads, real set_global_recorder", 2 + seed % 3, 1 + seed / 3 % 3))
}

pub fn run(cfg: &RunCfg, replay: Option<&str>) -> i32 {
    let mut pr = PropRun::new("C02", cfg, RULE);
    pr.register("cell-schedules", &case_sched);
    pr.register("exhaustive-le2-preemptions", &case_exhaustive_replay);
    let child_replay = |b: &[u8], _s: &[u8], ctx: &mut Ctx| -> Result<(), Fail> {
        ctx.case(&("child process", b));
        crate::engine::child::replay_child("C02", b)
    };
    pr.register("global-recorder-processes", &child_replay);
    if let Some(f) = replay {
        return pr.replay(f);
    }
    pr.assume("SC interleavings at the three cell hook sites; a memory-ordering weakening (Release -> Relaxed) is out of reach");
    pr.assume("the process lane races free-running OS threads; its schedule is not a function of VERIF_SEED");
    let r = pr.run_regressions();
    pr.push(r);
    let c = pr.cfg.clone();
    let r = run_lane(&c, "C02", &Lane { name: "cell-schedules", cases: c.cases(1_000_000, 5_000_000), max_len: 12, sched_len: 64, workers: 0, f: &case_sched });
    pr.push(r);
    let r = exhaustive(&pr);
    pr.push(r);
    let r = stress(&pr);
    pr.push(r);
    let r = child_lane(&pr);
    pr.push(r);
    pr.finish()
}
