//! C12 — idle metrics are dropped exactly when they were idle longer than the timeout.

use std::{collections::HashMap, time::Duration};

use metrics::{CounterFn, GaugeFn, HistogramFn, Key, Label, Level, Metadata, Recorder};
use metrics_exporter_prometheus::PrometheusBuilder;
use metrics_util::{
    registry::{GenerationalAtomicStorage, Recency, Registry},
    MetricKind, MetricKindMask,
};
use quanta::Clock;

use crate::{
    engine::{
        report::PropRun,
        runner::{run_lane, Ctx, Fail, Lane, LaneReport, RunCfg, Violation},
        source::Source,
    },
    ensure,
    parsers::{parse_prometheus, prom_families},
};

const RULE: &str = "a case = idle timeout T from {none, 1 ns, 1 s, 10 s, and two 'never' values near u64::MAX ns}, one of the 8 kind masks, and a history of 2-40 steps over 1-3 keys x 3 kinds: update (including updates that restore the same value), advance the mock clock by 0 / 1 ns / T-1 ns / T / T+1 ns / random, observe. Lane A drives Recency + Registry directly (the same key may live under two kinds); lane B drives a Prometheus recorder built with the mock clock and observes by parsing render(). A reference state machine per (kind, key) — generation last seen and the instant it was first seen — predicts keep/drop at every observation. Non-trivial = the history contains a drop and a clock advance of exactly T. Distinct = distinct decoded cases. Exhaustive sub-lane: every history of length <= 6 over {update, +T-1, +T, +T+1, observe} for one key.";

static META: Metadata<'static> = Metadata::new("c12", Level::INFO, None);

const TIMEOUTS: [Option<u64>; 7] = [None, Some(0), Some(1), Some(1_000_000_000), Some(10_000_000_000), Some(u64::MAX), Some(u64::MAX - 1_000_000_000)];

#[derive(Debug, Clone, Copy, PartialEq)]
enum Step {
    Update(usize, usize, bool), // key, kind, keep_value_same
    Register(usize, usize),     // key, kind: registered (or looked up) without any update — `let c = counter!(..);` never used
    Advance(u64),
    Observe,
}

#[derive(Debug)]
struct Case {
    timeout: Option<u64>,
    mask: u8,
    nkeys: usize,
    steps: Vec<Step>,
}

fn dec_advance(src: &mut Source, t: Option<u64>) -> u64 {
    // 'never expire' timeouts (584 years): advance the clock as for a one-second timeout
    let t = t.filter(|t| *t < (1 << 62)).unwrap_or(1_000_000_000);
    match src.below(7) {
        0 => 0,
        1 => 1,
        2 => t.saturating_sub(1),
        3 | 4 => t,
        5 => t + 1,
        _ => src.int_in(0, 3 * t.min(20_000_000_000)),
    }
}

fn decode(src: &mut Source, kinds: usize) -> Case {
    let timeout = *src.pick(&TIMEOUTS);
    let mask = src.below(8) as u8;
    let nkeys = 1 + src.below(3);
    let n = 2 + src.below(39);
    let steps = (0..n)
        .map(|_| match src.below(8) {
            0 | 1 | 2 => {
                let (k, kind, b) = (src.below(nkeys), src.below(kinds), src.byte());
                // (same bytes as before: what used to be an update with a low third byte is now a bare registration)
                if (1..=20).contains(&b) {
                    Step::Register(k, kind)
                } else {
                    Step::Update(k, kind, b >= 192)
                }
            }
            3 | 4 => Step::Advance(dec_advance(src, timeout)),
            _ => Step::Observe,
        })
        .collect();
    Case { timeout, mask, nkeys, steps }
}

fn mk_mask(m: u8) -> MetricKindMask {
    let mut out = MetricKindMask::NONE;
    if m & 1 != 0 {
        out = out | MetricKindMask::COUNTER;
    }
    if m & 2 != 0 {
        out = out | MetricKindMask::GAUGE;
    }
    if m & 4 != 0 {
        out = out | MetricKindMask::HISTOGRAM;
    }
    out
}

/// Reference machine for one (kind, key).
#[derive(Default, Clone, Debug)]
struct RefState {
    live: bool,
    gen: u64,
    value: u64,       // counter total / gauge as integer / histogram sample count since registration
    seen: Option<(u64, u64)>, // (generation last seen, instant it was first seen)
}

impl RefState {
    fn register(&mut self) {
        if !self.live {
            *self = RefState { live: true, ..Default::default() };
        }
    }
    fn update(&mut self, amount: u64, set_gauge: Option<u64>) {
        if !self.live {
            *self = RefState { live: true, ..Default::default() };
        }
        self.gen += 1;
        match set_gauge {
            Some(v) => self.value = v,
            None => self.value += amount,
        }
    }
    /// true = kept
    fn observe(&mut self, now: u64, timeout: Option<u64>, covered: bool) -> bool {
        let Some(t) = timeout else { return true };
        if !covered {
            return true;
        }
        match self.seen {
            Some((g, at)) if g == self.gen => {
                if now - at > t {
                    *self = RefState::default();
                    false
                } else {
                    true
                }
            }
            _ => {
                self.seen = Some((self.gen, now));
                true
            }
        }
    }
}

fn classify(case: &Case, ctx: &mut Ctx, dropped: bool) {
    let exact = case.timeout.map(|t| case.steps.iter().any(|s| *s == Step::Advance(t))).unwrap_or(false);
    if dropped {
        ctx.class("contains-drop");
    }
    if exact {
        ctx.class("advance-of-exactly-T");
    }
    if dropped && exact {
        ctx.nontrivial("drop-and-exact-timeout-advance");
    }
}

fn run_direct(case: &Case, ctx: &mut Ctx) -> Result<(), Fail> {
    let (clock, mock) = Clock::mock();
    let registry: Registry<Key, GenerationalAtomicStorage> = Registry::new(GenerationalAtomicStorage::atomic());
    let recency: Recency<Key> = Recency::new(clock, mk_mask(case.mask), case.timeout.map(Duration::from_nanos));
    let keys: Vec<Key> = (0..case.nkeys).map(|i| Key::from_parts(format!("k{}", i), vec![Label::new("l", "v")])).collect();
    let mut model: HashMap<(usize, usize), RefState> = HashMap::new();
    let mut now = 0u64;
    let mut dropped_any = false;
    let mut two_kinds = false;
    for (si, step) in case.steps.iter().enumerate() {
        match step {
            Step::Update(k, kind, same) => {
                let st = model.entry((*k, *kind)).or_default();
                match kind {
                    0 => {
                        let amount = if *same { 0 } else { 3 };
                        registry.get_or_create_counter(&keys[*k], |c| CounterFn::increment(c, amount));
                        st.update(amount, None);
                    }
                    1 => {
                        let v = if *same && st.live { st.value } else { st.value + 5 };
                        registry.get_or_create_gauge(&keys[*k], |g| GaugeFn::set(g, v as f64));
                        st.update(0, Some(v));
                    }
                    _ => {
                        // (the flag that keeps counter/gauge values unchanged selects the batch entry point here)
                        if *same {
                            registry.get_or_create_histogram(&keys[*k], |h| HistogramFn::record_many(h, 1.0, 2));
                            st.update(2, None);
                            ctx.class("histogram-updated-through-record_many");
                        } else {
                            registry.get_or_create_histogram(&keys[*k], |h| HistogramFn::record(h, 1.0));
                            st.update(1, None);
                        }
                    }
                }
                if (0..3).filter(|kd| model.get(&(*k, *kd)).map(|s| s.live).unwrap_or(false)).count() >= 2 {
                    two_kinds = true;
                }
            }
            Step::Register(k, kind) => {
                let st = model.entry((*k, *kind)).or_default();
                if !st.live || st.gen == 0 {
                    ctx.nontrivial("metric-registered-but-never-updated");
                }
                match kind {
                    0 => registry.get_or_create_counter(&keys[*k], |_| ()),
                    1 => registry.get_or_create_gauge(&keys[*k], |_| ()),
                    _ => registry.get_or_create_histogram(&keys[*k], |_| ()),
                }
                st.register();
                if (0..3).filter(|kd| model.get(&(*k, *kd)).map(|s| s.live).unwrap_or(false)).count() >= 2 {
                    two_kinds = true;
                }
            }
            Step::Advance(d) => {
                mock.increment(Duration::from_nanos(*d));
                now += d;
            }
            Step::Observe => {
                // what an exporter does: walk the handles of each kind and ask Recency
                let mut results: HashMap<(usize, usize), bool> = HashMap::new();
                for (key, h) in registry.get_counter_handles() {
                    let k = keys.iter().position(|x| *x == key).unwrap();
                    results.insert((k, 0), recency.should_store_counter(&key, h.get_generation(), &registry));
                }
                for (key, h) in registry.get_gauge_handles() {
                    let k = keys.iter().position(|x| *x == key).unwrap();
                    results.insert((k, 1), recency.should_store_gauge(&key, h.get_generation(), &registry));
                }
                for (key, h) in registry.get_histogram_handles() {
                    let k = keys.iter().position(|x| *x == key).unwrap();
                    results.insert((k, 2), recency.should_store_histogram(&key, h.get_generation(), &registry));
                }
                for ((k, kind), st) in model.iter_mut() {
                    if !st.live {
                        ensure!(!results.contains_key(&(*k, *kind)), "dropped-metric-still-listed", "step {}: key {} kind {} was dropped (or never registered) but the registry still lists it", si, k, kind);
                        continue;
                    }
                    let covered = case.mask & (1 << kind) != 0;
                    let expect = st.observe(now, case.timeout, covered);
                    let got = results.get(&(*k, *kind)).copied();
                    let sig = if expect { "kept-metric-dropped" } else if two_kinds { "recency-entry-shared-across-kinds" } else { "idle-metric-not-dropped" };
                    ensure!(got == Some(expect), sig, "step {} (t={} ns, timeout {:?}, mask {}): key {} kind {}: should_store returned {:?}, the reference machine says {}; case {:?}", si, now, case.timeout, case.mask, k, kind, got, expect, case);
                    let in_registry = match kind {
                        0 => registry.get_counter(&keys[*k]).is_some(),
                        1 => registry.get_gauge(&keys[*k]).is_some(),
                        _ => registry.get_histogram(&keys[*k]).is_some(),
                    };
                    ensure!(in_registry == expect, "registry-disagrees-with-verdict", "step {}: key {} kind {}: verdict keep={} but registry holds it: {}", si, k, kind, expect, in_registry);
                    if expect && *kind == 0 {
                        let v = registry.get_counter(&keys[*k]).map(|c| c.get_inner().load(std::sync::atomic::Ordering::Acquire));
                        ensure!(v == Some(st.value), "kept-counter-value-wrong", "key {} counter value {:?} expected {}", k, v, st.value);
                    }
                    if !expect {
                        dropped_any = true;
                    }
                }
            }
        }
    }
    if two_kinds {
        ctx.class("same-key-under-two-kinds");
    }
    classify(case, ctx, dropped_any);
    Ok(())
}

pub fn case_direct(bytes: &[u8], _s: &[u8], ctx: &mut Ctx) -> Result<(), Fail> {
    let mut src = Source::new(bytes);
    let case = decode(&mut src, 3);
    ctx.case(&case);
    run_direct(&case, ctx)
}

pub fn case_prom(bytes: &[u8], _s: &[u8], ctx: &mut Ctx) -> Result<(), Fail> {
    let mut src = Source::new(bytes);
    // one kind per key (the exporter cannot express one key under two kinds): key i has kind i % 3
    let mut case = decode(&mut src, 1);
    for s in case.steps.iter_mut() {
        if let Step::Update(k, kind, _) | Step::Register(k, kind) = s {
            *kind = *k % 3;
        }
    }
    // exporter configuration beside the timeout: global labels (one of them shadowed by the keys' own label),
    // bucketed histograms instead of summaries, keys without labels of their own
    let cfgbits = src.below(16);
    ctx.case(&(&case, cfgbits));
    let (clock, mock) = Clock::mock();
    let mut b = PrometheusBuilder::new().idle_timeout(mk_mask(case.mask), case.timeout.map(Duration::from_nanos));
    if cfgbits & 1 != 0 {
        b = b.add_global_label("env", "prod");
        ctx.class("global-label");
    }
    if cfgbits & 2 != 0 {
        b = b.add_global_label("l", "global");
        ctx.class("global-label");
    }
    if cfgbits & 4 != 0 {
        b = b.set_buckets(&[0.5, 2.0]).unwrap();
        ctx.class("bucketed-histograms");
    }
    let rec = b.__verif_build_with_clock(clock);
    let handle = rec.handle();
    let keys: Vec<Key> = (0..case.nkeys).map(|i| if cfgbits & 8 != 0 { Key::from_name(format!("k{}", i)) } else { Key::from_parts(format!("k{}", i), vec![Label::new("l", "v")]) }).collect();
    let mut model: HashMap<usize, RefState> = HashMap::new();
    let mut now = 0u64;
    let mut dropped_any = false;
    for (si, step) in case.steps.iter().enumerate() {
        match step {
            Step::Update(k, kind, same) => {
                let st = model.entry(*k).or_default();
                match kind {
                    0 => {
                        let amount = if *same { 0 } else { 3 };
                        rec.register_counter(&keys[*k], &META).increment(amount);
                        st.update(amount, None);
                    }
                    1 => {
                        let v = if *same && st.live { st.value } else { st.value + 5 };
                        rec.register_gauge(&keys[*k], &META).set(v as f64);
                        st.update(0, Some(v));
                    }
                    _ => {
                        if *same {
                            rec.register_histogram(&keys[*k], &META).record_many(1.0, 2);
                            st.update(2, None);
                            ctx.class("histogram-updated-through-record_many");
                        } else {
                            rec.register_histogram(&keys[*k], &META).record(1.0);
                            st.update(1, None);
                        }
                    }
                }
            }
            Step::Register(k, kind) => {
                let st = model.entry(*k).or_default();
                if !st.live || st.gen == 0 {
                    ctx.nontrivial("metric-registered-but-never-updated");
                }
                match kind {
                    0 => drop(rec.register_counter(&keys[*k], &META)),
                    1 => drop(rec.register_gauge(&keys[*k], &META)),
                    _ => drop(rec.register_histogram(&keys[*k], &META)),
                }
                st.register();
            }
            Step::Advance(d) => {
                mock.increment(Duration::from_nanos(*d));
                now += d;
            }
            Step::Observe => {
                let text = handle.render();
                let lines = parse_prometheus(&text).map_err(|e| Fail::new("exposition-not-well-formed", e))?;
                let fams = prom_families(&lines).map_err(|e| Fail::new("family-structure-violated", e))?;
                for (k, st) in model.iter_mut() {
                    let kind = *k % 3;
                    let name = format!("k{}", k);
                    let fam = fams.iter().find(|f| f.name == name);
                    if !st.live {
                        ensure!(fam.is_none(), "dropped-metric-still-rendered", "step {}: {} was dropped but is rendered: {:?}", si, name, text);
                        continue;
                    }
                    let covered = case.mask & (1 << kind) != 0;
                    let expect = st.observe(now, case.timeout, covered);
                    ensure!(fam.is_some() == expect, if expect { "kept-metric-dropped" } else { "idle-metric-not-dropped" }, "step {} (t={} ns, timeout {:?}, mask {}): {} rendered: {}, the reference machine says keep={}; case {:?}; output {:?}", si, now, case.timeout, case.mask, name, fam.is_some(), expect, case, text);
                    if let Some(f) = fam {
                        let v = match kind {
                            0 | 1 => f.samples.first().map(|s| s.2),
                            _ => f.samples.iter().find(|s| s.0 == format!("{}_count", name)).map(|s| s.2),
                        };
                        ensure!(v == Some(st.value as f64), "kept-metric-value-wrong", "step {}: {} renders {:?}, expected its full value {} (a re-registered metric starts from zero)", si, name, v, st.value);
                    } else {
                        dropped_any = true;
                    }
                }
            }
        }
    }
    classify(&case, ctx, dropped_any);
    Ok(())
}

// ---------------------------------------------------------------- an observation in the middle of an update
//
// GenerationalStorage is generic over the storage it wraps, so the harness can wrap one whose counter pauses inside
// `increment` (before the value is applied) until an observation made on the main thread has finished. Whatever the
// library does around the inner update, the outcome must equal SOME order of the two operations; with the update's
// value not yet applied when the observation runs, that order is "observe, then update".

struct PausingCounter {
    value: std::sync::atomic::AtomicU64,
    gate: std::sync::Arc<Gate>,
}
#[derive(Default)]
struct Gate {
    armed: std::sync::atomic::AtomicBool,
    inside: std::sync::Mutex<Option<std::sync::mpsc::Sender<()>>>,
    go: std::sync::Mutex<Option<std::sync::mpsc::Receiver<()>>>,
}
impl CounterFn for PausingCounter {
    fn increment(&self, v: u64) {
        if self.gate.armed.swap(false, std::sync::atomic::Ordering::SeqCst) {
            if let Some(tx) = self.gate.inside.lock().unwrap().take() {
                let _ = tx.send(());
            }
            if let Some(rx) = self.gate.go.lock().unwrap().take() {
                let _ = rx.recv_timeout(Duration::from_secs(10));
            }
        }
        self.value.fetch_add(v, std::sync::atomic::Ordering::SeqCst);
    }
    fn absolute(&self, v: u64) {
        self.value.fetch_max(v, std::sync::atomic::Ordering::SeqCst);
    }
}
struct PausingStorage(std::sync::Arc<Gate>);
impl metrics_util::registry::Storage<Key> for PausingStorage {
    type Counter = std::sync::Arc<PausingCounter>;
    type Gauge = std::sync::Arc<std::sync::atomic::AtomicU64>;
    type Histogram = std::sync::Arc<metrics_util::storage::AtomicBucket<f64>>;
    fn counter(&self, _: &Key) -> Self::Counter {
        std::sync::Arc::new(PausingCounter { value: Default::default(), gate: self.0.clone() })
    }
    fn gauge(&self, _: &Key) -> Self::Gauge {
        std::sync::Arc::new(std::sync::atomic::AtomicU64::new(0))
    }
    fn histogram(&self, _: &Key) -> Self::Histogram {
        std::sync::Arc::new(metrics_util::storage::AtomicBucket::new())
    }
}

pub fn case_mid_update(bytes: &[u8], _s: &[u8], ctx: &mut Ctx) -> Result<(), Fail> {
    use metrics_util::registry::GenerationalStorage;
    let mut src = Source::new(bytes);
    let t = 10u64;
    #[derive(Debug)]
    enum S {
        Update,
        UpdateObservedInside,
        Advance(u64),
        Observe,
    }
    let steps: Vec<S> = (0..2 + src.below(12))
        .map(|_| match src.below(8) {
            0 | 1 => S::Update,
            2 | 3 => S::UpdateObservedInside,
            4 | 5 => S::Advance(*src.pick(&[0u64, 1, 9, 10, 11, 25])),
            _ => S::Observe,
        })
        .collect();
    ctx.case(&steps);
    let gate = std::sync::Arc::new(Gate::default());
    let (clock, mock) = Clock::mock();
    let registry: Registry<Key, GenerationalStorage<PausingStorage>> = Registry::new(GenerationalStorage::new(PausingStorage(gate.clone())));
    let recency: Recency<Key> = Recency::new(clock, MetricKindMask::ALL, Some(Duration::from_nanos(t)));
    let key = Key::from_name("k");
    let mut st = RefState::default();
    let mut now = 0u64;
    let observe = |st: &mut RefState, now: u64, what: &str, si: usize| -> Result<(), Fail> {
        let got: Option<bool> = registry.get_counter_handles().into_iter().next().map(|(k, h)| recency.should_store_counter(&k, h.get_generation(), &registry));
        if !st.live {
            ensure!(got.is_none(), "dropped-metric-still-listed", "step {} ({}): the counter was dropped but is listed", si, what);
            return Ok(());
        }
        let dbg = format!("{:?}", st);
        let expect = st.observe(now, Some(t), true);
        if std::env::var("VERIF_C12_DEBUG").is_ok() {
            eprintln!("C12 debug: step {} {} now {} model before {} -> expect {} got {:?}", si, what, now, dbg, expect, got);
        }
        ensure!(got == Some(expect), if expect { "kept-metric-dropped" } else { "idle-metric-not-dropped" }, "step {} ({}, t={}): should_store returned {:?}, the reference machine says {}", si, what, now, got, expect);
        if expect {
            let v = registry.get_counter(&key).map(|c| c.get_inner().value.load(std::sync::atomic::Ordering::SeqCst));
            ensure!(v.is_some(), "registry-disagrees-with-verdict", "step {}: kept but not in the registry", si);
        }
        Ok(())
    };
    for (si, step) in steps.iter().enumerate() {
        match step {
            S::Update => {
                registry.get_or_create_counter(&key, |c| CounterFn::increment(c, 3));
                st.update(3, None);
            }
            S::UpdateObservedInside => {
                // the handle is taken out first, so that the update runs outside the registry's locks
                let handle = registry.get_or_create_counter(&key, |c| c.clone());
                if !st.live {
                    st.update(0, None); // registration alone makes it live (generation 0, no update yet)
                    st.gen -= 1;
                }
                let (tx_in, rx_in) = std::sync::mpsc::channel();
                let (tx_go, rx_go) = std::sync::mpsc::channel();
                *gate.inside.lock().unwrap() = Some(tx_in);
                *gate.go.lock().unwrap() = Some(rx_go);
                gate.armed.store(true, std::sync::atomic::Ordering::SeqCst);
                let r = std::thread::scope(|s| -> Result<(), Fail> {
                    let h = s.spawn(move || CounterFn::increment(&handle, 3));
                    let inside = rx_in.recv_timeout(Duration::from_secs(10)).is_ok();
                    let r = if inside { observe(&mut st, now, "observation made while an increment is inside the storage, its value not yet applied", si) } else { Ok(()) };
                    let _ = tx_go.send(());
                    let _ = h.join();
                    r
                });
                r?;
                // if that observation dropped the metric, the increment still in flight lands in the storage that was
                // just removed from the registry (the handle was obtained earlier): nothing is registered afterwards
                if st.live {
                    st.update(3, None);
                }
                ctx.nontrivial("observation-inside-an-update");
            }
            S::Advance(d) => {
                mock.increment(Duration::from_nanos(*d));
                now += d;
            }
            S::Observe => observe(&mut st, now, "observation", si)?,
        }
    }
    Ok(())
}

fn exhaustive(pr: &PropRun) -> LaneReport {
    let start = std::time::Instant::now();
    let mut rep = LaneReport::named("exhaustive-histories-le6");
    rep.exhaustive = true;
    let t = 1_000_000_000u64;
    let alphabet = [Step::Update(0, 0, false), Step::Advance(t - 1), Step::Advance(t), Step::Advance(t + 1), Step::Observe];
    'outer: for len in 1..=6usize {
        let total = alphabet.len().pow(len as u32);
        for n in 0..total {
            let mut x = n;
            let steps: Vec<Step> = (0..len)
                .map(|_| {
                    let s = alphabet[x % alphabet.len()];
                    x /= alphabet.len();
                    s
                })
                .collect();
            let case = Case { timeout: Some(t), mask: 7, nkeys: 1, steps };
            let mut ctx = Ctx::default();
            ctx.fingerprint = Some((len * 100_000 + n) as u64);
            if n == total / 2 && len == 6 {
                ctx.desc = Some(format!("{:?}", case));
            }
            let r = run_direct(&case, &mut ctx);
            rep.account(ctx);
            if let Err(f) = r {
                if pr.cfg.is_known(&f.sig) {
                    rep.known_hits.entry(f.sig.clone()).or_insert((0, vec![], vec![], format!("{:?}", case))).0 += 1;
                } else {
                    rep.violations.push(Violation { lane: "exhaustive-histories-le6".into(), sig: f.sig, msg: f.msg, bytes: vec![len as u8, (n & 255) as u8, (n >> 8) as u8], sched: vec![], decoded: format!("{:?}", case) });
                    break 'outer;
                }
            }
        }
    }
    rep.wall_s = start.elapsed().as_secs_f64();
    rep
}

pub fn case_exhaustive_replay(bytes: &[u8], _s: &[u8], ctx: &mut Ctx) -> Result<(), Fail> {
    let t = 1_000_000_000u64;
    let alphabet = [Step::Update(0, 0, false), Step::Advance(t - 1), Step::Advance(t), Step::Advance(t + 1), Step::Observe];
    let len = (*bytes.first().unwrap_or(&1) as usize).clamp(1, 6);
    let mut x = *bytes.get(1).unwrap_or(&0) as usize | (*bytes.get(2).unwrap_or(&0) as usize) << 8;
    let steps: Vec<Step> = (0..len)
        .map(|_| {
            let s = alphabet[x % alphabet.len()];
            x /= alphabet.len();
            s
        })
        .collect();
    let case = Case { timeout: Some(t), mask: 7, nkeys: 1, steps };
    ctx.case(&case);
    run_direct(&case, ctx)
}

pub fn run(cfg: &RunCfg, replay: Option<&str>) -> i32 {
    let mut pr = PropRun::new("C12", cfg, RULE);
    pr.register("recency-direct", &case_direct);
    pr.register("prometheus-mock-clock", &case_prom);
    pr.register("exhaustive-histories-le6", &case_exhaustive_replay);
    pr.register("observation-inside-an-update", &case_mid_update);
    if let Some(f) = replay {
        return pr.replay(f);
    }
    pr.assume("an observation is one pass over the registry's handle listings asking Recency about each (as the exporters do); updates go through get_or_create each time (as the macros do), so a re-registered metric gets fresh storage");
    pr.assume("time is a mock quanta clock advanced only by the history");
    let r = pr.run_regressions();
    pr.push(r);
    let c = pr.cfg.clone();
    let r = run_lane(&c, "C12", &Lane { name: "recency-direct", cases: c.cases(1_500_000, 20_000_000), max_len: 160, sched_len: 0, workers: 0, f: &case_direct });
    pr.push(r);
    let r = run_lane(&c, "C12", &Lane { name: "prometheus-mock-clock", cases: c.cases(500_000, 10_000_000), max_len: 160, sched_len: 0, workers: 0, f: &case_prom });
    pr.push(r);
    let r = exhaustive(&pr);
    pr.push(r);
    // each case spawns a thread per observed update, so fewer cases and a single worker pool
    let r = run_lane(&c, "C12", &Lane { name: "observation-inside-an-update", cases: c.cases(40_000, 1_000_000), max_len: 40, sched_len: 0, workers: 0, f: &case_mid_update });
    pr.push(r);
    pr.finish()
}
