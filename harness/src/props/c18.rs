//! C18 — the scrape endpoint serves the current rendering and enforces its allowlist.

use std::{
    io::{Read, Write},
    net::{Ipv4Addr, SocketAddr, SocketAddrV4, TcpStream},
    time::{Duration, Instant},
};

use metrics::{Key, Label, Level, Metadata, Recorder};
use metrics_exporter_prometheus::PrometheusBuilder;

use crate::{
    engine::{
        report::PropRun,
        runner::{run_lane, Ctx, Fail, Lane, RunCfg},
        source::Source,
    },
    ensure,
    parsers::{parse_prometheus, prom_families},
};

const RULE: &str = "a case = an allowlist of 0-5 entries written as plain addresses or CIDR blocks inside 127.0.0.0/8 (single hosts, nested and overlapping blocks, /0, /8../32) plus IPv6 entries, a real listener on 127.0.0.1, and 3-10 probes; each probe binds a client socket to a generated 127.x.y.z source address (inside a block, on its first/last address, one before / one after it, or random), optionally preceded by a fault (garbage bytes, a half-open connection left open, a partial request reset with SO_LINGER 0, a burst of 6 concurrent scrapers), and requests /metrics, /, /health or an arbitrary path. Oracle: the harness's own CIDR arithmetic decides allowed/denied; denied => 403 with an empty body; allowed => 200 whose body parses under the strict exposition parser and carries the canary counter at its current value, /health => OK; every documented-syntax entry is accepted by the builder; a well-formed request after any fault is answered within the deadline. Non-trivial = a probe from a block edge (first/last/one-off address), or a request issued while a faulty connection is still open. A second lane listens on [::1] with allowlists drawn from plain IPv6 addresses, IPv6 blocks and IPv4 entries and probes from ::1. Distinct = distinct decoded cases.";

static META: Metadata<'static> = Metadata::new("c18", Level::INFO, None);

#[derive(Debug, Clone)]
enum Entry {
    Plain(Ipv4Addr),
    Cidr(Ipv4Addr, u8),
    V6(&'static str),
}

#[derive(Debug, Clone, Copy, PartialEq)]
enum Fault {
    None,
    Garbage,
    HalfOpen,
    PartialReset,
    Burst,
}

#[derive(Debug, Clone)]
struct Probe {
    src: Ipv4Addr,
    edge: bool,
    path: &'static str,
    fault: Fault,
    bump: u64,
}

#[derive(Debug)]
struct Case {
    entries: Vec<Entry>,
    probes: Vec<Probe>,
}

fn net_of(e: &Entry) -> Option<(u32, u32)> {
    // (network, mask) for IPv4 entries
    match e {
        Entry::Plain(a) => Some((u32::from(*a), u32::MAX)),
        Entry::Cidr(a, p) => {
            let mask = if *p == 0 { 0 } else { u32::MAX << (32 - *p as u32) };
            Some((u32::from(*a) & mask, mask))
        }
        Entry::V6(_) => None,
    }
}

fn decode(src: &mut Source) -> Case {
    let ne = src.below(6);
    let entries: Vec<Entry> = (0..ne)
        .map(|_| {
            let a = Ipv4Addr::new(127, src.below(4) as u8, src.below(3) as u8, src.byte());
            match src.below(8) {
                0 | 1 => Entry::Plain(a),
                2 => Entry::V6(*src.pick(&["::1/128", "fe80::/10", "::/0", "2001:db8::/32"])),
                3 => Entry::Cidr(a, 0),
                _ => {
                    let p = *src.pick(&[8u8, 12, 16, 20, 24, 28, 30, 31, 32]);
                    let mask = u32::MAX << (32 - p as u32);
                    let keep_host_bits = src.chance(40); // e.g. 127.1.2.3/16: IpNet accepts host bits
                    let base = if keep_host_bits { u32::from(a) } else { u32::from(a) & mask };
                    Entry::Cidr(Ipv4Addr::from(base), p)
                }
            }
        })
        .collect();
    let np = 3 + src.below(8);
    let probes = (0..np)
        .map(|_| {
            let v4: Vec<(u32, u32)> = entries.iter().filter_map(net_of).filter(|(_, m)| *m != 0).collect();
            let (ip, edge) = if !v4.is_empty() && src.chance(190) {
                let (net, mask) = v4[src.below(v4.len())];
                let last = net | !mask;
                let cand = match src.below(5) {
                    0 => (net, true),
                    1 => (last, true),
                    2 => (net.wrapping_sub(1), true),
                    3 => (last.wrapping_add(1), true),
                    _ => (net + (src.int_in(0, u32::MAX as u64) as u32 & !mask), false),
                };
                cand
            } else {
                (u32::from(Ipv4Addr::new(127, src.below(4) as u8, src.below(3) as u8, src.byte())), false)
            };
            // stay inside 127.0.0.0/8 and avoid .0.0.0 / broadcast-ish addresses the kernel refuses
            let mut ip = (ip & 0x00ff_ffff) | 0x7f00_0000;
            if ip == 0x7f00_0000 || ip == 0x7fff_ffff {
                ip = 0x7f00_0001;
            }
            Probe {
                src: Ipv4Addr::from(ip),
                edge,
                path: *src.pick(&["/metrics", "/", "/health", "/anything/else?x=1", "/metrics", "/healthz", "/health/", "/health/metrics", "/healthcheck", "/Health", "/heal", "/api/health", "/health?probe=1", "//health"]),
                fault: *src.pick(&[Fault::None, Fault::None, Fault::None, Fault::Garbage, Fault::HalfOpen, Fault::PartialReset, Fault::Burst]),
                bump: src.int_in(0, 5),
            }
        })
        .collect();
    Case { entries, probes }
}

fn allowed(entries: &[Entry], ip: Ipv4Addr) -> bool {
    if entries.is_empty() {
        return true;
    }
    let x = u32::from(ip);
    entries.iter().filter_map(net_of).any(|(net, mask)| x & mask == net)
}

fn entry_text(e: &Entry) -> String {
    match e {
        Entry::Plain(a) => a.to_string(),
        Entry::Cidr(a, p) => format!("{}/{}", a, p),
        Entry::V6(s) => s.to_string(),
    }
}

struct Resp {
    status: u16,
    body: Vec<u8>,
}

fn connect_from(src: Ipv4Addr, port: u16) -> std::io::Result<TcpStream> {
    // bind the client socket to the generated loopback source address
    unsafe {
        let fd = libc::socket(libc::AF_INET, libc::SOCK_STREAM | libc::SOCK_CLOEXEC, 0);
        if fd < 0 {
            return Err(std::io::Error::last_os_error());
        }
        let mut sa: libc::sockaddr_in = std::mem::zeroed();
        sa.sin_family = libc::AF_INET as u16;
        sa.sin_port = 0;
        sa.sin_addr.s_addr = u32::from(src).to_be();
        if libc::bind(fd, &sa as *const _ as *const libc::sockaddr, std::mem::size_of::<libc::sockaddr_in>() as u32) != 0 {
            let e = std::io::Error::last_os_error();
            libc::close(fd);
            return Err(e);
        }
        let mut da: libc::sockaddr_in = std::mem::zeroed();
        da.sin_family = libc::AF_INET as u16;
        da.sin_port = port.to_be();
        da.sin_addr.s_addr = u32::from(Ipv4Addr::LOCALHOST).to_be();
        if libc::connect(fd, &da as *const _ as *const libc::sockaddr, std::mem::size_of::<libc::sockaddr_in>() as u32) != 0 {
            let e = std::io::Error::last_os_error();
            libc::close(fd);
            return Err(e);
        }
        use std::os::fd::FromRawFd;
        Ok(TcpStream::from_raw_fd(fd))
    }
}

fn request(src: Ipv4Addr, port: u16, path: &str, deadline: Duration) -> Result<Resp, String> {
    let s = connect_from(src, port).map_err(|e| format!("harness-connect: {}", e))?;
    request_on(s, path, deadline)
}

fn request_on(mut s: TcpStream, path: &str, deadline: Duration) -> Result<Resp, String> {
    s.set_read_timeout(Some(deadline)).ok();
    s.set_write_timeout(Some(deadline)).ok();
    s.write_all(format!("GET {} HTTP/1.1\r\nHost: localhost\r\nConnection: close\r\n\r\n", path).as_bytes()).map_err(|e| format!("write: {}", e))?;
    let mut buf = Vec::new();
    let t0 = Instant::now();
    loop {
        let mut chunk = [0u8; 8192];
        match s.read(&mut chunk) {
            Ok(0) => break,
            Ok(n) => buf.extend_from_slice(&chunk[..n]),
            Err(e) => return Err(format!("no complete response within {:?}: {} ({} bytes so far)", t0.elapsed(), e, buf.len())),
        }
        if t0.elapsed() > deadline {
            return Err(format!("no complete response within {:?}", deadline));
        }
    }
    let text = String::from_utf8_lossy(&buf).to_string();
    let Some(hdr_end) = text.find("\r\n\r\n") else { return Err(format!("malformed response {:?}", text)) };
    let status: u16 = text.split(' ').nth(1).and_then(|s| s.parse().ok()).ok_or_else(|| format!("no status in {:?}", &text[..hdr_end.min(80)]))?;
    let body = buf[hdr_end + 4..].to_vec();
    if let Some(cl) = text[..hdr_end].lines().find_map(|l| l.to_ascii_lowercase().strip_prefix("content-length:").map(|v| v.trim().parse::<usize>().unwrap_or(usize::MAX))) {
        if cl != body.len() {
            return Err(format!("content-length {} but {} body bytes", cl, body.len()));
        }
    }
    Ok(Resp { status, body })
}

/// Reads exactly one HTTP/1.1 response (headers, then Content-Length body bytes) and leaves the connection open.
fn read_one_response(s: &mut TcpStream, deadline: Duration) -> Result<Resp, String> {
    s.set_read_timeout(Some(deadline)).ok();
    let t0 = Instant::now();
    let mut buf: Vec<u8> = Vec::new();
    loop {
        if let Some(hdr_end) = buf.windows(4).position(|w| w == b"\r\n\r\n") {
            let head = String::from_utf8_lossy(&buf[..hdr_end]).to_string();
            let status: u16 = head.split(' ').nth(1).and_then(|x| x.parse().ok()).ok_or_else(|| format!("no status in {:?}", head))?;
            let cl = head.lines().find_map(|l| l.to_ascii_lowercase().strip_prefix("content-length:").map(|v| v.trim().parse::<usize>().unwrap_or(usize::MAX))).ok_or_else(|| format!("no content-length in {:?}", head))?;
            if buf.len() >= hdr_end + 4 + cl {
                return Ok(Resp { status, body: buf[hdr_end + 4..hdr_end + 4 + cl].to_vec() });
            }
        }
        let mut chunk = [0u8; 8192];
        match s.read(&mut chunk) {
            Ok(0) => return Err(format!("connection closed after {} bytes", buf.len())),
            Ok(n) => buf.extend_from_slice(&chunk[..n]),
            Err(e) => return Err(format!("no complete response within {:?}: {}", t0.elapsed(), e)),
        }
        if t0.elapsed() > deadline {
            return Err(format!("no complete response within {:?}", deadline));
        }
    }
}

fn free_port() -> u16 {
    std::net::TcpListener::bind("127.0.0.1:0").and_then(|l| l.local_addr()).map(|a| a.port()).unwrap_or(0)
}

pub fn case_scrape(bytes: &[u8], _s: &[u8], ctx: &mut Ctx) -> Result<(), Fail> {
    let mut src = Source::new(bytes);
    let case = decode(&mut src);
    ctx.case(&case);
    let rt = tokio::runtime::Builder::new_multi_thread().worker_threads(2).enable_all().build().map_err(|e| Fail::new("harness-runtime", e.to_string()))?;
    // build inside the runtime; retry a few ports if the chosen one was taken meanwhile
    let mut built = None;
    for _ in 0..5 {
        let port = free_port();
        let mut b = PrometheusBuilder::new().with_http_listener(SocketAddr::V4(SocketAddrV4::new(Ipv4Addr::LOCALHOST, port))).add_global_label("svc", "c18");
        for e in &case.entries {
            b = match b.add_allowed_address(entry_text(e)) {
                Ok(b) => b,
                Err(err) => return Err(Fail::new("allowlist-entry-rejected", format!("add_allowed_address({:?}) failed although the entry is an IP address or subnet in the documented syntax: {}", entry_text(e), err))),
            };
        }
        let _g = rt.enter();
        match b.build() {
            Ok((rec, fut)) => {
                built = Some((rec, fut, port));
                break;
            }
            Err(_) => continue,
        }
    }
    let Some((rec, fut, port)) = built else {
        ctx.discard = true;
        return Ok(());
    };
    rt.spawn(async move {
        let _ = fut.await;
    });
    let canary = Key::from_parts("canary_total", vec![Label::new("k", "v\"q")]);
    let mut value = 0u64;
    let deadline = Duration::from_secs(5);
    let mut open_faulty: Vec<TcpStream> = vec![];
    let result = (|| -> Result<(), Fail> {
        for (pi, p) in case.probes.iter().enumerate() {
            if p.edge {
                ctx.nontrivial("probe-on-block-edge");
            }
            rec.register_counter(&canary, &META).increment(p.bump);
            value += p.bump;
            match p.fault {
                Fault::None => {}
                Fault::Garbage => {
                    if let Ok(mut s) = connect_from(p.src, port) {
                        let _ = s.write_all(b"\x00\xff\x16\x03 NOT HTTP AT ALL \r\n\r\n\x00");
                        s.set_read_timeout(Some(Duration::from_millis(200))).ok();
                        let mut b = [0u8; 256];
                        let _ = s.read(&mut b);
                    }
                }
                Fault::HalfOpen => {
                    if let Ok(s) = connect_from(p.src, port) {
                        open_faulty.push(s); // left open, nothing sent
                    }
                }
                Fault::PartialReset => {
                    if let Ok(mut s) = connect_from(p.src, port) {
                        let _ = s.write_all(b"GET /metrics HTTP/1.1\r\nHost: loc");
                        unsafe {
                            use std::os::fd::AsRawFd;
                            let l = libc::linger { l_onoff: 1, l_linger: 0 };
                            libc::setsockopt(s.as_raw_fd(), libc::SOL_SOCKET, libc::SO_LINGER, &l as *const _ as *const libc::c_void, std::mem::size_of::<libc::linger>() as u32);
                        }
                        drop(s); // RST
                    }
                }
                Fault::Burst => {
                    let ok = std::sync::atomic::AtomicUsize::new(0);
                    // a burst that is not answered within 5 s is repeated once with 30 s: a server that stopped serving
                    // stays silent, a machine that is merely busy answers (a deadline alone must not decide)
                    for patience in [5u64, 30] {
                        ok.store(0, std::sync::atomic::Ordering::SeqCst);
                        std::thread::scope(|sc| {
                            for _ in 0..6 {
                                let ok = &ok;
                                sc.spawn(move || {
                                    if let Ok(r) = request(p.src, port, "/metrics", Duration::from_secs(patience)) {
                                        if r.status == 200 || r.status == 403 {
                                            ok.fetch_add(1, std::sync::atomic::Ordering::SeqCst);
                                        }
                                    }
                                });
                            }
                        });
                        if ok.load(std::sync::atomic::Ordering::SeqCst) == 6 {
                            break;
                        }
                        ctx.class("burst-repeated-with-more-patience");
                    }
                    ensure!(ok.load(std::sync::atomic::Ordering::SeqCst) == 6, "concurrent-scrapers-not-all-served", "only {} of 6 concurrent scrapers got an answer", ok.load(std::sync::atomic::Ordering::SeqCst));
                }
            }
            if !open_faulty.is_empty() {
                ctx.nontrivial("request-while-faulty-connection-open");
            }
            let want_allowed = allowed(&case.entries, p.src);
            let resp = match request(p.src, port, p.path, deadline) {
                Ok(r) => r,
                Err(e) if e.starts_with("harness-connect") => {
                    ctx.class("harness-could-not-bind-source");
                    continue;
                }
                Err(first) => {
                    // bounded liveness: one re-probe, with six times the patience, before declaring a violation
                    match request(p.src, port, p.path, deadline * 6) {
                        Ok(r) => r,
                        Err(second) => return Err(Fail::new("client-not-served", format!("probe {} from {} for {:?} after fault {:?}: {} ; again: {}", pi, p.src, p.path, p.fault, first, second))),
                    }
                }
            };
            ctx.class(if want_allowed { "probe-allowed" } else { "probe-denied" });
            if !want_allowed {
                ensure!(resp.status == 403, "denied-peer-not-403", "peer {} lies in none of {:?} but got status {}", p.src, case.entries.iter().map(entry_text).collect::<Vec<_>>(), resp.status);
                ensure!(resp.body.is_empty(), "denied-peer-got-a-body", "peer {} was denied but received {} body bytes: {:?}", p.src, resp.body.len(), String::from_utf8_lossy(&resp.body));
            } else {
                ensure!(resp.status == 200, "allowed-peer-not-served", "peer {} lies inside {:?} (or no allowlist is set) but got status {}", p.src, case.entries.iter().map(entry_text).collect::<Vec<_>>(), resp.status);
                let body = String::from_utf8_lossy(&resp.body).to_string();
                // the health answer belongs to the path /health alone; every other path gets the rendering
                if p.path == "/health" {
                    ensure!(body == "OK", "health-body-wrong", "/health returned {:?}", body);
                } else if p.path.starts_with("/health?") && body == "OK" {
                    // the path component is /health: answering OK is right (a rendering would be accepted as well)
                } else {
                    let lines = parse_prometheus(&body).map_err(|e| Fail::new("scrape-body-not-well-formed", format!("{} ; body {:?}", e, body)))?;
                    let fams = prom_families(&lines).map_err(|e| Fail::new("scrape-body-family-structure", e))?;
                    let got = fams.iter().find(|f| f.name == "canary_total").and_then(|f| f.samples.first()).map(|s| (s.3.clone(), s.1.clone()));
                    let want_labels = vec![("svc".to_string(), "c18".to_string()), ("k".to_string(), "v\"q".to_string())];
                    ensure!(got == Some((value.to_string(), want_labels.clone())), "scrape-not-current-rendering", "path {:?}: canary renders {:?}, its value at request time is {} with labels {:?}", p.path, got, value, want_labels);
                }
            }
        }
        // one connection, two scrapes (HTTP/1.1 keep-alive), the metric changing in between: each response is the
        // rendering at the time of ITS request
        if let Some(src) = case.probes.iter().map(|p| p.src).find(|a| allowed(&case.entries, *a)) {
            if let Ok(mut s) = connect_from(src, port) {
                s.set_write_timeout(Some(deadline)).ok();
                let canary_of = |body: &[u8]| -> Result<Option<String>, Fail> {
                    let body = String::from_utf8_lossy(body).to_string();
                    let lines = parse_prometheus(&body).map_err(|e| Fail::new("scrape-body-not-well-formed", format!("{} ; body {:?}", e, body)))?;
                    let fams = prom_families(&lines).map_err(|e| Fail::new("scrape-body-family-structure", e))?;
                    Ok(fams.iter().find(|f| f.name == "canary_total").and_then(|f| f.samples.first()).map(|x| x.3.clone()))
                };
                rec.register_counter(&canary, &META).increment(1);
                value += 1;
                let first = s.write_all(b"GET /metrics HTTP/1.1\r\nHost: localhost\r\n\r\n").map_err(|e| e.to_string()).and_then(|_| read_one_response(&mut s, deadline * 6));
                if let Ok(r1) = first {
                    ensure!(r1.status == 200 && canary_of(&r1.body)? == Some(value.to_string()), "scrape-not-current-rendering", "first scrape on a kept-alive connection from {}: status {}, canary {:?}, value at request time {}", src, r1.status, canary_of(&r1.body)?, value);
                    rec.register_counter(&canary, &META).increment(3);
                    value += 3;
                    let second = s.write_all(b"GET /metrics HTTP/1.1\r\nHost: localhost\r\nConnection: close\r\n\r\n").map_err(|e| e.to_string()).and_then(|_| read_one_response(&mut s, deadline * 6));
                    match second {
                        Ok(r2) => {
                            ctx.nontrivial("two-scrapes-on-one-connection");
                            ensure!(r2.status == 200 && canary_of(&r2.body)? == Some(value.to_string()), "scrape-not-current-rendering", "second scrape on the same connection from {} (the counter was incremented by 3 after the first): status {}, canary {:?}, value at request time {}", src, r2.status, canary_of(&r2.body)?, value);
                        }
                        Err(_) => ctx.class("server-closed-the-connection-after-one-response"),
                    }
                }
            }
        }
        Ok(())
    })();
    drop(open_faulty);
    drop(rec);
    rt.shutdown_timeout(Duration::from_millis(200));
    result
}


// ---------------------------------------------------------------- IPv6 listener lane

const V6_ENTRIES: [&str; 16] = ["::1", "::2", "::1/128", "::2/128", "::/127", "::2/127", "::/0", "::/1", "8000::/1", "fe80::1", "2001:db8::1", "2001:db8::/32", "::ffff:127.0.0.1", "127.0.0.1", "10.0.0.0/8", "0.0.0.0/0"];

/// (address, prefix length) of an IPv6 entry in the documented syntax; None for IPv4 entries.
fn v6_net(text: &str) -> Option<(u128, u32)> {
    let (addr, len) = match text.split_once('/') {
        Some((a, l)) => (a, Some(l.parse::<u32>().ok()?)),
        None => (text, None),
    };
    let ip: std::net::Ipv6Addr = addr.parse().ok()?;
    Some((u128::from(ip), len.unwrap_or(128)))
}

pub fn case_scrape_v6(bytes: &[u8], _s: &[u8], ctx: &mut Ctx) -> Result<(), Fail> {
    let mut src = Source::new(bytes);
    let entries: Vec<&'static str> = (0..src.below(5)).map(|_| *src.pick(&V6_ENTRIES)).collect();
    let paths: Vec<&'static str> = (0..1 + src.below(3)).map(|_| *src.pick(&["/metrics", "/health", "/"])).collect();
    ctx.case(&(&entries, &paths));
    let peer: u128 = 1; // the only IPv6 address a loopback client can have here is ::1
    let want_allowed = entries.is_empty() || entries.iter().filter_map(|e| v6_net(e)).any(|(net, len)| len == 0 || (peer >> (128 - len.min(128))) == (net >> (128 - len.min(128))));
    if entries.iter().any(|e| !e.contains('/') && e.contains(':')) {
        ctx.nontrivial("plain-ipv6-entry");
    }
    ctx.class(if want_allowed { "probe-allowed" } else { "probe-denied" });
    let rt = tokio::runtime::Builder::new_multi_thread().worker_threads(2).enable_all().build().map_err(|e| Fail::new("harness-runtime", e.to_string()))?;
    let mut built = None;
    for _ in 0..5 {
        let port = std::net::TcpListener::bind("[::1]:0").and_then(|l| l.local_addr()).map(|a| a.port()).unwrap_or(0);
        if port == 0 {
            ctx.discard = true; // no IPv6 loopback in this environment
            return Ok(());
        }
        let mut b = PrometheusBuilder::new().with_http_listener(SocketAddr::from((std::net::Ipv6Addr::LOCALHOST, port)));
        for e in &entries {
            b = match b.add_allowed_address(e) {
                Ok(b) => b,
                Err(err) => return Err(Fail::new("allowlist-entry-rejected", format!("add_allowed_address({:?}) failed although the entry is in the documented syntax: {}", e, err))),
            };
        }
        let _g = rt.enter();
        if let Ok((rec, fut)) = b.build() {
            built = Some((rec, fut, port));
            break;
        }
    }
    let Some((rec, fut, port)) = built else {
        ctx.discard = true;
        return Ok(());
    };
    rt.spawn(async move {
        let _ = fut.await;
    });
    rec.register_counter(&Key::from_name("canary_total"), &META).increment(3);
    let result = (|| -> Result<(), Fail> {
        for path in &paths {
            let s = match TcpStream::connect(("::1", port)) {
                Ok(s) => s,
                Err(_) => {
                    ctx.class("harness-could-not-connect-v6");
                    continue;
                }
            };
            let resp = request_on(s, path, Duration::from_secs(5)).map_err(|e| Fail::new("client-not-served", e))?;
            if want_allowed {
                ensure!(resp.status == 200, "allowed-peer-not-served", "peer ::1 lies inside {:?} (or no allowlist is set) but got status {}", entries, resp.status);
                let body = String::from_utf8_lossy(&resp.body).to_string();
                if *path == "/health" {
                    ensure!(body == "OK", "health-body-wrong", "{:?}", body);
                } else {
                    ensure!(body.contains("canary_total 3"), "scrape-not-current-rendering", "{:?}", body);
                }
            } else {
                ensure!(resp.status == 403 && resp.body.is_empty(), "denied-peer-not-403", "peer ::1 lies in none of {:?} but got status {} with {} body bytes", entries, resp.status, resp.body.len());
            }
        }
        Ok(())
    })();
    drop(rec);
    rt.shutdown_timeout(Duration::from_millis(200));
    result
}

pub fn run(cfg: &RunCfg, replay: Option<&str>) -> i32 {
    let mut pr = PropRun::new("C18", cfg, RULE);
    pr.register("scrapes", &case_scrape);
    pr.register("scrapes-ipv6", &case_scrape_v6);
    if let Some(f) = replay {
        return pr.replay(f);
    }
    pr.assume("peers are client sockets bound to 127.0.0.0/8 source addresses (the kernel routes all of them over loopback), so allowlist entries are drawn inside 127.0.0.0/8 plus IPv6 entries that must never match an IPv4 peer");
    pr.assume("'served' is bounded liveness: 5 s deadline and one re-probe before a violation; a source address the kernel refuses to bind is skipped and counted");
    let r = pr.run_regressions();
    pr.push(r);
    let c = pr.cfg.clone();
    let r = run_lane(&c, "C18", &Lane { name: "scrapes", cases: c.cases(6_000, 200_000), max_len: 200, sched_len: 0, workers: 8, f: &case_scrape });
    pr.push(r);
    let r = run_lane(&c, "C18", &Lane { name: "scrapes-ipv6", cases: c.cases(1_500, 50_000), max_len: 32, sched_len: 0, workers: 8, f: &case_scrape_v6 });
    pr.push(r);
    pr.finish()
}
