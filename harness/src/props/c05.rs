//! C05 — the lock-free bucket never loses, duplicates or invents a sample.

use std::{
    collections::{HashMap, HashSet},
    sync::{
        atomic::{AtomicPtr, AtomicU64, AtomicU8, Ordering},
        Mutex,
    },
};

use metrics_util::storage::AtomicBucket;

use crate::{
    engine::{
        report::PropRun,
        runner::{run_lane, Ctx, Fail, Lane, LaneReport, RunCfg, Violation},
        sched::{self, Outcome, SchedOpts},
        source::Source,
    },
    ensure,
};

const RULE: &str = "a case = sequential prefill of {0,1,62,63,64,127,128} values (or, in about 4% of the cases, 2117 values = 33 blocks so that a clear releases a full batch of blocks while readers walk them), then 1-3 pushers (1-3 uniquely tagged values each), 0-2 snapshot readers (data / data_with / is_empty) and 0-2 clearers (clear_with / clear), interleaved by a generated schedule over every bucket hook site, followed by a quiescent clear_with; element type u64 or a drop-counting struct with a self-check word. Non-trivial = a clear or snapshot step lies between the first and last step of some push, or a block hand-over (tail CAS) happens in the concurrent phase. Distinct = distinct (decoded case, schedule bytes). In 3/4 of the cases the recorded known window (tail loaded -> slot claimed) is fused shut; the rest run with it open and classify failures by the trace.";

// ---- drop accounting without pointers inside the elements (a torn/uninitialised read must not crash the harness)
const CHUNK: usize = 1 << 20;
static CHUNKS: [AtomicPtr<AtomicU8>; 4096] = {
    const N: AtomicPtr<AtomicU8> = AtomicPtr::new(std::ptr::null_mut());
    [N; 4096]
};
static NEXT_SLOT: AtomicU64 = AtomicU64::new(1);
static GARBAGE_DROPS: AtomicU64 = AtomicU64::new(0);

fn slot_cell(slot: u64) -> &'static AtomicU8 {
    let ci = (slot as usize / CHUNK) % 4096;
    let mut p = CHUNKS[ci].load(Ordering::Acquire);
    if p.is_null() {
        let v: Vec<AtomicU8> = (0..CHUNK).map(|_| AtomicU8::new(0)).collect();
        let raw = Box::into_raw(v.into_boxed_slice()) as *mut AtomicU8;
        match CHUNKS[ci].compare_exchange(std::ptr::null_mut(), raw, Ordering::AcqRel, Ordering::Acquire) {
            Ok(_) => p = raw,
            Err(cur) => {
                unsafe { drop(Box::from_raw(std::slice::from_raw_parts_mut(raw, CHUNK))) };
                p = cur;
            }
        }
    }
    unsafe { &*p.add(slot as usize % CHUNK) }
}

pub trait Elem: Clone + Send + Sync + 'static {
    const NAME: &'static str;
    fn make(id: u32, tracked: bool) -> Self;
    /// None if the bits are not a value this harness created
    fn id(&self) -> Option<u32>;
    fn drops_of(_id_slot: u64) -> u8 {
        0
    }
    fn slot(&self) -> u64 {
        0
    }
}

impl Elem for u64 {
    const NAME: &'static str = "u64";
    fn make(id: u32, _t: bool) -> Self {
        ((!id as u64) << 32) | id as u64
    }
    fn id(&self) -> Option<u32> {
        let id = *self as u32;
        if (*self >> 32) as u32 == !id {
            Some(id)
        } else {
            None
        }
    }
}

#[derive(Debug)]
pub struct Tracked {
    id: u32,
    kind: u32, // 1 original tracked, 2 clone, 3 untracked original
    check: u64,
    slot: u64,
}

impl Clone for Tracked {
    fn clone(&self) -> Self {
        Tracked { id: self.id, kind: 2, check: self.check, slot: self.slot }
    }
}

impl Drop for Tracked {
    fn drop(&mut self) {
        match self.kind {
            1 if self.check == !(self.id as u64) => {
                slot_cell(self.slot).fetch_add(1, Ordering::AcqRel);
            }
            2 | 3 if self.check == !(self.id as u64) => {}
            _ => {
                GARBAGE_DROPS.fetch_add(1, Ordering::AcqRel);
            }
        }
    }
}

impl Elem for Tracked {
    const NAME: &'static str = "Tracked";
    fn make(id: u32, tracked: bool) -> Self {
        let slot = if tracked { NEXT_SLOT.fetch_add(1, Ordering::Relaxed) } else { 0 };
        Tracked { id, kind: if tracked { 1 } else { 3 }, check: !(id as u64), slot }
    }
    fn id(&self) -> Option<u32> {
        if self.check == !(self.id as u64) && (1..=3).contains(&self.kind) {
            // an original whose destructor already ran is being read after it was released
            if self.kind == 1 && slot_cell(self.slot).load(Ordering::Acquire) > 0 {
                return None;
            }
            Some(self.id)
        } else {
            None
        }
    }
    fn drops_of(slot: u64) -> u8 {
        slot_cell(slot).load(Ordering::Acquire)
    }
    fn slot(&self) -> u64 {
        self.slot
    }
}

#[derive(Debug, Clone, Copy, PartialEq, Eq)]
enum ROp {
    Data,
    DataWith,
    IsEmpty,
}

#[derive(Debug, Clone, Copy, PartialEq, Eq)]
enum COp {
    ClearWith,
    Clear,
}

#[derive(Debug, Clone)]
struct Case {
    elem: &'static str,
    prefill: usize,
    pushers: Vec<usize>,
    readers: Vec<Vec<ROp>>,
    clearers: Vec<Vec<COp>>,
    known_window_open: bool,
}

const PREFILL: [usize; 7] = [0, 1, 62, 63, 64, 127, 128];
/// more than DEFERRED_BLOCK_BATCH_SIZE (32) blocks, so that one clear releases a full batch
const BIG_PREFILL: usize = 33 * 64 + 5;

fn decode(src: &mut Source) -> Case {
    let elem = if src.bool() { "Tracked" } else { "u64" };
    let prefill = if src.chance(10) { BIG_PREFILL } else { *src.pick(&PREFILL) };
    let np = 1 + src.below(3);
    let pushers = (0..np).map(|_| 1 + src.below(3)).collect();
    let nr = src.below(3);
    let readers = (0..nr).map(|_| (0..1 + src.below(2)).map(|_| *src.pick(&[ROp::DataWith, ROp::Data, ROp::IsEmpty])).collect()).collect();
    let nc = src.below(3);
    let clearers = (0..nc).map(|_| (0..1 + src.below(2)).map(|_| if src.chance(40) { COp::Clear } else { COp::ClearWith }).collect()).collect();
    let known_window_open = src.chance(64);
    Case { elem, prefill, pushers, readers, clearers, known_window_open }
}

#[derive(Debug, Clone)]
enum Ev {
    PushStart(u32),
    PushEnd(u32),
    SnapStart(usize),
    SnapEnd(usize, Vec<Vec<Option<u32>>>, bool), // bool: per-block slices (data_with) vs flattened (data)
    EmptyStart(usize),
    EmptyEnd(usize, bool),
    ClearStart(usize),
    ClearEnd(usize, Option<Vec<Vec<Option<u32>>>>), // None = plain clear() (values not observed)
}

fn ids<T: Elem>(s: &[T]) -> Vec<Option<u32>> {
    s.iter().map(|e| e.id()).collect()
}

// Known finding A: a pusher that has chosen its block (tail loaded, or fresh tail just installed)
// but not yet claimed a slot in it, while a clear detaches and reads that block.
const WINDOW_A: [(&str, &str); 2] = [("bucket.push.tail_loaded", "block.push.claimed"), ("bucket.push.new_tail_cas_ok", "block.push.claimed")];
const WINDOW_A_SITES: [&str; 4] = ["bucket.push.tail_loaded", "bucket.push.tail_installed", "bucket.push.new_tail_cas_ok", "bucket.push.next_linked"];

struct RunOut {
    events: Vec<Ev>,
    out: Outcome,
    tracked_slots: Vec<(u32, u64)>,
    pusher_of: HashMap<u32, usize>,
}

fn execute<T: Elem>(case: &Case, sched_bytes: &[u8], explicit: Option<Vec<(u64, usize)>>) -> RunOut {
    let bucket: AtomicBucket<T> = AtomicBucket::new();
    let log: Mutex<Vec<Ev>> = Mutex::new(Vec::new());
    let mut next_id = 1u32;
    for _ in 0..case.prefill {
        let id = next_id;
        next_id += 1;
        log.lock().unwrap().push(Ev::PushStart(id));
        bucket.push(T::make(id, case.prefill == BIG_PREFILL));
        log.lock().unwrap().push(Ev::PushEnd(id));
    }
    let tracked_slots: Mutex<Vec<(u32, u64)>> = Mutex::new(Vec::new());
    let mut pusher_of = HashMap::new();
    let mut bodies: Vec<Box<dyn FnOnce() + Send + '_>> = Vec::new();
    for (pi, &n) in case.pushers.iter().enumerate() {
        let my: Vec<u32> = (0..n as u32).map(|i| next_id + i).collect();
        next_id += n as u32;
        for id in &my {
            pusher_of.insert(*id, pi);
        }
        let (bucket, log, tracked_slots) = (&bucket, &log, &tracked_slots);
        bodies.push(Box::new(move || {
            for id in my {
                let e = T::make(id, true);
                tracked_slots.lock().unwrap().push((id, e.slot()));
                log.lock().unwrap().push(Ev::PushStart(id));
                bucket.push(e);
                log.lock().unwrap().push(Ev::PushEnd(id));
                sched::point("c05.op_done");
            }
        }));
    }
    let mut actor = 0usize;
    for ops in &case.readers {
        let me = actor;
        actor += 1;
        let (bucket, log) = (&bucket, &log);
        bodies.push(Box::new(move || {
            for op in ops {
                match op {
                    ROp::Data => {
                        log.lock().unwrap().push(Ev::SnapStart(me));
                        let v = bucket.data();
                        log.lock().unwrap().push(Ev::SnapEnd(me, vec![ids(&v)], false));
                    }
                    ROp::DataWith => {
                        log.lock().unwrap().push(Ev::SnapStart(me));
                        let mut blocks = Vec::new();
                        bucket.data_with(|b| blocks.push(ids(b)));
                        log.lock().unwrap().push(Ev::SnapEnd(me, blocks, true));
                    }
                    ROp::IsEmpty => {
                        log.lock().unwrap().push(Ev::EmptyStart(me));
                        let e = bucket.is_empty();
                        log.lock().unwrap().push(Ev::EmptyEnd(me, e));
                    }
                }
                sched::point("c05.op_done");
            }
        }));
    }
    for ops in &case.clearers {
        let me = actor;
        actor += 1;
        let (bucket, log) = (&bucket, &log);
        bodies.push(Box::new(move || {
            for op in ops {
                log.lock().unwrap().push(Ev::ClearStart(me));
                match op {
                    COp::ClearWith => {
                        let mut blocks = Vec::new();
                        bucket.clear_with(|b| blocks.push(ids(b)));
                        log.lock().unwrap().push(Ev::ClearEnd(me, Some(blocks)));
                    }
                    COp::Clear => {
                        bucket.clear();
                        log.lock().unwrap().push(Ev::ClearEnd(me, None));
                    }
                }
                sched::point("c05.op_done");
            }
        }));
    }
    let mut opts = SchedOpts::default();
    if !case.known_window_open {
        opts.fuse = WINDOW_A.to_vec();
    }
    opts.explicit = explicit;
    opts.max_steps = 4000;
    let out = sched::explore(sched_bytes, opts, bodies);
    let mut events = log.into_inner().unwrap();
    if !out.livelock && !out.budget_exhausted && out.panics.is_empty() {
        // final quiescent clear
        events.push(Ev::ClearStart(999));
        let mut blocks = Vec::new();
        bucket.clear_with(|b| blocks.push(ids(b)));
        events.push(Ev::ClearEnd(999, Some(blocks)));
    }
    drop(bucket);
    RunOut { events, out, tracked_slots: tracked_slots.into_inner().unwrap(), pusher_of }
}

/// Was some pusher parked inside the known window while a clear detached the chain?
fn window_a_hit(trace: &[(u8, &'static str)]) -> bool {
    let mut last: HashMap<u8, &'static str> = HashMap::new();
    for (t, site) in trace {
        if *site == "bucket.clear.detached" {
            if last.iter().any(|(pt, s)| pt != t && WINDOW_A_SITES.contains(s)) {
                return true;
            }
        }
        last.insert(*t, site);
    }
    false
}

fn oracle(case: &Case, run: &RunOut, ctx: &mut Ctx) -> Result<(), Fail> {
    let out = &run.out;
    if out.budget_exhausted {
        ctx.discard = true;
        return Ok(());
    }
    ensure!(out.panics.is_empty(), "panic-in-thread", "{:?}; case {:?}", out.panics, case);
    ensure!(!out.livelock, "reader-livelock", "a reader/clearer spins forever although every other thread is finished or spinning; trace tail {:?}", out.trace.iter().rev().take(10).collect::<Vec<_>>());
    let known_a = case.known_window_open && window_a_hit(&out.trace);
    let sig = |base: &str| if known_a { "lost-push-into-detached-block".to_string() } else { base.to_string() };
    let ev = &run.events;
    // index events
    let mut push_start: HashMap<u32, usize> = HashMap::new();
    let mut push_end: HashMap<u32, usize> = HashMap::new();
    for (i, e) in ev.iter().enumerate() {
        match e {
            Ev::PushStart(id) => {
                push_start.insert(*id, i);
            }
            Ev::PushEnd(id) => {
                push_end.insert(*id, i);
            }
            _ => {}
        }
    }
    // clears: (start idx, end idx, Option<set of ids>)
    let mut clears: Vec<(usize, usize, Option<HashSet<u32>>)> = Vec::new();
    let mut open_clear: HashMap<usize, usize> = HashMap::new();
    let mut taken: HashMap<u32, usize> = HashMap::new();
    for (i, e) in ev.iter().enumerate() {
        match e {
            Ev::ClearStart(a) => {
                open_clear.insert(*a, i);
            }
            Ev::ClearEnd(a, blocks) => {
                let s = open_clear.remove(a).unwrap_or(i);
                let set = match blocks {
                    None => None,
                    Some(blocks) => {
                        let mut set = HashSet::new();
                        for b in blocks {
                            let mut last_of: HashMap<usize, u32> = HashMap::new();
                            for v in b {
                                let Some(id) = v else {
                                    return Err(Fail::new("clear-read-garbage", format!("a clearing read was handed bits that are not a pushed value (torn, unwritten or already destroyed slot); case {:?}", case)));
                                };
                                ensure!(push_start.get(id).map(|p| *p < i).unwrap_or(false), "clear-fabricated-value", "clear handed out id {} that no push had started supplying", id);
                                ensure!(set.insert(*id), "clear-duplicate-within-one-clear", "id {} appears twice in one clearing read", id);
                                let c = taken.entry(*id).or_insert(0);
                                *c += 1;
                                ensure!(*c == 1, "value-cleared-twice", "id {} handed to two clearing reads", id);
                                if let Some(p) = run.pusher_of.get(id) {
                                    if let Some(prev) = last_of.insert(*p, *id) {
                                        ensure!(prev < *id, "block-order-violated", "ids {} then {} of one pusher out of push order within one block", prev, id);
                                    }
                                }
                            }
                        }
                        Some(set)
                    }
                };
                clears.push((s, i, set));
            }
            _ => {}
        }
    }
    let plain_clear_could_take = |id: u32, before: usize| -> bool {
        // a plain clear() whose start precedes `before` and whose end follows the push's start
        clears.iter().any(|(s, e, set)| set.is_none() && *s < before && push_start.get(&id).map(|p| *p < *e).unwrap_or(false))
    };
    // conservation
    let all_ids: Vec<u32> = push_start.keys().copied().collect();
    for id in &all_ids {
        if !taken.contains_key(id) {
            ensure!(plain_clear_could_take(*id, usize::MAX), sig("value-lost"), "id {} was pushed but never handed to any clearing read (final quiescent clear included); case {:?}; trace {:?}", id, case, out.trace);
        }
    }
    // snapshots and is_empty
    let mut open: HashMap<usize, usize> = HashMap::new();
    for (i, e) in ev.iter().enumerate() {
        match e {
            Ev::SnapStart(a) | Ev::EmptyStart(a) => {
                open.insert(*a, i);
            }
            Ev::SnapEnd(a, blocks, per_block) => {
                let s = open.remove(a).unwrap_or(i);
                let mut seen = HashSet::new();
                for b in blocks {
                    let mut last_of: HashMap<usize, u32> = HashMap::new();
                    for v in b {
                        let Some(id) = v else {
                            return Err(Fail::new("snapshot-read-garbage", format!("a snapshot read observed bits that are not a pushed value (torn or unwritten slot); case {:?}", case)));
                        };
                        ensure!(push_start.get(id).map(|p| *p < i).unwrap_or(false), "snapshot-fabricated-value", "snapshot contains id {} that no push had started supplying", id);
                        ensure!(seen.insert(*id), "snapshot-duplicate", "id {} twice in one snapshot", id);
                        if let Some(p) = run.pusher_of.get(id) {
                            if *per_block {
                                if let Some(prev) = last_of.insert(*p, *id) {
                                    ensure!(prev < *id, "block-order-violated", "ids {} then {} of one pusher out of push order within one block (snapshot)", prev, id);
                                }
                            }
                        }
                    }
                }
                // must contain every id whose push completed before the snapshot began and that no clear starting before the snapshot ended took
                for id in &all_ids {
                    if push_end.get(id).map(|p| *p < s).unwrap_or(false) && !seen.contains(id) {
                        let excused = clears.iter().any(|(cs, _ce, set)| *cs < i && set.as_ref().map(|st| st.contains(id)).unwrap_or(false)) || plain_clear_could_take(*id, i);
                        ensure!(excused, sig("snapshot-misses-completed-push"), "snapshot (events {}..{}) lacks id {} whose push completed at event {} and which no clear starting before the snapshot ended took; case {:?}; trace {:?}", s, i, id, push_end[id], case, out.trace);
                    }
                }
            }
            Ev::EmptyEnd(a, empty) => {
                let s = open.remove(a).unwrap_or(i);
                if *empty {
                    for id in &all_ids {
                        if push_end.get(id).map(|p| *p < s).unwrap_or(false) {
                            let excused = clears.iter().any(|(cs, _ce, set)| *cs < i && set.as_ref().map(|st| st.contains(id)).unwrap_or(false)) || plain_clear_could_take(*id, i);
                            ensure!(excused, sig("is_empty-true-with-completed-push"), "is_empty() returned true (events {}..{}) although id {}'s push completed at event {} and no clear took it; case {:?}; trace {:?}", s, i, id, push_end[id], case, out.trace);
                        }
                    }
                }
            }
            _ => {}
        }
    }
    // destructors: at most once per tracked element
    if case.elem == "Tracked" {
        let g = crossbeam_epoch::pin();
        g.flush();
        drop(g);
        for (id, slot) in &run.tracked_slots {
            let d = Tracked::drops_of(*slot);
            ensure!(d <= 1, "element-dropped-twice", "element id {} dropped {} times", id, d);
        }
    }
    Ok(())
}

fn classify(case: &Case, run: &RunOut, ctx: &mut Ctx) {
    let tr = &run.out.trace;
    // push in progress per thread: between bucket.push.tail_loaded and c05.op_done
    let np = case.pushers.len() as u8;
    let mut in_push: HashSet<u8> = HashSet::new();
    let mut overlap = false;
    let mut handover = false;
    for (t, site) in tr {
        if *t < np {
            if site.starts_with("bucket.push") || site.starts_with("block.push") {
                in_push.insert(*t);
            } else if *site == "c05.op_done" {
                in_push.remove(t);
            }
            if *site == "bucket.push.new_tail_cas_ok" {
                handover = true;
            }
        } else if !in_push.is_empty() && (site.starts_with("bucket.clear") || site.starts_with("bucket.data") || site.starts_with("bucket.is_empty")) {
            overlap = true;
        }
    }
    if overlap {
        ctx.nontrivial("read-or-clear-inside-push");
    }
    if handover {
        ctx.nontrivial("handover-in-concurrent-phase");
    }
    if window_a_hit(tr) {
        ctx.class("known-window-A-entered");
    }
    if !case.known_window_open {
        ctx.excluded = Some("known-window-A-fused");
    }
}

pub fn case_sched(bytes: &[u8], sched_bytes: &[u8], ctx: &mut Ctx) -> Result<(), Fail> {
    let mut src = Source::new(bytes);
    let case = decode(&mut src);
    ctx.case(&(&case, sched_bytes));
    let run = if case.elem == "Tracked" { execute::<Tracked>(&case, sched_bytes, None) } else { execute::<u64>(&case, sched_bytes, None) };
    classify(&case, &run, ctx);
    oracle(&case, &run, ctx)
}

fn scenarios() -> Vec<(&'static str, Case)> {
    vec![
        ("1 pusher x2 || 1 clearer (clear_with x2), empty bucket", Case { elem: "u64", prefill: 0, pushers: vec![2], readers: vec![], clearers: vec![vec![COp::ClearWith, COp::ClearWith]], known_window_open: false }),
        ("1 pusher x2 at slot 63/64 || 1 reader (data_with, is_empty)", Case { elem: "Tracked", prefill: 63, pushers: vec![2], readers: vec![vec![ROp::DataWith, ROp::IsEmpty]], clearers: vec![], known_window_open: false }),
        ("2 pushers || 1 reader is_empty+data", Case { elem: "u64", prefill: 0, pushers: vec![1, 1], readers: vec![vec![ROp::IsEmpty, ROp::Data]], clearers: vec![], known_window_open: false }),
        ("1 pusher at hand-over || 1 clearer", Case { elem: "Tracked", prefill: 64, pushers: vec![1], readers: vec![], clearers: vec![vec![COp::ClearWith]], known_window_open: false }),
    ]
}

/// Bounded-exhaustive enumeration of every schedule with <= 2 preemptions for tiny scenarios.
fn exhaustive(pr: &PropRun) -> LaneReport {
    let start = std::time::Instant::now();
    let mut rep = LaneReport::named("exhaustive-le2-preemptions");
    rep.exhaustive = true;
    let scenarios = scenarios();
    for (si, (name, case)) in scenarios.iter().enumerate() {
        // length of the unpreempted run
        let nthreads = case.pushers.len() + case.readers.len() + case.clearers.len();
        let base = execute::<u64>(case, &[], Some(vec![]));
        let steps = base.out.steps + 8;
        let mut schedules: Vec<Vec<(u64, usize)>> = vec![vec![]];
        for s1 in 0..=steps {
            for t1 in 0..nthreads {
                schedules.push(vec![(s1, t1)]);
                for s2 in (s1 + 1)..=steps {
                    for t2 in 0..nthreads {
                        if t2 != t1 {
                            schedules.push(vec![(s1, t1), (s2, t2)]);
                        }
                    }
                }
            }
        }
        let mut seen_traces: HashSet<u64> = HashSet::new();
        for (k, sch) in schedules.iter().enumerate() {
            let run = if case.elem == "Tracked" { execute::<Tracked>(case, &[], Some(sch.clone())) } else { execute::<u64>(case, &[], Some(sch.clone())) };
            let mut ctx = Ctx::default();
            classify(case, &run, &mut ctx);
            let th = crate::engine::runner::hash_str(&format!("{:?}", run.out.trace));
            ctx.fingerprint = Some(th ^ (si as u64) << 56);
            if !seen_traces.insert(th) {
                ctx.nontrivial = false; // same interleaving as an earlier schedule
            }
            if k == 1 || k == schedules.len() / 2 {
                ctx.desc = Some(format!("scenario '{}' switches {:?} -> trace {:?}", name, sch, run.out.trace));
            }
            let r = oracle(case, &run, &mut ctx);
            rep.account(ctx);
            if let Err(f) = r {
                if pr.cfg.is_known(&f.sig) {
                    rep.known_hits.entry(f.sig.clone()).or_insert((0, vec![], vec![], format!("{} {:?}", name, sch))).0 += 1;
                } else {
                    let mut bytes = vec![si as u8];
                    for (s, t) in sch {
                        bytes.push(*s as u8);
                        bytes.push(*t as u8);
                    }
                    rep.violations.push(Violation { lane: "exhaustive-le2-preemptions".into(), sig: f.sig, msg: f.msg, bytes, sched: vec![], decoded: format!("scenario '{}' switches {:?}", name, sch) });
                    break;
                }
            }
        }
        rep.notes.push(format!("scenario '{}': {} schedules, {} distinct interleavings", name, schedules.len(), seen_traces.len()));
    }
    rep.wall_s = start.elapsed().as_secs_f64();
    rep
}

/// Free-running stress: pushers || snapshot readers only, strict conservation at quiescence.
fn stress(pr: &PropRun) -> LaneReport {
    let start = std::time::Instant::now();
    let mut rep = LaneReport::named("stress-pushers-vs-snapshots");
    let rounds = pr.cfg.cases(40, 1500);
    for round in 0..rounds {
        let npush = 2 + (round as usize % 6);
        let per = 2000 + 997 * (round as usize % 5);
        let bucket: AtomicBucket<u64> = AtomicBucket::new();
        let bad: Mutex<Option<String>> = Mutex::new(None);
        let done = std::sync::atomic::AtomicBool::new(false);
        std::thread::scope(|s| {
            let mut hs = vec![];
            for p in 0..npush {
                let bucket = &bucket;
                hs.push(s.spawn(move || {
                    for i in 0..per {
                        bucket.push(<u64 as Elem>::make((p * per + i + 1) as u32, false));
                    }
                }));
            }
            for _ in 0..2 {
                let (bucket, bad, done) = (&bucket, &bad, &done);
                s.spawn(move || {
                    while !done.load(Ordering::Acquire) {
                        let mut seen = HashSet::new();
                        bucket.data_with(|b| {
                            for v in b {
                                match v.id() {
                                    None => *bad.lock().unwrap() = Some(format!("garbage value {:#x} in snapshot", v)),
                                    Some(id) => {
                                        if !seen.insert(id) {
                                            *bad.lock().unwrap() = Some(format!("id {} twice in one snapshot", id));
                                        }
                                    }
                                }
                            }
                        });
                    }
                });
            }
            for h in hs {
                let _ = h.join();
            }
            done.store(true, Ordering::Release);
        });
        let mut got = HashSet::new();
        let mut dup = None;
        bucket.clear_with(|b| {
            for v in b {
                if let Some(id) = v.id() {
                    if !got.insert(id) {
                        dup = Some(id);
                    }
                }
            }
        });
        let mut ctx = Ctx::default();
        ctx.nontrivial("parallel-pushers-with-readers");
        ctx.fingerprint = Some(round);
        if round == 0 {
            ctx.desc = Some(format!("{} pushers x {} pushes, 2 snapshot readers, final clear_with", npush, per));
        }
        rep.account(ctx);
        let problem = bad.into_inner().unwrap().or(dup.map(|d| format!("id {} twice in final clear", d))).or(if got.len() != npush * per { Some(format!("{} pushers x {} pushes but final clear returned {} distinct values", npush, per, got.len())) } else { None });
        if let Some(msg) = problem {
            rep.violations.push(Violation { lane: "stress-pushers-vs-snapshots".into(), sig: "stress-conservation".into(), msg, bytes: vec![], sched: vec![], decoded: format!("round {} (free-running threads; not deterministically replayable)", round) });
            break;
        }
    }
    rep.wall_s = start.elapsed().as_secs_f64();
    rep
}

pub fn case_exhaustive_replay(bytes: &[u8], _s: &[u8], ctx: &mut Ctx) -> Result<(), Fail> {
    let sc = scenarios();
    let si = (*bytes.first().unwrap_or(&0) as usize).min(sc.len() - 1);
    let (name, case) = &sc[si];
    let sch: Vec<(u64, usize)> = bytes[1.min(bytes.len())..].chunks(2).filter(|c| c.len() == 2).map(|c| (c[0] as u64, c[1] as usize)).collect();
    ctx.case(&(name, &sch));
    let run = if case.elem == "Tracked" { execute::<Tracked>(case, &[], Some(sch)) } else { execute::<u64>(case, &[], Some(sch)) };
    classify(case, &run, ctx);
    oracle(case, &run, ctx)
}

/// The bucket as a histogram storage (`HistogramFn for AtomicBucket<f64>`, also behind a `metrics::Histogram` handle): every
/// f64 handed to record / record_many — NaN, infinities, -0.0 included — is a value like any other: visible to every later
/// snapshot read and is_empty, handed to exactly one clearing read, compared here bit for bit.
pub fn case_histogram_entry(bytes: &[u8], _s: &[u8], ctx: &mut Ctx) -> Result<(), Fail> {
    use metrics::HistogramFn;
    let mut src = Source::new(bytes);
    let n = 1 + src.below(30);
    #[derive(Debug)]
    enum Step {
        Record(f64),
        Many(f64, usize),
        ViaHandle(f64),
        Read,
        Clear,
    }
    let steps: Vec<Step> = (0..n)
        .map(|_| match src.below(8) {
            0 | 1 | 2 => Step::Record(src.f64_interesting()),
            3 => Step::Many(src.f64_interesting(), src.below(70)),
            4 => Step::ViaHandle(src.f64_interesting()),
            5 | 6 => Step::Read,
            _ => Step::Clear,
        })
        .collect();
    ctx.case(&steps);
    let bucket: std::sync::Arc<AtomicBucket<f64>> = std::sync::Arc::new(AtomicBucket::new());
    let handle = metrics::Histogram::from_arc(bucket.clone());
    let mut model: Vec<u64> = vec![];
    let sorted = |v: &[u64]| {
        let mut v = v.to_vec();
        v.sort();
        v
    };
    for (i, st) in steps.iter().enumerate() {
        match st {
            Step::Record(v) => {
                HistogramFn::record(&*bucket, *v);
                model.push(v.to_bits());
            }
            Step::Many(v, k) => {
                HistogramFn::record_many(&*bucket, *v, *k);
                model.extend(std::iter::repeat(v.to_bits()).take(*k));
            }
            Step::ViaHandle(v) => {
                handle.record(*v);
                model.push(v.to_bits());
            }
            Step::Read => {
                let got: Vec<u64> = bucket.data().iter().map(|v| v.to_bits()).collect();
                ensure!(sorted(&got) == sorted(&model), "snapshot-misses-completed-push", "step {}: data() holds {} values, {} were recorded and not cleared (bit patterns differ: {:?} vs {:?})", i, got.len(), model.len(), sorted(&got).iter().take(6).collect::<Vec<_>>(), sorted(&model).iter().take(6).collect::<Vec<_>>());
            }
            Step::Clear => {
                let mut got: Vec<u64> = vec![];
                bucket.clear_with(|vs| got.extend(vs.iter().map(|v| v.to_bits())));
                ensure!(sorted(&got) == sorted(&model), "value-lost", "step {}: clear_with handed out {} values, {} were recorded since the previous clear", i, got.len(), model.len());
                model.clear();
            }
        }
        ensure!(bucket.is_empty() == model.is_empty(), "is_empty-true-with-completed-push", "step {} ({:?}): is_empty() = {} but {} recorded values are waiting", i, st, bucket.is_empty(), model.len());
        if model.iter().any(|b| f64::from_bits(*b).is_nan() || f64::from_bits(*b).is_infinite()) {
            ctx.nontrivial("non-finite-sample-through-the-histogram-entry-point");
        }
    }
    Ok(())
}

/// Free-running stress aimed at the tail block: several pushers keep pushing self-checking values while one reader
/// alternates data_with and clear_with, so the bucket stays short and nearly every read lands on a block that is
/// being filled (slots claimed and published out of order by different pushers). Every value handed to the reader
/// must be a pushed value, and none may be handed to a clearing read twice. (Nothing is asserted about values that
/// never arrive: the recorded finding lost-push-into-detached-block is reachable here.)
fn stress_tail_block(pr: &PropRun) -> LaneReport {
    let start = std::time::Instant::now();
    let mut rep = LaneReport::named("stress-readers-on-the-tail-block");
    let reads = pr.cfg.cases(300_000, 12_000_000);
    let npush = 6usize;
    let bucket: AtomicBucket<u64> = AtomicBucket::new();
    let done = std::sync::atomic::AtomicBool::new(false);
    let mut problem: Option<String> = None;
    let mut hand_overs = 0u64;
    std::thread::scope(|s| {
        for p in 0..npush {
            let (bucket, done) = (&bucket, &done);
            s.spawn(move || {
                let mut i = 0u32;
                while !done.load(Ordering::Acquire) {
                    // ids are unique per pusher: (pusher, counter); 2^26 pushes per pusher are more than a run makes
                    let id = ((p as u32) << 26) | (i & 0x03ff_ffff);
                    bucket.push(<u64 as Elem>::make(id + 1, false));
                    i += 1;
                    if i % 7 == 0 {
                        std::hint::spin_loop();
                    }
                }
            });
        }
        let mut cleared: HashSet<u32> = HashSet::new();
        for r in 0..reads {
            let mut bad: Option<String> = None;
            if r % 2 == 0 {
                bucket.data_with(|b| {
                    for v in b {
                        if v.id().is_none() {
                            bad = Some(format!("a snapshot read was handed {:#x}, which is not a pushed value (unwritten or torn slot)", v));
                        }
                    }
                });
            } else {
                bucket.clear_with(|b| {
                    hand_overs += 1;
                    for v in b {
                        match v.id() {
                            None => bad = Some(format!("a clearing read was handed {:#x}, which is not a pushed value (unwritten or torn slot)", v)),
                            Some(id) => {
                                if !cleared.insert(id) {
                                    bad = Some(format!("value with id {:#x} was handed to clearing reads twice", id));
                                }
                            }
                        }
                    }
                });
                if cleared.len() > 4_000_000 {
                    cleared.clear(); // (ids never repeat, so forgetting old ones only weakens the duplicate check)
                }
            }
            if bad.is_some() {
                problem = bad.map(|m| format!("read {}: {}", r, m));
                break;
            }
        }
        done.store(true, Ordering::Release);
    });
    let mut ctx = Ctx::default();
    ctx.nontrivial("reads-while-the-tail-block-is-being-filled");
    ctx.fingerprint = Some(0);
    ctx.desc = Some(format!("{} pushers push continuously; {} reads alternating data_with / clear_with ({} blocks handed to clearing reads)", npush, reads, hand_overs));
    rep.account(ctx);
    rep.evaluations = reads;
    if let Some(msg) = problem {
        rep.violations.push(Violation { lane: "stress-readers-on-the-tail-block".into(), sig: "clear-read-garbage".into(), msg, bytes: vec![], sched: vec![], decoded: "free-running threads (not deterministically replayable)".into() });
    }
    rep.wall_s = start.elapsed().as_secs_f64();
    rep
}

pub fn run(cfg: &RunCfg, replay: Option<&str>) -> i32 {
    let mut pr = PropRun::new("C05", cfg, RULE);
    pr.register("schedules", &case_sched);
    pr.register("exhaustive-le2-preemptions", &case_exhaustive_replay);
    pr.register("histogram-entry-point", &case_histogram_entry);
    if let Some(f) = replay {
        return pr.replay(f);
    }
    pr.assume("SC interleavings at hook granularity (every atomic step of push/data_with/clear_with/is_empty is a hook site); weak-memory effects are not explored");
    pr.assume("a plain clear() discards values unobserved, so a value missing after a plain clear() that overlapped or followed its push is excused");
    pr.assume("at-most-once destruction is checked for the elements pushed in the concurrent phase at the end of each case (deferred epoch frees that run later are not seen)");
    let r = pr.run_regressions();
    pr.push(r);
    let c = pr.cfg.clone();
    let r = run_lane(&c, "C05", &Lane { name: "schedules", cases: c.cases(1_000_000, 20_000_000), max_len: 32, sched_len: 96, workers: 0, f: &case_sched });
    pr.push(r);
    let r = exhaustive(&pr);
    pr.push(r);
    let r = run_lane(&c, "C05", &Lane { name: "histogram-entry-point", cases: c.cases(200_000, 5_000_000), max_len: 120, sched_len: 0, workers: 0, f: &case_histogram_entry });
    pr.push(r);
    let r = stress(&pr);
    pr.push(r);
    let r = stress_tail_block(&pr);
    pr.push(r);
    if GARBAGE_DROPS.load(Ordering::Acquire) > 0 {
        let mut rep = LaneReport::named("garbage-drop-detector");
        rep.evaluations = 1;
        rep.violations.push(Violation { lane: "schedules".into(), sig: "garbage-element-dropped".into(), msg: format!("{} element(s) with invalid self-check were dropped (uninitialised or torn slot treated as a value)", GARBAGE_DROPS.load(Ordering::Acquire)), bytes: vec![], sched: vec![], decoded: String::new() });
        pr.push(rep);
    }
    pr.finish()
}
