//! C08 — Prometheus output is well-formed exposition text for any input strings.

use metrics::{Key, Label, Level, Metadata, Recorder, Unit};
use metrics_exporter_prometheus::{Matcher, PrometheusBuilder};

use crate::{
    engine::{
        report::PropRun,
        runner::{run_lane, Ctx, Fail, Lane, RunCfg},
        source::Source,
    },
    ensure,
    parsers::{parse_prometheus, prom_families, PromFamily},
};

const RULE: &str = "a case = builder configuration (unit suffix on/off, summary mode or global buckets, 0-2 global labels) and 1-6 metrics of any kind (several of which may be series of one family) whose name, label keys, label values and description are arbitrary Unicode strings built from letters, digits, controls, non-ASCII and a dictionary of hostile fragments (quotes, backslash runs, newlines, CR, forged '# TYPE' / sample lines, braces, commas, '=', '#', ':' , leading digits); every Unit value. Names and label keys get a distinct trailing index character so that the distinctness precondition of C07/C08 holds by construction (an own label may deliberately reuse a global label's exact name). Non-trivial = some user string contains a quote, backslash or newline, or the unit suffix is on with a unit other than Count. Distinct = distinct decoded cases.";

static META: Metadata<'static> = Metadata::new("c08", Level::INFO, None);

pub const HOSTILE: [&str; 22] = [
    "\"", "\\", "\\\\", "\\\"", "\\\\\"", "\n", "\r", "\r\n", "\\n", "# TYPE x counter\nx 1", "\nforged_metric 1\n", "\"} 1\nforged{a=\"", "{", "}", ",", "=", "#", ":", " ", "é", "日本語", "\u{0}",
];

pub const UNITS: [Unit; 17] = [
    Unit::Count,
    Unit::Percent,
    Unit::Seconds,
    Unit::Milliseconds,
    Unit::Microseconds,
    Unit::Nanoseconds,
    Unit::Tebibytes,
    Unit::Gibibytes,
    Unit::Mebibytes,
    Unit::Kibibytes,
    Unit::Bytes,
    Unit::TerabitsPerSecond,
    Unit::GigabitsPerSecond,
    Unit::MegabitsPerSecond,
    Unit::KilobitsPerSecond,
    Unit::BitsPerSecond,
    Unit::CountPerSecond,
];

#[derive(Debug, Clone)]
pub struct MetricSpec {
    pub kind: char,
    pub name: String,
    pub labels: Vec<(String, String)>,
    pub desc: Option<(String, Option<Unit>)>,
    pub nsamples: usize,
}

#[derive(Debug, Clone)]
pub struct Case {
    pub unit_suffix: bool,
    pub buckets: Option<Vec<f64>>,
    pub globals: Vec<(String, String)>,
    pub metrics: Vec<MetricSpec>,
    /// per-metric bucket overrides: (0 full / 1 prefix / 2 suffix, pattern)
    pub overrides: Vec<(u8, String)>,
}

fn dec_string(src: &mut Source, max: usize) -> String {
    src.string_with_dict(&HOSTILE, max)
}

pub fn decode(src: &mut Source) -> Case {
    let unit_suffix = src.bool();
    let buckets = if src.bool() { Some(vec![0.5, 2.0, 10.0][..1 + src.below(3)].to_vec()) } else { None };
    let mut label_idx = 0u8;
    let mut next_key = |src: &mut Source| {
        let k = format!("{}k{}", dec_string(src, 3), (b'a' + label_idx) as char);
        label_idx += 1;
        k
    };
    let ng = src.below(3);
    let globals: Vec<(String, String)> = (0..ng).map(|_| (next_key(src), dec_string(src, 4))).collect();
    let nm = 1 + src.below(6);
    let metrics = (0..nm)
        .map(|i| {
            let kind = *src.pick(&['c', 'g', 'h']);
            // sometimes the name already ends in a unit word or a type suffix word
            let tail = if src.chance(60) { format!("_{}", src.pick(&["seconds", "bytes", "ratio", "count_per_second", "total", "milliseconds", "bits_per_second"])) } else { String::new() };
            let name = format!("{}m{}{}", dec_string(src, 5), i, tail);
            let nl = src.below(4);
            let labels = (0..nl)
                .map(|_| {
                    let k = if !globals.is_empty() && src.chance(48) { globals[src.below(globals.len())].0.clone() } else { next_key(src) };
                    (k, dec_string(src, 4))
                })
                .collect::<Vec<_>>();
            // an own label list must not repeat a raw name itself
            let mut seen = std::collections::HashSet::new();
            let labels: Vec<(String, String)> = labels.into_iter().filter(|(k, _)| seen.insert(k.clone())).collect();
            let desc = if src.bool() { Some((dec_string(src, 6), if src.bool() { Some(*src.pick(&UNITS)) } else { None })) } else { None };
            MetricSpec { kind, name, labels, desc, nsamples: 1 + src.below(3) }
        })
        .collect();
    // several series in one family: a metric may take the name and kind of an earlier one; a label with
    // a distinct, harmless value keeps the label sets apart
    let mut metrics: Vec<MetricSpec> = metrics;
    for i in 1..metrics.len() {
        if src.chance(70) {
            let j = src.below(i);
            metrics[i].kind = metrics[j].kind;
            metrics[i].name = metrics[j].name.clone();
            metrics[i].labels.retain(|(k, _)| k != "sidkz");
            metrics[i].labels.push(("sidkz".to_string(), format!("s{}", i)));
        }
    }
    // bucket overrides for some histograms, by full name (raw or sanitised), by a prefix or by a suffix of the name
    let mut overrides = vec![];
    for m in metrics.iter().filter(|m| m.kind == 'h') {
        if src.chance(90) {
            let raw: Vec<char> = m.name.chars().collect();
            let k = 1 + src.below(raw.len().min(12));
            overrides.push(match src.below(4) {
                0 => (0, m.name.clone()),
                1 => (0, super::c07::ref_metric_name(&m.name)),
                2 => (1, raw[..k].iter().collect()),
                _ => (2, raw[raw.len() - k..].iter().collect()),
            });
        }
    }
    Case { unit_suffix, buckets, globals, metrics, overrides }
}

pub fn build(case: &Case) -> metrics_exporter_prometheus::PrometheusRecorder {
    let mut b = PrometheusBuilder::new().set_enable_unit_suffix(case.unit_suffix);
    if let Some(bk) = &case.buckets {
        b = b.set_buckets(bk).expect("non-empty buckets");
    }
    for (k, v) in &case.globals {
        b = b.add_global_label(k.clone(), v.clone());
    }
    for (kind, pat) in &case.overrides {
        let m = match kind {
            0 => Matcher::Full(pat.clone()),
            1 => Matcher::Prefix(pat.clone()),
            _ => Matcher::Suffix(pat.clone()),
        };
        b = b.set_buckets_for_metric(m, &[1.0, 5.0]).expect("non-empty buckets");
    }
    b.build_recorder()
}

pub fn key_of(m: &MetricSpec) -> Key {
    Key::from_parts(m.name.clone(), m.labels.iter().map(|(k, v)| Label::new(k.clone(), v.clone())).collect::<Vec<_>>())
}

/// Number of labels a series of `m` must carry: global labels overridden by own labels of the same raw name.
pub fn expected_label_count(case: &Case, m: &MetricSpec) -> usize {
    let mut names: Vec<&str> = case.globals.iter().map(|g| g.0.as_str()).collect();
    for (k, _) in &m.labels {
        if !names.contains(&k.as_str()) {
            names.push(k);
        }
    }
    names.len()
}

pub fn structural_oracle(case: &Case, text: &str) -> Result<Vec<PromFamily>, Fail> {
    let lines = parse_prometheus(text).map_err(|e| Fail::new("exposition-not-well-formed", format!("{} ; output {:?}", e, text)))?;
    let fams = prom_families(&lines).map_err(|e| Fail::new("family-structure-violated", format!("{} ; output {:?}", e, text)))?;
    // expected: one family per distinct metric name, holding one series per metric of that name
    let mut by_name: Vec<(&str, String, Vec<usize>)> = vec![]; // (name, type, label counts of its series)
    for m in &case.metrics {
        let t = match m.kind {
            'c' => "counter",
            'g' => "gauge",
            _ => {
                if case.buckets.is_some() {
                    "histogram"
                } else {
                    "summary"
                }
            }
        };
        match by_name.iter_mut().find(|(n, _, _)| *n == m.name.as_str()) {
            Some(e) => e.2.push(expected_label_count(case, m)),
            None => by_name.push((m.name.as_str(), t.to_string(), vec![expected_label_count(case, m)])),
        }
    }
    ensure!(fams.len() == by_name.len(), "family-count-mismatch", "{} distinct metric names registered but {} families rendered (a forged or merged family?) ; output {:?}", by_name.len(), fams.len(), text);
    let mut expected: Vec<(String, Vec<usize>)> = by_name.into_iter().map(|(_, t, mut c)| {
        c.sort();
        (t, c)
    }).collect();
    let mut got: Vec<(String, Vec<usize>)> = vec![];
    for f in &fams {
        ensure!(!f.samples.is_empty(), "family-without-samples", "family {:?} has no samples", f.name);
        // group the samples into series by their label set without le / quantile
        let mut groups: Vec<(Vec<(String, String)>, usize, usize)> = vec![]; // (labels, samples, quantile lines)
        for (n, labels, _, _) in &f.samples {
            let mut base: Vec<(String, String)> = labels.iter().filter(|(k, _)| !((f.mtype == "histogram" && k == "le") || (f.mtype == "summary" && k == "quantile"))).cloned().collect();
            base.sort();
            let q = (f.mtype == "summary" && *n == f.name) as usize;
            match groups.iter_mut().find(|g| g.0 == base) {
                Some(g) => {
                    g.1 += 1;
                    g.2 += q;
                }
                None => groups.push((base, 1, q)),
            }
        }
        // bucket lines per histogram series: the global bounds + Inf, or an override's two bounds + Inf
        let mut allowed_k: Vec<usize> = vec![];
        if let Some(b) = &case.buckets {
            allowed_k.push(b.len() + 1);
        }
        if !case.overrides.is_empty() {
            allowed_k.push(3);
        }
        let bucket_lines = f.samples.iter().filter(|(n, l, _, _)| n.ends_with("_bucket") && l.iter().any(|(k, _)| k == "le")).count();
        for (labels, n, q) in &groups {
            let ok = match f.mtype.as_str() {
                "counter" | "gauge" => *n == 1,
                "histogram" => allowed_k.iter().any(|k| *n == k + 2 && bucket_lines == groups.len() * k),
                _ => *n == q + 2,
            };
            ensure!(ok, "sample-count-mismatch", "family {:?} of type {}: the series with labels {:?} has {} samples ({} bucket lines in the family of {} series; bucket lines per series may be {:?}) — a forged sample or label? ; output {:?}", f.name, f.mtype, labels.iter().map(|l| &l.0).collect::<Vec<_>>(), n, bucket_lines, groups.len(), allowed_k, text);
        }
        let mut counts: Vec<usize> = groups.iter().map(|g| g.0.len()).collect();
        counts.sort();
        got.push((f.mtype.clone(), counts));
    }
    if !case.overrides.is_empty() {
        // which override applies to which name is C15's business: here a histogram may be either, as long as its
        // samples fit the type its TYPE line declares (checked by the parser and above)
        for e in expected.iter_mut().chain(got.iter_mut()) {
            if e.0 == "histogram" || e.0 == "summary" {
                e.0 = "histogram-or-summary".to_string();
            }
        }
    }
    expected.sort();
    got.sort();
    ensure!(expected == got, "types-or-label-counts-mismatch", "expected per family (type, labels per series) {:?} but rendered {:?} ; output {:?}", expected, got, text);
    Ok(fams)
}

pub fn case_render(bytes: &[u8], _s: &[u8], ctx: &mut Ctx) -> Result<(), Fail> {
    let mut src = Source::new(bytes);
    let case = decode(&mut src);
    // a quarter of the cases describe late: samples first, a render while nothing is described, then the
    // descriptions (with their units), then the renders below (drawn last: earlier replay files decode as before)
    let late = src.below(4) == 3;
    ctx.case(&(&case, late));
    let hostile = |s: &str| s.contains('"') || s.contains('\\') || s.contains('\n');
    let any_hostile = case.globals.iter().any(|(k, v)| hostile(k) || hostile(v)) || case.metrics.iter().any(|m| hostile(&m.name) || m.labels.iter().any(|(k, v)| hostile(k) || hostile(v)) || m.desc.as_ref().map(|d| hostile(&d.0)).unwrap_or(false));
    if any_hostile {
        ctx.nontrivial("quote-backslash-or-newline-in-user-string");
    }
    if case.unit_suffix && case.metrics.iter().any(|m| matches!(&m.desc, Some((_, Some(u))) if *u != Unit::Count)) {
        ctx.nontrivial("unit-suffix-with-non-count-unit");
    }
    let rec = build(&case);
    let describe = |m: &MetricSpec| {
        if let Some((d, u)) = &m.desc {
            match m.kind {
                'c' => rec.describe_counter(m.name.clone().into(), *u, d.clone().into()),
                'g' => rec.describe_gauge(m.name.clone().into(), *u, d.clone().into()),
                _ => rec.describe_histogram(m.name.clone().into(), *u, d.clone().into()),
            }
        }
    };
    for m in &case.metrics {
        if !late {
            describe(m);
        }
        let key = key_of(m);
        for i in 0..m.nsamples {
            match m.kind {
                'c' => rec.register_counter(&key, &META).increment(i as u64 + 1),
                'g' => rec.register_gauge(&key, &META).set(i as f64 - 0.5),
                _ => rec.register_histogram(&key, &META).record(i as f64 * 1.5),
            }
        }
    }
    let handle = rec.handle();
    if late {
        if case.metrics.iter().any(|m| m.desc.is_some() && m.nsamples > 0) {
            ctx.nontrivial("described-after-a-render-of-the-same-recorder");
        }
        let mut undescribed = case.clone();
        for m in undescribed.metrics.iter_mut() {
            m.desc = None;
        }
        let text0 = handle.render();
        structural_oracle(&undescribed, &text0)?;
        for m in &case.metrics {
            describe(m);
        }
    }
    let text = handle.render();
    let fams = structural_oracle(&case, &text)?;
    // HELP text round-trips for described families (escapes complete)
    let described = case.metrics.iter().filter(|m| m.desc.is_some()).map(|m| m.name.as_str()).collect::<std::collections::BTreeSet<_>>().len();
    let with_help = fams.iter().filter(|f| f.help.is_some()).count();
    ensure!(described == with_help, "help-line-count-mismatch", "{} metrics described but {} HELP lines ; output {:?}", described, with_help, text);
    // a second render is structurally the same
    let text2 = handle.render();
    structural_oracle(&case, &text2)?;
    Ok(())
}

pub fn run(cfg: &RunCfg, replay: Option<&str>) -> i32 {
    let mut pr = PropRun::new("C08", cfg, RULE);
    pr.register("renders", &case_render);
    if let Some(f) = replay {
        return pr.replay(f);
    }
    pr.assume("the distinctness precondition (sanitised metric names distinct across kinds and not another family's name plus _bucket/_sum/_count; sanitised label names distinct and not le/quantile) holds by construction: every generated name contains a letter plus a distinct index character at its end or just before an optional unit-word tail");
    pr.assume("well-formedness is decided by an independent strict parser of the text format 0.0.4 (line grammar, escapes \\\\ \\\" \\n only, Go float syntax, one TYPE per family before its samples, samples named family or family + a suffix its type allows)");
    let r = pr.run_regressions();
    pr.push(r);
    let c = pr.cfg.clone();
    let r = run_lane(&c, "C08", &Lane { name: "renders", cases: c.cases(600_000, 10_000_000), max_len: 300, sched_len: 0, workers: 0, f: &case_render });
    pr.push(r);
    pr.finish()
}
