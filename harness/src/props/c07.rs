//! C07 — Prometheus output reports exactly what was recorded, each sample once.

use std::{
    time::Duration,
    collections::{BTreeMap, HashMap},
    sync::Mutex,
};

use metrics::{Key, Label, Level, Metadata, Recorder, Unit};
use metrics_exporter_prometheus::{Matcher, PrometheusBuilder, PrometheusHandle};

use crate::{
    engine::{
        report::PropRun,
        runner::{run_lane, Ctx, Fail, Lane, LaneReport, RunCfg, Violation},
        sched::{self, SchedOpts},
        source::Source,
    },
    ensure,
    parsers::{parse_prometheus, prom_families, PromFamily},
    util::f64_same,
};

const RULE: &str = "sequential lane: a builder configuration (global buckets / one per-metric Full override / none; 0-2 global labels) and a history of 3-40 steps over 1-5 keys, several of which may be series of one family, (register+update of counters by increment or absolute, gauges by set/increment/decrement, histograms by record; describe; render; run_upkeep) with names needing sanitisation, label values with quotes/newlines/non-ASCII (no backslash), all-u64 and NaN/inf/-0 values; every render is parsed by the strict parser and compared with a reference model. Non-trivial = a histogram sample recorded between two drains (render/upkeep) of its key and rendered later, or a global label overridden by a key label. Schedule lane: 1-3 recording threads and one observer (render/upkeep) interleaved at the bucket and registry hook sites, known C05 window fused; non-trivial = an observer step inside a record(). Stress lane: free-running renders/upkeeps between barrier-separated recording phases. Distinct = distinct decoded (case, schedule).";

static META: Metadata<'static> = Metadata::new("c07", Level::INFO, None);

/// Reference sanitiser written from the Prometheus data model grammar.
pub fn ref_metric_name(s: &str) -> String {
    s.chars().enumerate().map(|(i, c)| if c.is_ascii_alphabetic() || c == '_' || c == ':' || (i > 0 && c.is_ascii_digit()) { c } else { '_' }).collect()
}
pub fn ref_label_name(s: &str) -> String {
    s.chars().enumerate().map(|(i, c)| if c.is_ascii_alphabetic() || c == '_' || (i > 0 && c.is_ascii_digit()) { c } else { '_' }).collect()
}

const NAME_PARTS: [&str; 10] = ["a", "b", "req", "_", "-", ".", ":", "é", "0", "total"];
const LVAL_PARTS: [&str; 10] = ["v", "1", "\"", "\n", " ", "é", "日本", "{}", ",=", "x"];

#[derive(Debug, Clone)]
struct KeySpec {
    kind: char,
    name: String,
    labels: Vec<(String, String)>,
}

#[derive(Debug, Clone)]
enum Step {
    Inc(usize, u64),
    Abs(usize, u64),
    GSet(usize, f64),
    GInc(usize, f64),
    GDec(usize, f64),
    Rec(usize, f64),
    RecMany(usize, f64, usize),
    Describe(usize, String),
    Render,
    Upkeep,
    /// advance the mock clock (index into ADVANCES, scaled by the configured summary window)
    Advance(usize),
}

#[derive(Debug, Clone)]
struct Config {
    buckets: Option<Vec<f64>>,
    full_override: Option<usize>, // key index that gets a Matcher::Full override
    globals: Vec<(String, String)>,
    /// summary window: (bucket duration in ns, bucket count); None = the builder's default (20 s x 3)
    window: Option<(u64, u32)>,
    quantiles: Option<Vec<f64>>,
    /// unit suffixes enabled: a described unit (other than count) becomes part of the family name
    unit_suffix: bool,
}

#[derive(Debug)]
struct Case {
    cfg: Config,
    keys: Vec<KeySpec>,
    steps: Vec<Step>,
}

fn dec_cfg_keys(src: &mut Source) -> (Config, Vec<KeySpec>) {
    let buckets = if src.chance(110) { Some(vec![-1.0, 0.0, 0.5, 2.0, 10.0][src.below(3)..3 + src.below(3)].to_vec()) } else { None };
    let nk = 1 + src.below(5);
    let globals: Vec<(String, String)> = (0..src.below(3)).map(|i| (format!("{}g{}", src.small_string(&NAME_PARTS, 2), i), src.small_string(&LVAL_PARTS, 3))).collect();
    let keys: Vec<KeySpec> = (0..nk)
        .map(|i| {
            let kind = *src.pick(&['h', 'c', 'g', 'h']);
            let name = format!("{}m{}", src.small_string(&NAME_PARTS, 4), i);
            let mut labels: Vec<(String, String)> = vec![];
            let _ = &name;
            for j in 0..src.below(4) {
                let k = if !globals.is_empty() && src.chance(70) { globals[src.below(globals.len())].0.clone() } else { format!("{}k{}", src.small_string(&NAME_PARTS, 2), j) };
                if !labels.iter().any(|(n, _)| *n == k) {
                    labels.push((k, src.small_string(&LVAL_PARTS, 3)));
                }
            }
            KeySpec { kind, name, labels }
        })
        .collect();
    // several series in one family: a key may take the name (and kind) of an earlier key; a label with a
    // distinct value keeps the label sets apart
    let mut keys = keys;
    for i in 1..keys.len() {
        if src.chance(90) {
            let j = src.below(i);
            keys[i].kind = keys[j].kind;
            keys[i].name = keys[j].name.clone();
            keys[i].labels.retain(|(n, _)| n != "sid");
            keys[i].labels.push(("sid".to_string(), i.to_string()));
        }
    }
    let full_override = if buckets.is_none() && src.chance(80) { Some(src.below(nk)) } else { None };
    (Config { buckets, full_override, globals, window: None, quantiles: None, unit_suffix: false }, keys)
}

fn dec_value(src: &mut Source) -> f64 {
    if src.chance(48) {
        src.f64_interesting()
    } else {
        src.f64_dyadic()
    }
}

fn decode(src: &mut Source) -> Case {
    let (cfg, keys) = dec_cfg_keys(src);
    let n = 3 + src.below(38);
    let steps = (0..n)
        .map(|_| {
            let k = src.below(keys.len());
            match src.below(10) {
                0 | 1 | 2 | 3 | 4 => match keys[k].kind {
                    'c' => {
                        if src.chance(64) {
                            Step::Abs(k, src.u64_interesting())
                        } else {
                            Step::Inc(k, src.u64_interesting())
                        }
                    }
                    'g' => match src.below(3) {
                        0 => Step::GSet(k, dec_value(src)),
                        1 => Step::GInc(k, dec_value(src)),
                        _ => Step::GDec(k, dec_value(src)),
                    },
                    _ => Step::Rec(k, dec_value(src)),
                },
                5 => Step::Describe(k, src.small_string(&LVAL_PARTS, 4)),
                6 | 7 => Step::Render,
                8 => {
                    if src.chance(110) {
                        Step::Advance(src.below(6))
                    } else {
                        Step::Upkeep
                    }
                }
                _ => {
                    if src.chance(60) {
                        Step::RecMany(k, src.f64_dyadic(), 60 + src.below(140))
                    } else {
                        Step::Rec(k, dec_value(src))
                    }
                }
            }
        })
        .collect();
    let mut cfg = cfg;
    if src.chance(150) {
        cfg.window = Some((*src.pick(&[1u64, 1_000_000, 50_000_000, 1_000_000_000]), 1 + src.below(3) as u32));
    }
    if src.chance(60) {
        cfg.quantiles = Some(vec![0.0, 0.5, 1.0][..1 + src.below(3)].to_vec());
    }
    // label names in a prefix relation: an own label named like the beginning of a global label's name, or like
    // the beginning of an earlier own label's name (drawn last, so that earlier replay files decode as before)
    let mut keys = keys;
    let sel = src.below(8);
    if sel >= 6 {
        let k = src.below(keys.len());
        let longer: Option<String> = if sel == 6 { cfg.globals.get(src.below(cfg.globals.len().max(1))).map(|g| g.0.clone()) } else { keys[k].labels.first().map(|l| l.0.clone()) };
        if let Some(longer) = longer {
            let nchars = longer.chars().count();
            if nchars >= 2 {
                let take = 1 + src.below(nchars - 1);
                let short: String = longer.chars().take(take).collect();
                let san = ref_label_name(&short);
                let clash = keys[k].labels.iter().any(|(n, _)| ref_label_name(n) == san) || cfg.globals.iter().any(|(n, _)| ref_label_name(n) == san) || san == "le" || san == "quantile" || san == "sid";
                if !clash {
                    keys[k].labels.push((short, src.small_string(&LVAL_PARTS, 3)));
                }
            }
        }
    }
    // a quarter of the histories run with unit suffixes on (drawn last); descriptions always carry a unit
    cfg.unit_suffix = src.below(4) == 3;
    Case { cfg, keys, steps }
}

fn build(cfg: &Config, keys: &[KeySpec]) -> metrics_exporter_prometheus::PrometheusRecorder {
    let mut b = PrometheusBuilder::new().set_enable_unit_suffix(cfg.unit_suffix);
    if let Some(bk) = &cfg.buckets {
        b = b.set_buckets(bk).unwrap();
    }
    if let Some(i) = cfg.full_override {
        b = b.set_buckets_for_metric(Matcher::Full(keys[i].name.clone()), &[1.0, 5.0]).unwrap();
    }
    for (k, v) in &cfg.globals {
        b = b.add_global_label(k.clone(), v.clone());
    }
    if let Some((d, n)) = cfg.window {
        b = b.set_bucket_duration(Duration::from_nanos(d)).unwrap().set_bucket_count(std::num::NonZeroU32::new(n).unwrap());
    }
    if let Some(q) = &cfg.quantiles {
        b = b.set_quantiles(q).unwrap();
    }
    b.build_recorder()
}

fn key_of(k: &KeySpec) -> Key {
    Key::from_parts(k.name.clone(), k.labels.iter().map(|(a, b)| Label::new(a.clone(), b.clone())).collect::<Vec<_>>())
}

/// Expected label map of a series: global labels overridden by own labels of the same raw name; names sanitised.
fn expected_labels(cfg: &Config, k: &KeySpec) -> BTreeMap<String, String> {
    let mut raw: Vec<(String, String)> = cfg.globals.clone();
    for (n, v) in &k.labels {
        if let Some(e) = raw.iter_mut().find(|(rn, _)| rn == n) {
            e.1 = v.clone();
        } else {
            raw.push((n.clone(), v.clone()));
        }
    }
    raw.into_iter().map(|(n, v)| (ref_label_name(&n), v)).collect()
}

#[derive(Default, Clone)]
struct Model {
    registered: bool,
    counter: u64,
    gauge: f64,
    samples: Vec<f64>,
    desc: Option<String>,
    /// unit given with the first description (descriptions are insert-if-missing: text and unit together)
    unit: Option<Unit>,
}

/// The unit a description step carries (a function of its text, so that the step type stays as it was).
fn unit_of(text: &str) -> Option<Unit> {
    match text.chars().count() % 4 {
        0 => None,
        1 => Some(Unit::Seconds),
        2 => Some(Unit::Bytes),
        _ => Some(Unit::Count),
    }
}

/// Family name: the sanitised metric name, plus `_<unit>` when unit suffixes are on and the family was described
/// with a unit other than count.
fn ref_family_name(cfg: &Config, name: &str, unit: Option<Unit>) -> String {
    let base = ref_metric_name(name);
    match unit {
        Some(u) if cfg.unit_suffix && u != Unit::Count => format!("{}_{}", base, u.as_str()),
        _ => base,
    }
}

fn buckets_for(cfg: &Config, keys: &[KeySpec], idx: usize) -> Option<Vec<f64>> {
    if cfg.full_override.map(|o| keys[o].name == keys[idx].name).unwrap_or(false) {
        Some(vec![1.0, 5.0])
    } else {
        cfg.buckets.clone()
    }
}

fn exact_sum(samples: &[f64]) -> (f64, bool) {
    // returns (sum, exact?) — exact when every sample is a dyadic rational of bounded size
    let exact = samples.iter().all(|v| v.is_finite() && (v * 8.0).fract() == 0.0 && v.abs() <= 4096.0);
    (samples.iter().sum(), exact)
}

fn check_render(cfg: &Config, keys: &[KeySpec], models: &[Model], text: &str) -> Result<Vec<PromFamily>, Fail> {
    let lines = parse_prometheus(text).map_err(|e| Fail::new("exposition-not-well-formed", format!("{} ; output {:?}", e, text)))?;
    let fams = prom_families(&lines).map_err(|e| Fail::new("family-structure-violated", format!("{} ; output {:?}", e, text)))?;
    let registered: std::collections::BTreeSet<&String> = keys.iter().zip(models.iter()).filter(|(_, m)| m.registered).map(|(k, _)| &k.name).collect();
    let registered = registered.len();
    ensure!(fams.len() == registered, "family-count-mismatch", "{} distinct metric names registered, {} families rendered ; output {:?}", registered, fams.len(), text);
    let mut samples_accounted: std::collections::HashMap<String, usize> = Default::default();
    for (i, k) in keys.iter().enumerate() {
        let m = &models[i];
        if !m.registered {
            continue;
        }
        let fname = ref_family_name(cfg, &k.name, m.unit);
        let Some(f) = fams.iter().find(|f| f.name == fname) else {
            return Err(Fail::new("series-missing", format!("metric {:?} (family {:?}) was registered but is not rendered ; output {:?}", k.name, fname, text)));
        };
        let want_labels = expected_labels(cfg, k);
        let strip = |labels: &[(String, String)], extra: &str| -> BTreeMap<String, String> { labels.iter().filter(|(n, _)| n != extra).cloned().collect() };
        // this key's series: the samples of the family whose label map (without le / quantile) is the expected one
        let full = f;
        let series = PromFamily { name: full.name.clone(), mtype: full.mtype.clone(), help: full.help.clone(), samples: full.samples.iter().filter(|(_, l, _, _)| l.iter().filter(|(n, _)| n != "le" && n != "quantile").cloned().collect::<BTreeMap<String, String>>() == want_labels).cloned().collect() };
        ensure!(!series.samples.is_empty(), "series-missing", "family {:?} has no series with labels {:?} (global labels overridden by key labels) ; output {:?}", fname, want_labels, text);
        *samples_accounted.entry(fname.clone()).or_insert(0) += series.samples.len();
        let f = &series;
        match (&m.desc, &f.help) {
            (Some(d), Some(h)) => ensure!(d == h, "help-not-first-description", "HELP of {:?} is {:?}, first description given was {:?}", fname, h, d),
            (None, None) => {}
            (a, b) => return Err(Fail::new("help-not-first-description", format!("description {:?} but HELP {:?} for {:?}", a, b, fname))),
        }
        match k.kind {
            'c' => {
                ensure!(f.mtype == "counter" && f.samples.len() == 1, "wrong-family-shape", "counter {:?}: type {} with {} samples", fname, f.mtype, f.samples.len());
                let (_, labels, _, vt) = &f.samples[0];
                ensure!(strip(labels, "") == want_labels, "series-labels-wrong", "counter {:?}: labels {:?}, expected global labels overridden by key labels {:?}", fname, labels, want_labels);
                ensure!(*vt == m.counter.to_string(), "counter-value-wrong", "counter {:?} renders {} but the total is {}", fname, vt, m.counter);
            }
            'g' => {
                ensure!(f.mtype == "gauge" && f.samples.len() == 1, "wrong-family-shape", "gauge {:?}: type {} with {} samples", fname, f.mtype, f.samples.len());
                let (_, labels, v, vt) = &f.samples[0];
                ensure!(strip(labels, "") == want_labels, "series-labels-wrong", "gauge {:?}: labels {:?}, expected {:?}", fname, labels, want_labels);
                ensure!(f64_same(*v, m.gauge), "gauge-value-wrong", "gauge {:?} renders {:?} which parses to {:?}, last value is {:?}", fname, vt, v, m.gauge);
            }
            _ => {
                let n = m.samples.len() as u64;
                let (sum, exact) = exact_sum(&m.samples);
                let bk = buckets_for(cfg, keys, i);
                ensure!(f.mtype == if bk.is_some() { "histogram" } else { "summary" }, "wrong-family-type", "{:?} rendered as {} but buckets apply: {}", fname, f.mtype, bk.is_some());
                let get = |suffix: &str| f.samples.iter().find(|(sn, _, _, _)| *sn == format!("{}{}", fname, suffix));
                let Some((_, cl, _, cvt)) = get("_count") else { return Err(Fail::new("wrong-family-shape", format!("{:?} has no _count ; output {:?}", fname, text))) };
                ensure!(*cvt == n.to_string(), "histogram-count-wrong", "{:?}_count renders {} but {} samples were recorded under the key ; output {:?}", fname, cvt, n, text);
                ensure!(strip(cl, "") == want_labels, "series-labels-wrong", "{:?}_count labels {:?} expected {:?}", fname, cl, want_labels);
                let Some((_, _, sv, svt)) = get("_sum") else { return Err(Fail::new("wrong-family-shape", format!("{:?} has no _sum", fname))) };
                if exact {
                    ensure!(*sv == sum, "histogram-sum-wrong", "{:?}_sum renders {} but the exact sum of the {} samples is {}", fname, svt, n, sum);
                } else if m.samples.iter().any(|v| v.is_nan()) {
                    ensure!(sv.is_nan(), "histogram-sum-wrong", "{:?}_sum renders {} but a NaN sample was recorded", fname, svt);
                } else if m.samples.iter().any(|v| v.is_infinite()) {
                    // an infinite sample dominates whatever the order of additions (NaN if both signs occur)
                    let (pos, neg) = (m.samples.iter().any(|v| *v == f64::INFINITY), m.samples.iter().any(|v| *v == f64::NEG_INFINITY));
                    let ok = if pos && neg { sv.is_nan() } else if pos { *sv == f64::INFINITY || sv.is_nan() } else { *sv == f64::NEG_INFINITY || sv.is_nan() };
                    ensure!(ok, "histogram-sum-wrong", "{:?}_sum renders {} although an infinite sample was recorded", fname, svt);
                } else if !m.samples.iter().map(|v| v.abs()).sum::<f64>().is_finite() {
                    // finite samples whose magnitudes overflow f64 when added: the result depends on the
                    // order of additions (per-batch partial sums), so no single value is required
                } else {
                    let scale: f64 = m.samples.iter().map(|v| v.abs()).sum::<f64>().max(f64::MIN_POSITIVE);
                    ensure!((sv - sum).abs() <= 1e-9 * scale || !sv.is_finite() && scale.is_infinite(), "histogram-sum-wrong", "{:?}_sum renders {} expected about {}", fname, svt, sum);
                }
                if let Some(bounds) = bk {
                    for b in bounds.iter() {
                        let want = m.samples.iter().filter(|s| **s <= *b).count() as u64;
                        let line = f.samples.iter().find(|(sn, l, _, _)| *sn == format!("{}_bucket", fname) && l.iter().any(|(ln, lv)| ln == "le" && lv.parse::<f64>().ok() == Some(*b)));
                        let Some((_, bl, _, bvt)) = line else { return Err(Fail::new("wrong-family-shape", format!("{:?} has no bucket le={} ; output {:?}", fname, b, text))) };
                        ensure!(*bvt == want.to_string(), "bucket-count-wrong", "{:?}_bucket{{le={}}} renders {} but {} samples are <= {}", fname, b, bvt, want, b);
                        ensure!(strip(bl, "le") == want_labels, "series-labels-wrong", "bucket labels {:?} expected {:?}", bl, want_labels);
                    }
                    let inf = f.samples.iter().find(|(sn, l, _, _)| *sn == format!("{}_bucket", fname) && l.iter().any(|(ln, lv)| ln == "le" && lv == "+Inf"));
                    ensure!(inf.map(|(_, _, _, vt)| *vt == n.to_string()).unwrap_or(false), "inf-bucket-wrong", "{:?}: +Inf bucket {:?} but count is {}", fname, inf.map(|x| x.3.clone()), n);
                }
            }
        }
    }
    for f in &fams {
        ensure!(samples_accounted.get(&f.name).copied().unwrap_or(0) == f.samples.len(), "unexpected-series", "family {:?} renders {} samples but the registered keys account for {} ; output {:?}", f.name, f.samples.len(), samples_accounted.get(&f.name).copied().unwrap_or(0), text);
    }
    Ok(fams)
}

fn non_quantile_lines(text: &str) -> Vec<String> {
    let mut v: Vec<String> = text.lines().filter(|l| !l.contains("quantile=\"")).map(|s| s.to_string()).collect();
    v.sort();
    v
}

pub fn case_seq(bytes: &[u8], _s: &[u8], ctx: &mut Ctx) -> Result<(), Fail> {
    let mut src = Source::new(bytes);
    let mut case = decode(&mut src);
    case.steps.push(Step::Render);
    ctx.case(&case);
    // the exporter's time (sample timestamps, summary windows) is a mock clock advanced only by the history
    let (clock, mock) = quanta::Clock::mock();
    mock.increment(Duration::from_secs(3600));
    quanta::with_clock(&clock, || run_history(&case, &mock, ctx))
}

fn run_history(case: &Case, mock: &quanta::Mock, ctx: &mut Ctx) -> Result<(), Fail> {
    let rec = build(&case.cfg, &case.keys);
    let handle = rec.handle();
    let mut models: Vec<Model> = vec![Model::default(); case.keys.len()];
    let mut drained_since_sample: Vec<u8> = vec![0; case.keys.len()]; // 0 none, 1 sample recorded after a drain
    let mut drains_seen: Vec<u32> = vec![0; case.keys.len()];
    if case.keys.iter().any(|k| k.labels.iter().any(|(n, _)| case.cfg.globals.iter().any(|(g, _)| g == n))) {
        ctx.nontrivial("global-label-overridden");
    }
    if case.keys.iter().any(|k| k.labels.iter().any(|(n, _)| case.cfg.globals.iter().map(|g| &g.0).chain(k.labels.iter().map(|l| &l.0)).any(|o| o != n && o.starts_with(n.as_str())))) {
        ctx.nontrivial("label-name-is-the-beginning-of-another-label-name");
    }
    let mut last_render: Option<String> = None;
    for step in &case.steps {
        match step {
            Step::Inc(k, v) => {
                rec.register_counter(&key_of(&case.keys[*k]), &META).increment(*v);
                models[*k].registered = true;
                models[*k].counter = models[*k].counter.wrapping_add(*v);
                last_render = None;
            }
            Step::Abs(k, v) => {
                rec.register_counter(&key_of(&case.keys[*k]), &META).absolute(*v);
                models[*k].registered = true;
                models[*k].counter = models[*k].counter.max(*v);
                last_render = None;
            }
            Step::GSet(k, v) => {
                rec.register_gauge(&key_of(&case.keys[*k]), &META).set(*v);
                models[*k].registered = true;
                models[*k].gauge = *v;
                last_render = None;
            }
            Step::GInc(k, v) => {
                rec.register_gauge(&key_of(&case.keys[*k]), &META).increment(*v);
                models[*k].registered = true;
                models[*k].gauge += *v;
                last_render = None;
            }
            Step::GDec(k, v) => {
                rec.register_gauge(&key_of(&case.keys[*k]), &META).decrement(*v);
                models[*k].registered = true;
                models[*k].gauge -= *v;
                last_render = None;
            }
            Step::Rec(k, v) => {
                if case.keys[*k].kind != 'h' {
                    continue;
                }
                rec.register_histogram(&key_of(&case.keys[*k]), &META).record(*v);
                models[*k].registered = true;
                models[*k].samples.push(*v);
                if drains_seen[*k] >= 1 {
                    drained_since_sample[*k] = 1;
                }
                last_render = None;
            }
            Step::RecMany(k, v, n) => {
                if case.keys[*k].kind != 'h' {
                    continue;
                }
                rec.register_histogram(&key_of(&case.keys[*k]), &META).record_many(*v, *n);
                models[*k].registered = true;
                for _ in 0..*n {
                    models[*k].samples.push(*v);
                }
                if drains_seen[*k] >= 1 {
                    drained_since_sample[*k] = 1;
                }
                ctx.class("more-than-a-block-of-samples");
                last_render = None;
            }
            Step::Describe(k, d) => {
                let name = case.keys[*k].name.clone();
                let unit = unit_of(d);
                match case.keys[*k].kind {
                    'c' => rec.describe_counter(name.into(), unit, d.clone().into()),
                    'g' => rec.describe_gauge(name.into(), unit, d.clone().into()),
                    _ => rec.describe_histogram(name.into(), unit, d.clone().into()),
                }
                for (j, other) in case.keys.iter().enumerate() {
                    if other.name == case.keys[*k].name && models[j].desc.is_none() {
                        models[j].desc = Some(d.clone());
                        models[j].unit = unit;
                        if case.cfg.unit_suffix && unit.map(|u| u != Unit::Count).unwrap_or(false) {
                            ctx.nontrivial("family-named-with-its-unit");
                        }
                    }
                }
                last_render = None;
            }
            Step::Advance(i) => {
                let (d, n) = case.cfg.window.unwrap_or((20_000_000_000, 3));
                let w = d.saturating_mul(n as u64);
                let ns = [1, d / 2 + 1, d, w, w + 1, w.saturating_mul(10)][*i];
                mock.increment(Duration::from_nanos(ns));
                if ns > w && models.iter().zip(case.keys.iter()).any(|(m, k)| k.kind == 'h' && !m.samples.is_empty()) {
                    ctx.nontrivial("clock-advanced-past-the-summary-window-after-samples");
                }
            }
            Step::Upkeep => {
                handle.run_upkeep();
                for (i, m) in models.iter().enumerate() {
                    if m.registered && case.keys[i].kind == 'h' {
                        drains_seen[i] += 1;
                    }
                }
            }
            Step::Render => {
                let text = handle.render();
                check_render(&case.cfg, &case.keys, &models, &text)?;
                for (i, m) in models.iter().enumerate() {
                    if m.registered && case.keys[i].kind == 'h' {
                        if drained_since_sample[i] == 1 && drains_seen[i] >= 2 {
                            ctx.nontrivial("sample-between-two-drains-then-rendered");
                        }
                        drains_seen[i] += 1;
                    }
                }
                if let Some(prev) = &last_render {
                    ensure!(non_quantile_lines(prev) == non_quantile_lines(&text), "render-not-idempotent", "two renders with no update in between differ: {:?} vs {:?}", prev, text);
                    ctx.class("render-twice-without-update");
                }
                last_render = Some(text);
            }
        }
    }
    Ok(())
}

// ------------------------------------------------------------------------- schedule lane

#[derive(Debug)]
struct SchedCase {
    buckets: bool,
    recorders: Vec<Vec<(usize, u32)>>, // (key index 0..2, tag)
    observer: Vec<bool>,               // true = render, false = upkeep
}

pub fn case_sched(bytes: &[u8], sched_bytes: &[u8], ctx: &mut Ctx) -> Result<(), Fail> {
    let mut src = Source::new(bytes);
    let buckets = src.bool();
    let nr = 1 + src.below(3);
    let mut tag = 1u32;
    let recorders: Vec<Vec<(usize, u32)>> = (0..nr)
        .map(|_| {
            (0..1 + src.below(4))
                .map(|_| {
                    let t = tag;
                    tag += 1;
                    (0usize, t)
                })
                .collect()
        })
        .collect();
    let observer: Vec<bool> = (0..1 + src.below(4)).map(|_| src.byte() < 170).collect();
    // samples recorded before the threads start: 61-63 of them leave a storage block that the racing recorders fill
    // to its last slot while the observer drains it
    let prefill: u32 = *src.pick(&[0u32, 0, 61, 62, 63, 64]);
    let case = SchedCase { buckets, recorders, observer };
    ctx.case(&(&case, prefill, sched_bytes));
    let mut b = PrometheusBuilder::new();
    if case.buckets {
        b = b.set_buckets(&[10.0, 100.0]).unwrap();
    }
    let rec = b.build_recorder();
    let handle: PrometheusHandle = rec.handle();
    #[derive(Debug)]
    enum Ev {
        RecStart(u32),
        RecEnd(u32),
        ObsStart(usize),
        ObsEnd(usize, Option<u64>), // rendered _count (None for upkeep / metric absent)
    }
    let events: Mutex<Vec<Ev>> = Mutex::new(vec![]);
    let bad: Mutex<Option<Fail>> = Mutex::new(None);
    let key = Key::from_name("h");
    for t in 0..prefill {
        rec.register_histogram(&key, &META).record((1000 + t) as f64);
    }
    if prefill >= 61 {
        ctx.class("block-almost-full-before-the-race");
    }
    let mut bodies: Vec<Box<dyn FnOnce() + Send + '_>> = Vec::new();
    for ops in &case.recorders {
        let (rec, events, key) = (&rec, &events, &key);
        bodies.push(Box::new(move || {
            for (_, t) in ops {
                events.lock().unwrap().push(Ev::RecStart(*t));
                rec.register_histogram(key, &META).record(*t as f64);
                events.lock().unwrap().push(Ev::RecEnd(*t));
                sched::point("c07.op_done");
            }
        }));
    }
    let count_of = |text: &str| -> Result<Option<u64>, Fail> {
        let lines = parse_prometheus(text).map_err(|e| Fail::new("exposition-not-well-formed", e))?;
        let fams = prom_families(&lines).map_err(|e| Fail::new("family-structure-violated", e))?;
        Ok(fams.iter().find(|f| f.name == "h").and_then(|f| f.samples.iter().find(|s| s.0 == "h_count").map(|s| s.3.parse::<u64>().unwrap_or(u64::MAX))))
    };
    {
        let (handle, events, bad, observer) = (&handle, &events, &bad, &case.observer);
        let count_of = &count_of;
        bodies.push(Box::new(move || {
            for (i, render) in observer.iter().enumerate() {
                events.lock().unwrap().push(Ev::ObsStart(i));
                let c = if *render {
                    match count_of(&handle.render()) {
                        Ok(c) => c,
                        Err(e) => {
                            *bad.lock().unwrap() = Some(e);
                            None
                        }
                    }
                } else {
                    handle.run_upkeep();
                    None
                };
                events.lock().unwrap().push(Ev::ObsEnd(i, c));
                sched::point("c07.obs_done");
            }
        }));
    }
    let fuse = vec![("bucket.push.tail_loaded", "block.push.claimed"), ("bucket.push.new_tail_cas_ok", "block.push.claimed")];
    ctx.excluded = Some("known-window-fused:C05-lost-push-into-detached-block");
    let out = sched::explore(sched_bytes, SchedOpts { fuse, max_steps: 6000, ..Default::default() }, bodies);
    if out.budget_exhausted {
        ctx.discard = true;
        return Ok(());
    }
    ensure!(out.panics.is_empty(), "panic-in-thread", "{:?}", out.panics);
    ensure!(!out.livelock, "observer-livelock", "render/upkeep spins forever; trace tail {:?}", out.trace.iter().rev().take(8).collect::<Vec<_>>());
    if let Some(e) = bad.into_inner().unwrap() {
        return Err(e);
    }
    let total: u64 = case.recorders.iter().map(|r| r.len() as u64).sum::<u64>() + prefill as u64;
    let final_text = handle.render();
    let final_count = count_of(&final_text)?.unwrap_or(0);
    ensure!(final_count == total, "histogram-count-wrong", "{} samples recorded but the quiescent render shows _count {} ; trace {:?}", total, final_count, out.trace);
    if case.buckets {
        // each tag counted once: _sum equals the sum of tags exactly
        let lines = parse_prometheus(&final_text).unwrap();
        let fams = prom_families(&lines).unwrap();
        let sum = fams.iter().find(|f| f.name == "h").and_then(|f| f.samples.iter().find(|s| s.0 == "h_sum").map(|s| s.2)).unwrap_or(-1.0);
        let want: f64 = case.recorders.iter().flatten().map(|(_, t)| *t as f64).sum::<f64>() + (0..prefill).map(|t| (1000 + t) as f64).sum::<f64>();
        ensure!(sum == want, "histogram-sum-wrong", "sum of recorded tags {} but _sum {}", want, sum);
    }
    // intermediate renders: completed-before-start <= count <= started-before-end, and monotone
    let evs = events.into_inner().unwrap();
    let mut started = prefill as u64;
    let mut completed = prefill as u64;
    let mut completed_at_obs_start = prefill as u64;
    let mut last_count = 0u64;
    let mut overlap = false;
    let mut in_obs = false;
    for e in &evs {
        match e {
            Ev::RecStart(_) => {
                started += 1;
                if in_obs {
                    overlap = true;
                }
            }
            Ev::RecEnd(_) => {
                completed += 1;
                if in_obs {
                    overlap = true;
                }
            }
            Ev::ObsStart(_) => {
                in_obs = true;
                completed_at_obs_start = completed;
                if started > completed {
                    overlap = true;
                }
            }
            Ev::ObsEnd(i, c) => {
                in_obs = false;
                if let Some(c) = c {
                    ensure!(*c <= started, "count-ahead-of-recordings", "render {} shows _count {} but only {} record() calls had started", i, c, started);
                    ensure!(*c >= completed_at_obs_start, "render-misses-completed-sample", "render {} shows _count {} but {} record() calls had completed before it began ; trace {:?}", i, c, completed_at_obs_start, out.trace);
                    ensure!(*c >= last_count, "count-decreased", "render {} shows _count {} after an earlier render showed {}", i, c, last_count);
                    last_count = *c;
                }
            }
        }
    }
    if overlap {
        ctx.nontrivial("observer-overlaps-record");
    }
    Ok(())
}

fn stress(pr: &PropRun) -> LaneReport {
    let start = std::time::Instant::now();
    let mut rep = LaneReport::named("stress-phases");
    let rounds = pr.cfg.cases(30, 1500);
    for round in 0..rounds {
        let rec = PrometheusBuilder::new().set_buckets(&[5.0, 50.0]).unwrap().build_recorder();
        let handle = rec.handle();
        let nthreads = 2 + (round as usize % 5);
        let per = 500 + 211 * (round as usize % 4);
        let mut expected = 0u64;
        let mut problem: Option<String> = None;
        for phase in 0..3 {
            std::thread::scope(|s| {
                for t in 0..nthreads {
                    let rec = &rec;
                    s.spawn(move || {
                        let k = Key::from_parts("h", vec![Label::new("t", (t % 2).to_string())]);
                        let c = Key::from_name("c");
                        for i in 0..per {
                            rec.register_histogram(&k, &META).record((i % 7) as f64);
                            rec.register_counter(&c, &META).increment(1);
                        }
                    });
                }
            });
            expected += (nthreads * per) as u64;
            // no push in flight now: concurrent render || upkeep || render
            let results: Mutex<Vec<String>> = Mutex::new(vec![]);
            std::thread::scope(|s| {
                for j in 0..3 {
                    let (handle, results) = (&handle, &results);
                    s.spawn(move || {
                        if j == 1 {
                            handle.run_upkeep();
                        } else {
                            results.lock().unwrap().push(handle.render());
                        }
                    });
                }
            });
            for text in results.into_inner().unwrap() {
                match parse_prometheus(&text).and_then(|l| prom_families(&l)) {
                    Err(e) => problem = Some(format!("phase {}: {}", phase, e)),
                    Ok(fams) => {
                        let total: u64 = fams.iter().filter(|f| f.name == "h").flat_map(|f| f.samples.iter()).filter(|s| s.0 == "h_count").map(|s| s.3.parse::<u64>().unwrap_or(0)).sum();
                        let c: u64 = fams.iter().filter(|f| f.name == "c").flat_map(|f| f.samples.iter()).map(|s| s.3.parse::<u64>().unwrap_or(0)).sum();
                        if total != expected || c != expected {
                            problem = Some(format!("phase {}: {} samples and increments made, rendered h_count total {} counter {}", phase, expected, total, c));
                        }
                    }
                }
            }
        }
        let mut ctx = Ctx::default();
        ctx.fingerprint = Some(round);
        ctx.nontrivial("concurrent-render-upkeep-render");
        if round == 0 {
            ctx.desc = Some(format!("{} threads x {} records+increments per phase, 3 phases, then render || upkeep || render", nthreads, per));
        }
        rep.account(ctx);
        if let Some(msg) = problem {
            rep.violations.push(Violation { lane: "stress-phases".into(), sig: "stress-count-mismatch".into(), msg, bytes: vec![], sched: vec![], decoded: format!("round {} (free-running)", round) });
            break;
        }
    }
    rep.wall_s = start.elapsed().as_secs_f64();
    rep
}

pub fn run(cfg: &RunCfg, replay: Option<&str>) -> i32 {
    let mut pr = PropRun::new("C07", cfg, RULE);
    pr.register("histories", &case_seq);
    pr.register("schedules", &case_sched);
    if let Some(f) = replay {
        return pr.replay(f);
    }
    pr.assume("precondition of the property by construction: names end in a letter plus a distinct index, label names in a letter plus an index, so sanitised names are distinct across kinds and label names distinct and never le/quantile");
    pr.assume("label values and descriptions contain no backslash (the sanitiser treats a backslash before a quote as an existing escape, so such values have no unique expected decoding; C08 covers their well-formedness)");
    pr.assume("_sum is compared exactly when all samples are dyadic rationals |v| <= 4096, otherwise within 1e-9 relative to the sum of magnitudes, NaN/inf by rule; unit suffix off (C08 covers it)");
    pr.assume("schedule lane: SC interleavings at hook granularity with the known C05 window fused; stress lane free-running");
    let r = pr.run_regressions();
    pr.push(r);
    let c = pr.cfg.clone();
    let r = run_lane(&c, "C07", &Lane { name: "histories", cases: c.cases(300_000, 8_000_000), max_len: 400, sched_len: 0, workers: 0, f: &case_seq });
    pr.push(r);
    let r = run_lane(&c, "C07", &Lane { name: "schedules", cases: c.cases(300_000, 8_000_000), max_len: 32, sched_len: 128, workers: 0, f: &case_sched });
    pr.push(r);
    let r = stress(&pr);
    pr.push(r);
    pr.finish()
}
