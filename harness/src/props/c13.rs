//! C13 — layers deliver exactly the transformed operations to exactly the right recorders.

use metrics::{Key, Label, Level, Metadata, Recorder, Unit};
use metrics_util::{
    layers::{FanoutBuilder, FilterLayer, Layer, PrefixLayer, RouterBuilder, Stack},
    MetricKindMask,
};

use crate::{
    doubles::{new_log, LogRecorder, Op, RecEvent},
    engine::{
        report::PropRun,
        runner::{run_lane, Ctx, Fail, Lane, RunCfg},
        source::Source,
    },
    ensure,
};

const RULE: &str = "a case = a generated tree of layers (prefix, filter with 0-3 patterns / case-insensitivity / DFA on-off, router with a default and 0-4 routes over masks {ALL, COUNTER, GAUGE, HISTOGRAM} incl. overlapping, duplicated and empty patterns, fan-out of width 0-4) of depth <= 3 over logging leaf recorders, plus 0-3 layers pushed on a Stack on top, and 1-8 operations (describe/register of every kind with names over a tiny alphabet sharing prefixes with the routes and patterns, '' and non-ASCII and case variants; registered handles are updated 0-2 times). A reference interpreter written from the documentation predicts, per leaf, the exact ordered log. Non-trivial = the tree holds >= 2 layers and some operation's name equals or extends a route or contains a filter pattern. Distinct = distinct decoded cases.";

static META: Metadata<'static> = Metadata::new("c13::target", Level::WARN, Some("c13::module"));

const ATOMS: [&str; 10] = ["a", "b", "ab", ".", "A", "é", "x", "", "É", "Δ"];

fn dec_name(src: &mut Source) -> String {
    src.small_string(&ATOMS, 4)
}

#[derive(Debug, Clone)]
enum Node {
    Leaf(u32),
    Prefix(String, Box<Node>),
    Filter { patterns: Vec<String>, ci: bool, dfa: bool, inner: Box<Node> },
    Router { default: Box<Node>, routes: Vec<(u8, String, Node)> }, // mask 0 ALL 1 C 2 G 3 H
    Fanout(Vec<Node>),
}

#[derive(Debug, Clone)]
enum LayerSpec {
    Prefix(String),
    Filter { patterns: Vec<String>, ci: bool, dfa: bool },
}

#[derive(Debug, Clone)]
struct OpSpec {
    describe: bool,
    kind: char,
    name: String,
    labels: Vec<(String, String)>,
    unit: Option<Unit>,
    desc: String,
    updates: Vec<u64>,
}

#[derive(Debug)]
struct Case {
    tree: Node,
    pushes: Vec<LayerSpec>,
    ops: Vec<OpSpec>,
}

fn dec_node(src: &mut Source, depth: usize, next_leaf: &mut u32) -> Node {
    let choice = if depth == 0 { 0 } else { src.below(6) };
    match choice {
        0 | 1 => {
            let id = *next_leaf;
            *next_leaf += 1;
            Node::Leaf(id)
        }
        2 => Node::Prefix(dec_name(src), Box::new(dec_node(src, depth - 1, next_leaf))),
        3 => Node::Filter { patterns: src.vec(3, |s| dec_name(s)), ci: src.bool(), dfa: src.bool(), inner: Box::new(dec_node(src, depth - 1, next_leaf)) },
        4 => {
            let default = Box::new(dec_node(src, depth - 1, next_leaf));
            let n = src.below(5);
            let routes = (0..n).map(|_| (src.below(4) as u8, dec_name(src), dec_node(src, depth - 1, next_leaf))).collect();
            Node::Router { default, routes }
        }
        _ => {
            let n = src.below(5);
            Node::Fanout((0..n).map(|_| dec_node(src, depth - 1, next_leaf)).collect())
        }
    }
}

fn decode(src: &mut Source) -> Case {
    let mut next_leaf = 1;
    let tree = dec_node(src, 3, &mut next_leaf);
    let pushes = src.vec(3, |s| if s.bool() { LayerSpec::Prefix(dec_name(s)) } else { LayerSpec::Filter { patterns: s.vec(3, |s| dec_name(s)), ci: s.bool(), dfa: s.bool() } });
    let nops = 1 + src.below(8);
    let ops = (0..nops)
        .map(|_| OpSpec {
            describe: src.chance(90),
            kind: *src.pick(&['c', 'g', 'h']),
            name: dec_name(src),
            labels: src.vec(2, |s| (dec_name(s), dec_name(s))),
            unit: if src.bool() { Some(*src.pick(&[Unit::Bytes, Unit::Count, Unit::Seconds])) } else { None },
            desc: dec_name(src),
            updates: src.vec(2, |s| s.int_in(0, 9)),
        })
        .collect();
    // about one case in fifty has a large route table: 256-300 filler routes (patterns no generated name starts
    // with) are put in front of the first router's own routes, so that those sit at positions beyond 255
    let mut tree = tree;
    if src.below(50) == 49 {
        let n = 256 + src.below(45);
        inflate(&mut tree, n, next_leaf + 10_000);
    }
    Case { tree, pushes, ops }
}

fn inflate(node: &mut Node, n: usize, first_leaf: u32) -> bool {
    match node {
        Node::Leaf(_) => false,
        Node::Prefix(_, inner) | Node::Filter { inner, .. } => inflate(inner, n, first_leaf),
        Node::Router { routes, default } => {
            if routes.is_empty() {
                return inflate(default, n, first_leaf);
            }
            let mut filler: Vec<(u8, String, Node)> = (0..n).map(|i| (0u8, format!("big-table-{}.", i), Node::Leaf(first_leaf + i as u32))).collect();
            filler.append(routes);
            *routes = filler;
            true
        }
        Node::Fanout(nodes) => nodes.iter_mut().any(|x| inflate(x, n, first_leaf)),
    }
}

type Boxed = Box<dyn Recorder + Sync>;

fn mk_filter(patterns: &[String], ci: bool, dfa: bool) -> FilterLayer {
    // two ways to the same layer: from_patterns, or an empty layer fed through add_pattern
    let mut f = if ci != dfa {
        let mut f = FilterLayer::default();
        for p in patterns {
            f.add_pattern(p);
        }
        f
    } else {
        FilterLayer::from_patterns(patterns.iter())
    };
    f.case_insensitive(ci).use_dfa(dfa);
    f
}

fn build(node: &Node, log: &crate::doubles::Log) -> Boxed {
    match node {
        Node::Leaf(id) => Box::new(LogRecorder::new(*id, log)),
        Node::Prefix(p, inner) => Box::new(PrefixLayer::new(p.clone()).layer(build(inner, log))),
        Node::Filter { patterns, ci, dfa, inner } => {
            if (patterns.len() + *dfa as usize) % 2 == 0 {
                Box::new(mk_filter(patterns, *ci, *dfa).layer(build(inner, log)))
            } else {
                // one FilterLayer object used twice: first with the opposite settings around a throw-away recorder, then
                // reconfigured and used for the real one (a layer is a reusable description, not a one-shot builder)
                // (one setter at a time, so that none of them can cover for another)
                let f = if patterns.len() % 2 == 0 {
                    let mut f = mk_filter(patterns, !*ci, *dfa);
                    let _first_use = f.layer(metrics::NoopRecorder);
                    f.case_insensitive(*ci);
                    f
                } else {
                    let mut f = mk_filter(patterns, *ci, !*dfa);
                    let _first_use = f.layer(metrics::NoopRecorder);
                    f.use_dfa(*dfa);
                    f
                };
                Box::new(f.layer(build(inner, log)))
            }
        }
        Node::Router { default, routes } => {
            let mut b = RouterBuilder::from_recorder(build(default, log));
            for (mask, pattern, target) in routes {
                let m = [MetricKindMask::ALL, MetricKindMask::COUNTER, MetricKindMask::GAUGE, MetricKindMask::HISTOGRAM][*mask as usize];
                b.add_route(m, pattern.clone(), build(target, log));
            }
            Box::new(b.build())
        }
        Node::Fanout(children) => {
            let mut b = FanoutBuilder::default();
            for c in children {
                b = b.add_recorder(build(c, log));
            }
            Box::new(b.build())
        }
    }
}

fn filtered(patterns: &[String], ci: bool, name: &str) -> bool {
    patterns.iter().any(|p| if ci { name.to_ascii_lowercase().contains(&p.to_ascii_lowercase()) } else { name.contains(p.as_str()) })
}

/// Reference interpreter: which leaves receive the operation, and under which name.
fn eval(node: &Node, kind: char, name: &str, out: &mut Vec<(u32, String)>) {
    match node {
        Node::Leaf(id) => out.push((*id, name.to_string())),
        Node::Prefix(p, inner) => eval(inner, kind, &format!("{}.{}", p, name), out),
        Node::Filter { patterns, ci, inner, .. } => {
            if !filtered(patterns, *ci, name) {
                eval(inner, kind, name, out)
            }
        }
        Node::Router { default, routes } => {
            let covers = |m: u8| m == 0 || (m == 1 && kind == 'c') || (m == 2 && kind == 'g') || (m == 3 && kind == 'h');
            // longest route that is a prefix of the name among routes for this kind; on equal patterns the last inserted wins
            let mut best: Option<(usize, &Node)> = None;
            for (m, pattern, target) in routes {
                if covers(*m) && name.starts_with(pattern.as_str()) {
                    if best.map(|(l, _)| pattern.len() >= l).unwrap_or(true) {
                        best = Some((pattern.len(), target));
                    }
                }
            }
            match best {
                Some((_, t)) => eval(t, kind, name, out),
                None => eval(default, kind, name, out),
            }
        }
        Node::Fanout(children) => {
            for c in children {
                eval(c, kind, name, out);
            }
        }
    }
}

fn count_layers(n: &Node) -> usize {
    match n {
        Node::Leaf(_) => 0,
        Node::Prefix(_, i) | Node::Filter { inner: i, .. } => 1 + count_layers(i),
        Node::Router { default, routes } => 1 + count_layers(default) + routes.iter().map(|r| count_layers(&r.2)).sum::<usize>(),
        Node::Fanout(c) => 1 + c.iter().map(count_layers).sum::<usize>(),
    }
}

fn touches(n: &Node, name: &str) -> bool {
    match n {
        Node::Leaf(_) => false,
        Node::Prefix(_, i) => touches(i, name),
        Node::Filter { patterns, ci, inner, .. } => filtered(patterns, *ci, name) || touches(inner, name),
        Node::Router { default, routes } => routes.iter().any(|(_, p, t)| (!p.is_empty() && name.starts_with(p.as_str())) || touches(t, name)) || touches(default, name),
        Node::Fanout(c) => c.iter().any(|x| touches(x, name)),
    }
}

#[derive(Debug, PartialEq, Clone)]
enum Expect {
    Describe(char, String, Option<Unit>, String),
    Register(char, String, Vec<(String, String)>),
    Update(String, u64),
}

pub fn case_layers(bytes: &[u8], _s: &[u8], ctx: &mut Ctx) -> Result<(), Fail> {
    let mut src = Source::new(bytes);
    let case = decode(&mut src);
    ctx.case(&case);
    let log = new_log();
    // wrap the tree into the reference structure for the pushed layers: the last pushed layer is outermost
    let mut full = case.tree.clone();
    for l in &case.pushes {
        full = match l {
            LayerSpec::Prefix(p) => Node::Prefix(p.clone(), Box::new(full)),
            LayerSpec::Filter { patterns, ci, dfa } => Node::Filter { patterns: patterns.clone(), ci: *ci, dfa: *dfa, inner: Box::new(full) },
        };
    }
    if count_layers(&full) >= 2 && case.ops.iter().any(|o| touches(&full, &o.name)) {
        ctx.nontrivial("multi-layer-with-matching-name");
    }
    // real stack
    let root: Boxed = build(&case.tree, &log);
    let mut top: Boxed = root;
    let mut stacked = 0;
    for l in &case.pushes {
        top = match l {
            LayerSpec::Prefix(p) => Box::new(Stack::new(top).push(PrefixLayer::new(p.clone()))),
            LayerSpec::Filter { patterns, ci, dfa } => Box::new(Stack::new(top).push(mk_filter(patterns, *ci, *dfa))),
        };
        stacked += 1;
    }
    let _ = stacked;
    let mut expected: std::collections::BTreeMap<u32, Vec<Expect>> = Default::default();
    for op in &case.ops {
        let mut targets = vec![];
        eval(&full, op.kind, &op.name, &mut targets);
        if op.describe {
            match op.kind {
                'c' => top.describe_counter(op.name.clone().into(), op.unit, op.desc.clone().into()),
                'g' => top.describe_gauge(op.name.clone().into(), op.unit, op.desc.clone().into()),
                _ => top.describe_histogram(op.name.clone().into(), op.unit, op.desc.clone().into()),
            }
            for (leaf, name) in &targets {
                expected.entry(*leaf).or_default().push(Expect::Describe(op.kind, name.clone(), op.unit, op.desc.clone()));
            }
        } else {
            let key = Key::from_parts(op.name.clone(), op.labels.iter().map(|(k, v)| Label::new(k.clone(), v.clone())).collect::<Vec<_>>());
            for (leaf, name) in &targets {
                expected.entry(*leaf).or_default().push(Expect::Register(op.kind, name.clone(), op.labels.clone()));
            }
            match op.kind {
                'c' => {
                    let h = top.register_counter(&key, &META);
                    for u in &op.updates {
                        h.increment(*u);
                    }
                }
                'g' => {
                    let h = top.register_gauge(&key, &META);
                    for u in &op.updates {
                        h.set(*u as f64);
                    }
                }
                _ => {
                    let h = top.register_histogram(&key, &META);
                    for u in &op.updates {
                        // every third value goes in as a batch of 0-3 copies
                        if *u % 3 == 0 {
                            h.record_many(*u as f64, (*u / 3) as usize % 4);
                        } else {
                            h.record(*u as f64);
                        }
                    }
                }
            }
            for u in &op.updates {
                let copies = if op.kind != 'c' && op.kind != 'g' && *u % 3 == 0 { (*u / 3) as usize % 4 } else { 1 };
                for _ in 0..copies {
                    for (leaf, name) in &targets {
                        let k = Key::from_parts(name.clone(), op.labels.iter().map(|(k, v)| Label::new(k.clone(), v.clone())).collect::<Vec<_>>());
                        expected.entry(*leaf).or_default().push(Expect::Update(format!("{}", k), *u));
                    }
                }
            }
        }
    }
    // compare per-leaf ordered logs
    let events: Vec<RecEvent> = log.lock().unwrap().clone();
    let mut got: std::collections::BTreeMap<u32, Vec<Expect>> = Default::default();
    for e in &events {
        let x = match &e.op {
            Op::Describe { kind, name, unit, desc } => Expect::Describe(*kind, name.clone(), *unit, desc.clone()),
            Op::Register { kind, name, labels, target, level, module_path } => {
                ensure!(target == "c13::target" && *level == Level::WARN && module_path.as_deref() == Some("c13::module"), "metadata-changed", "metadata reached the recorder as {:?}/{:?}/{:?}", target, level, module_path);
                Expect::Register(*kind, name.clone(), labels.clone())
            }
            Op::CounterInc(v) => Expect::Update(e.key.clone().unwrap_or_default(), *v),
            Op::GaugeSet(b) | Op::HistRecord(b) => Expect::Update(e.key.clone().unwrap_or_default(), f64::from_bits(*b) as u64),
            other => return Err(Fail::new("unexpected-handle-op", format!("{:?}", other))),
        };
        got.entry(e.rec).or_default().push(x);
    }
    ensure!(got == expected, "delivery-differs-from-reference", "per-leaf ordered deliveries differ from the reference interpreter: got {:?}, expected {:?}", got, expected);
    Ok(())
}

pub fn run(cfg: &RunCfg, replay: Option<&str>) -> i32 {
    let mut pr = PropRun::new("C13", cfg, RULE);
    pr.register("layer-trees", &case_layers);
    if let Some(f) = replay {
        return pr.replay(f);
    }
    pr.assume("router masks are the four the builder accepts (ALL, COUNTER, GAUGE, HISTOGRAM); on equal patterns the route inserted last wins; the empty route is a prefix of every name; filter case folding is ASCII only");
    let r = pr.run_regressions();
    pr.push(r);
    let c = pr.cfg.clone();
    let r = run_lane(&c, "C13", &Lane { name: "layer-trees", cases: c.cases(2_000_000, 30_000_000), max_len: 256, sched_len: 0, workers: 0, f: &case_layers });
    pr.push(r);
    pr.finish()
}
