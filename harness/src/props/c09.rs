//! C09 — DogStatsD payloads are valid, within the size limit, and account for every point.

use metrics::{Key, Label};
use metrics_exporter_dogstatsd::__verif::Writer;

use crate::{
    engine::{
        report::PropRun,
        runner::{run_lane, Ctx, Fail, Lane, RunCfg},
        source::Source,
    },
    ensure,
    parsers::{parse_dsd_message, split_length_prefixed, DsdMessage},
};

const RULE: &str = "a case = one payload writer (max payload length drawn from 0.. with bias to 0..300 and to values within +-3 of the rendered length of the case's own first metric; length prefix on/off) and a sequence of 1-8 steps: write_counter / write_gauge / write_histogram / write_distribution (names and tags of length 0..limit+ over an alphabet without the protocol delimiters ':|#,@' and newline; u64/f64 values incl. extremes and non-finite; 0..3000 histogram values; prefix None/any safe string; 0-4 global labels; sample rate None/any f64; timestamp None/any) interleaved with drains (= flush cycles). Non-trivial = a value list split over >= 2 payloads, or a rejected write followed by an accepted one, or a second flush cycle with the length prefix on. Distinct = distinct decoded cases.";

const ALPHA: [&str; 12] = ["a", "b", "metric", "x_y", ".", "-", "Z", "0", "é", "日本", " ", "long_name_segment_"];

#[derive(Debug, Clone)]
enum Step {
    Counter { key: KeySpec, value: u64, ts: Option<u64>, prefix: Option<String>, globals: Vec<(String, String)> },
    Gauge { key: KeySpec, value: f64, ts: Option<u64>, prefix: Option<String>, globals: Vec<(String, String)> },
    Hist { dist: bool, key: KeySpec, values: Vec<f64>, rate: Option<f64>, prefix: Option<String>, globals: Vec<(String, String)> },
    Drain,
}

#[derive(Debug, Clone)]
struct KeySpec {
    name: String,
    labels: Vec<(String, String)>,
}

#[derive(Debug)]
struct Case {
    max_len: usize,
    length_prefix: bool,
    steps: Vec<Step>,
}

fn dec_str(src: &mut Source, max_parts: usize) -> String {
    src.small_string(&ALPHA, max_parts)
}

fn dec_key(src: &mut Source) -> KeySpec {
    let name = if src.chance(24) { dec_str(src, 40) } else { dec_str(src, 4) };
    let labels = src.vec(4, |s| (dec_str(s, 3), if s.chance(64) { String::new() } else { dec_str(s, 3) }));
    KeySpec { name, labels }
}

fn dec_common(src: &mut Source) -> (Option<String>, Vec<(String, String)>) {
    let prefix = if src.bool() { Some(dec_str(src, 3)) } else { None };
    let globals = src.vec(4, |s| (dec_str(s, 2), if s.chance(64) { String::new() } else { dec_str(s, 2) }));
    (prefix, globals)
}

fn dec_ts(src: &mut Source) -> Option<u64> {
    if src.bool() {
        Some(src.u64_interesting())
    } else {
        None
    }
}

fn dec_step(src: &mut Source) -> Step {
    match src.below(6) {
        0 => {
            let key = dec_key(src);
            let (prefix, globals) = dec_common(src);
            Step::Counter { key, value: src.u64_interesting(), ts: dec_ts(src), prefix, globals }
        }
        1 => {
            let key = dec_key(src);
            let (prefix, globals) = dec_common(src);
            Step::Gauge { key, value: src.f64_interesting(), ts: dec_ts(src), prefix, globals }
        }
        2 | 3 | 4 => {
            let key = dec_key(src);
            let (prefix, globals) = dec_common(src);
            let n = match src.below(5) {
                0 => 0,
                1 => 1,
                2 => 2 + src.below(6),
                3 => src.below(64),
                _ => src.below(3000),
            };
            let simple = src.bool();
            let values = (0..n).map(|_| if simple { (src.byte() % 10) as f64 } else { src.f64_interesting() }).collect();
            let rate = if src.chance(80) { Some(src.f64_interesting()) } else { None };
            Step::Hist { dist: src.bool(), key, values, rate, prefix, globals }
        }
        _ => Step::Drain,
    }
}

fn mk_key(k: &KeySpec) -> Key {
    Key::from_parts(k.name.clone(), k.labels.iter().map(|(a, b)| Label::new(a.clone(), b.clone())).collect::<Vec<_>>())
}

fn mk_labels(g: &[(String, String)]) -> Vec<Label> {
    g.iter().map(|(a, b)| Label::new(a.clone(), b.clone())).collect()
}

/// Reference length of a message holding exactly `values` (independent re-encoding; float text via ryu,
/// the same public formatter any DogStatsD client would use).
pub fn reference_len(name: &str, prefix: &Option<String>, value_strs: &[String], rate: Option<f64>, tags: &[(String, String)], ts: Option<u64>) -> usize {
    let mut n = prefix.as_ref().map(|p| p.len() + 1).unwrap_or(0) + name.len();
    for v in value_strs {
        n += 1 + v.len();
    }
    n += 2; // |t
    if let Some(r) = rate {
        n += 2 + ryu::Buffer::new().format(r).len();
    }
    if !tags.is_empty() {
        n += 2;
        for (i, (k, v)) in tags.iter().enumerate() {
            if i > 0 {
                n += 1;
            }
            n += k.len();
            if !v.is_empty() {
                n += 1 + v.len();
            }
        }
    }
    if let Some(t) = ts {
        n += 2 + itoa::Buffer::new().format(t).len();
    }
    n + 1
}

fn decode(src: &mut Source) -> Case {
    let length_prefix = src.bool();
    let nsteps = 1 + src.below(8);
    let mode = src.below(4);
    let raw = src.int_in(0, 300) as usize;
    let delta = src.below(7) as i64 - 3;
    let big = src.int_in(0, 70_000) as usize;
    let steps: Vec<Step> = (0..nsteps).map(|_| dec_step(src)).collect();
    // max length: small, near the first metric's own single-value length, or large
    let near = steps
        .iter()
        .find_map(|s| match s {
            Step::Counter { key, value, ts, prefix, globals } => {
                let tags: Vec<_> = globals.iter().chain(key.labels.iter()).cloned().collect();
                Some(reference_len(&key.name, prefix, &[itoa::Buffer::new().format(*value).to_string()], None, &tags, *ts))
            }
            Step::Gauge { key, value, ts, prefix, globals } => {
                let tags: Vec<_> = globals.iter().chain(key.labels.iter()).cloned().collect();
                Some(reference_len(&key.name, prefix, &[ryu::Buffer::new().format(*value).to_string()], None, &tags, *ts))
            }
            Step::Hist { key, values, rate, prefix, globals, .. } => {
                let tags: Vec<_> = globals.iter().chain(key.labels.iter()).cloned().collect();
                let v = values.first().map(|v| ryu::Buffer::new().format(*v).to_string()).unwrap_or_else(|| "0".into());
                Some(reference_len(&key.name, prefix, &[v], *rate, &tags, None))
            }
            Step::Drain => None,
        })
        .unwrap_or(20);
    let max_len = match mode {
        0 => raw,
        1 => (near as i64 + delta).max(0) as usize,
        2 => near + raw,
        _ => big,
    };
    Case { max_len, length_prefix, steps }
}

struct Call {
    name: String,
    prefix: Option<String>,
    mtype: &'static str,
    value_strs: Vec<String>, // reference text of each input value
    value_bits: Vec<u64>,
    is_int: bool,
    rate: Option<f64>,
    tags: Vec<(String, String)>,
    ts: Option<u64>,
    written: u64,
    dropped: u64,
}

fn check_message(case: &Case, call: &Call, m: &DsdMessage) -> Result<(), Fail> {
    let full_name = match &call.prefix {
        Some(p) => format!("{}.{}", p, call.name),
        None => call.name.clone(),
    };
    ensure!(m.name == full_name, "wrong-name", "payload name {:?}, expected {:?}", m.name, full_name);
    ensure!(m.mtype == call.mtype, "wrong-type", "payload type {:?}, expected {:?}", m.mtype, call.mtype);
    let exp_tags: Option<Vec<(String, Option<String>)>> = if call.tags.is_empty() { None } else { Some(call.tags.iter().map(|(k, v)| (k.clone(), if v.is_empty() { None } else { Some(v.clone()) })).collect()) };
    ensure!(m.tags == exp_tags, "wrong-tags", "payload tags {:?}, expected global labels then own labels {:?}", m.tags, exp_tags);
    match (call.rate, &m.sample_rate) {
        (None, None) => {}
        (Some(r), Some(s)) => {
            let parsed: f64 = s.parse().map_err(|_| Fail::new("bad-sample-rate", format!("sample rate {:?} does not parse", s)))?;
            ensure!(crate::util::f64_same(parsed, r), "wrong-sample-rate", "sample rate {:?} != {:?}", s, r);
        }
        (a, b) => return Err(Fail::new("wrong-sample-rate", format!("sample rate given {:?} but payload has {:?}", a, b))),
    }
    match (call.ts, &m.timestamp) {
        (None, None) => {}
        (Some(t), Some(s)) => ensure!(s.parse::<u64>().ok() == Some(t), "wrong-timestamp", "timestamp {:?} != {}", s, t),
        (a, b) => return Err(Fail::new("wrong-timestamp", format!("timestamp given {:?} but payload has {:?}", a, b))),
    }
    let _ = case;
    Ok(())
}

pub fn case_writer(bytes: &[u8], _s: &[u8], ctx: &mut Ctx) -> Result<(), Fail> {
    let mut src = Source::new(bytes);
    let case = decode(&mut src);
    ctx.case(&case);
    let mut w = Writer::new(case.max_len, case.length_prefix);
    let mut pending: Vec<Call> = Vec::new();
    let mut drains = 0;
    let mut rejected_before = false;
    let mut steps = case.steps.clone();
    steps.push(Step::Drain);
    for step in &steps {
        match step {
            Step::Drain => {
                let payloads = w.drain();
                drains += 1;
                if drains >= 2 && case.length_prefix && !pending.is_empty() && pending.iter().any(|c| c.written > 0) {
                    ctx.nontrivial("second-flush-cycle-with-length-prefix");
                }
                let total: u64 = pending.iter().map(|c| c.written).sum();
                ensure!(payloads.len() as u64 == total, "payload-count-mismatch", "writes reported {} payloads written but the drain produced {}", total, payloads.len());
                let mut it = payloads.iter();
                for call in pending.drain(..) {
                    let mut got_bits: Vec<u64> = Vec::new();
                    for _ in 0..call.written {
                        let p = it.next().unwrap();
                        let body: &[u8] = if case.length_prefix { split_length_prefixed(p).map_err(|e| Fail::new("bad-length-prefix", e))? } else { p };
                        ensure!(body.len() <= case.max_len, "payload-exceeds-maximum", "payload of {} bytes exceeds the maximum {}: {:?}", body.len(), case.max_len, String::from_utf8_lossy(body));
                        let m = parse_dsd_message(body).map_err(|e| Fail::new("payload-not-one-message", e))?;
                        check_message(&case, &call, &m)?;
                        for v in &m.values {
                            if call.is_int {
                                let x: u64 = v.parse().map_err(|_| Fail::new("bad-value", format!("counter value {:?} is not an integer", v)))?;
                                got_bits.push(x);
                            } else {
                                let x: f64 = v.parse().map_err(|_| Fail::new("bad-value", format!("value {:?} does not parse as f64", v)))?;
                                got_bits.push(x.to_bits());
                            }
                        }
                    }
                    // emitted values = input minus dropped, in order
                    let norm = |b: u64| if call.is_int { b } else if f64::from_bits(b).is_nan() { f64::NAN.to_bits() } else { b };
                    let mut i = 0usize;
                    let mut missing: Vec<usize> = vec![];
                    for g in &got_bits {
                        while i < call.value_bits.len() && norm(call.value_bits[i]) != norm(*g) {
                            missing.push(i);
                            i += 1;
                        }
                        ensure!(i < call.value_bits.len(), "values-not-input-in-order", "payload values are not the input values in order at round-trip precision (name {:?}): got {} values, input {}", call.name, got_bits.len(), call.value_bits.len());
                        i += 1;
                    }
                    while i < call.value_bits.len() {
                        missing.push(i);
                        i += 1;
                    }
                    ensure!(missing.len() as u64 == call.dropped, "dropped-count-mismatch", "{} input points are in no payload but the write reported {} dropped (name {:?}, {} inputs, {} payloads)", missing.len(), call.dropped, call.name, call.value_bits.len(), call.written);
                    ensure!(got_bits.len() + missing.len() == call.value_bits.len(), "point-accounting", "emitted {} + missing {} != input {}", got_bits.len(), missing.len(), call.value_bits.len());
                    // a point may be dropped only if a message holding it alone exceeds the limit
                    for idx in &missing {
                        let alone = reference_len(&call.name, &call.prefix, &[call.value_strs[*idx].clone()], call.rate, &call.tags, call.ts);
                        ensure!(alone > case.max_len, "needless-drop", "input point #{} ({}) was dropped although a message holding it alone is {} <= {} bytes (name {:?})", idx, call.value_strs[*idx], alone, case.max_len, call.name);
                    }
                    if call.written >= 2 {
                        ctx.nontrivial("value-list-split");
                    }
                }
            }
            other => {
                let (key, prefix, globals) = match other {
                    Step::Counter { key, prefix, globals, .. } | Step::Gauge { key, prefix, globals, .. } | Step::Hist { key, prefix, globals, .. } => (key, prefix, globals),
                    Step::Drain => unreachable!(),
                };
                let k = mk_key(key);
                let g = mk_labels(globals);
                let tags: Vec<(String, String)> = globals.iter().chain(key.labels.iter()).cloned().collect();
                let (res, call) = match other {
                    Step::Counter { value, ts, .. } => {
                        let r = w.write_counter(&k, *value, *ts, prefix.as_deref(), &g);
                        (r, Call { name: key.name.clone(), prefix: prefix.clone(), mtype: "c", value_strs: vec![itoa::Buffer::new().format(*value).to_string()], value_bits: vec![*value], is_int: true, rate: None, tags, ts: *ts, written: r.0, dropped: r.1 })
                    }
                    Step::Gauge { value, ts, .. } => {
                        let r = w.write_gauge(&k, *value, *ts, prefix.as_deref(), &g);
                        (r, Call { name: key.name.clone(), prefix: prefix.clone(), mtype: "g", value_strs: vec![ryu::Buffer::new().format(*value).to_string()], value_bits: vec![value.to_bits()], is_int: false, rate: None, tags, ts: *ts, written: r.0, dropped: r.1 })
                    }
                    Step::Hist { dist, values, rate, .. } => {
                        let r = if *dist { w.write_distribution(&k, values, *rate, prefix.as_deref(), &g) } else { w.write_histogram(&k, values, *rate, prefix.as_deref(), &g) };
                        (
                            r,
                            Call {
                                name: key.name.clone(),
                                prefix: prefix.clone(),
                                mtype: if *dist { "d" } else { "h" },
                                value_strs: values.iter().map(|v| ryu::Buffer::new().format(*v).to_string()).collect(),
                                value_bits: values.iter().map(|v| v.to_bits()).collect(),
                                is_int: false,
                                rate: *rate,
                                tags,
                                ts: None,
                                written: r.0,
                                dropped: r.1,
                            },
                        )
                    }
                    Step::Drain => unreachable!(),
                };
                if res.0 > 0 && rejected_before {
                    ctx.nontrivial("accepted-write-after-rejected-one");
                }
                if res.1 > 0 {
                    rejected_before = true;
                    ctx.class("some-points-dropped");
                }
                pending.push(call);
            }
        }
    }
    Ok(())
}

pub fn run(cfg: &RunCfg, replay: Option<&str>) -> i32 {
    let mut pr = PropRun::new("C09", cfg, RULE);
    pr.register("writer-sequences", &case_writer);
    if let Some(f) = replay {
        return pr.replay(f);
    }
    pr.assume("names, tags and prefix are drawn from an alphabet without the protocol's delimiter characters (the writer documents no escaping)");
    pr.assume("the size limit is asserted on the message body (the 4-byte length header of the stream framing is not counted), which is the writer's own notion of payload length");
    pr.assume("a point may be reported dropped only when a message holding it alone would exceed the limit (reference length computed by an independent re-encoding with the ryu/itoa text of each value)");
    let r = pr.run_regressions();
    pr.push(r);
    let c = pr.cfg.clone();
    let r = run_lane(&c, "C09", &Lane { name: "writer-sequences", cases: c.cases(1_500_000, 30_000_000), max_len: 400, sched_len: 0, workers: 0, f: &case_writer });
    pr.push(r);
    pr.finish()
}
