//! C15 — histogram buckets and summary windows mean what Prometheus says they mean.

use std::{collections::HashMap, num::NonZeroU32, sync::Arc, time::Duration};

use metrics::{Key, Level, Metadata, Recorder};
use metrics_exporter_prometheus::{Distribution, DistributionBuilder, Matcher, PrometheusBuilder};
use metrics_util::{parse_quantiles, storage::Histogram};
use quanta::Clock;

use crate::{
    engine::{
        report::PropRun,
        runner::{run_lane, Ctx, Fail, Lane, RunCfg},
        source::Source,
    },
    ensure,
    parsers::{parse_prometheus, prom_families},
    util::f64_same,
};

const RULE: &str = "lane histogram-storage: ascending bound lists (strict and with repeats, incl. +-inf bounds) and sample sequences with values equal to bounds, +-0, negatives, +-inf, NaN, fed through a random partition into record / record_many batches and, in parallel, one by one; non-trivial = some sample equals a bound. Lane matchers: sets of Full/Prefix/Suffix overrides (patterns are valid name fragments) with distinct bucket lists, global buckets on/off, names drawn to hit several matcher kinds at once; checked on DistributionBuilder and end-to-end through PrometheusBuilder + render with raw names needing sanitisation; non-trivial = >= 2 matcher kinds match one name. Lane rolling-summary: bucket count 1-5, bucket duration, non-decreasing mock-clock instants, probes at window edges (+-1 ns); non-trivial = a probe within one tick of a window edge with samples on both sides. Distinct = distinct decoded cases.";

static META: Metadata<'static> = Metadata::new("c15", Level::INFO, None);

// ---------------------------------------------------------------- (a) histogram storage

#[derive(Debug)]
struct HistCase {
    bounds: Vec<f64>,
    samples: Vec<f64>,
    cuts: Vec<usize>,
}

const BOUND_POOL: [f64; 10] = [f64::NEG_INFINITY, -10.0, -1.0, -0.0, 0.0, 0.5, 1.0, 2.5, 100.0, f64::INFINITY];

pub fn case_hist(bytes: &[u8], _s: &[u8], ctx: &mut Ctx) -> Result<(), Fail> {
    let mut src = Source::new(bytes);
    let nb = 1 + src.below(6);
    let mut idx: Vec<usize> = (0..nb).map(|_| src.below(BOUND_POOL.len())).collect();
    idx.sort();
    let bounds: Vec<f64> = idx.iter().map(|i| BOUND_POOL[*i]).collect();
    let ns = src.len(40);
    let samples: Vec<f64> = (0..ns)
        .map(|_| match src.below(4) {
            0 => *src.pick(&bounds),
            1 => src.f64_interesting(),
            _ => src.f64_dyadic() / 4.0,
        })
        .collect();
    let cuts: Vec<usize> = src.vec(6, |s| s.below(ns + 1));
    let case = HistCase { bounds, samples, cuts };
    ctx.case(&case);
    if case.samples.iter().any(|s| case.bounds.iter().any(|b| s == b)) {
        ctx.nontrivial("sample-equals-a-bound");
    }
    let mut single = Histogram::new(&case.bounds).expect("non-empty bounds");
    let mut batched = Histogram::new(&case.bounds).expect("non-empty bounds");
    let mut prev_counts: Vec<u64> = vec![0; case.bounds.len()];
    let mut cuts = case.cuts.clone();
    cuts.push(0);
    cuts.push(case.samples.len());
    cuts.sort();
    cuts.dedup();
    for w in cuts.windows(2) {
        let chunk = &case.samples[w[0]..w[1]];
        for s in chunk {
            single.record(*s);
        }
        if chunk.len() == 1 && w[0] % 2 == 0 {
            batched.record(chunk[0]);
        } else {
            batched.record_many(chunk.iter());
        }
        // after every batch: exact agreement with the definition
        let seen = &case.samples[..w[1]];
        let b = batched.buckets();
        ensure!(b.len() == case.bounds.len(), "bucket-list-shape", "{} bounds but {} buckets", case.bounds.len(), b.len());
        for (i, (bound, count)) in b.iter().enumerate() {
            let want = seen.iter().filter(|s| **s <= *bound).count() as u64;
            ensure!(*count == want, "bucket-count-wrong", "after {} samples the count for bound {} is {} but {} samples are <= it (bounds {:?})", seen.len(), bound, count, want, case.bounds);
            ensure!(*count >= prev_counts[i], "bucket-count-decreased", "bound {}: count went from {} to {}", bound, prev_counts[i], count);
            prev_counts[i] = *count;
            if i > 0 {
                ensure!(*count >= b[i - 1].1, "bucket-counts-not-monotone", "count for bound {} ({}) below the count for the previous bound ({})", bound, count, b[i - 1].1);
            }
            ensure!(*count <= batched.count(), "bucket-above-total", "bucket {} > total {}", count, batched.count());
        }
        ensure!(batched.count() == seen.len() as u64, "total-count-wrong", "count() {} after {} samples", batched.count(), seen.len());
    }
    // single vs batched
    ensure!(single.count() == batched.count(), "single-vs-batched-count", "{} vs {}", single.count(), batched.count());
    ensure!(single.buckets().iter().map(|b| b.1).collect::<Vec<_>>() == batched.buckets().iter().map(|b| b.1).collect::<Vec<_>>(), "single-vs-batched-buckets", "recording one by one gives {:?}, in batches {:?}", single.buckets(), batched.buckets());
    let exact = case.samples.iter().all(|v| v.is_finite() && (v * 32.0).fract() == 0.0 && v.abs() <= 4096.0);
    if exact {
        ensure!(single.sum() == batched.sum() && single.sum() == case.samples.iter().sum::<f64>(), "sum-wrong", "sums {} / {} expected {}", single.sum(), batched.sum(), case.samples.iter().sum::<f64>());
    } else if case.samples.iter().any(|v| v.is_nan()) {
        ensure!(single.sum().is_nan() && batched.sum().is_nan(), "sum-wrong", "NaN sample but sums {} / {}", single.sum(), batched.sum());
    }
    Ok(())
}

// ---------------------------------------------------------------- (b) matcher precedence

// (fragments with and without their leading underscore: "httpreq" ends with "req" but not with "_req")
const FRAGS: [&str; 9] = ["http", "_req", "db", "_lat", "x", "_total", "req", "lat", "total"];

#[derive(Debug)]
struct MatchCase {
    overrides: Vec<(u8, String)>, // kind 0 Full 1 Prefix 2 Suffix
    global: bool,
    names: Vec<String>,
    raw_dots: bool,
}

fn dec_match(src: &mut Source) -> MatchCase {
    let mk = |src: &mut Source| -> String {
        let n = 1 + src.below(3);
        (0..n).map(|_| *src.pick(&FRAGS)).collect()
    };
    let no = src.below(6);
    let mut overrides: Vec<(u8, String)> = (0..no).map(|_| (src.below(3) as u8, mk(src))).collect();
    overrides.sort();
    overrides.dedup();
    let names = (0..1 + src.below(4))
        .map(|_| {
            if overrides.len() >= 2 && src.chance(90) {
                // built to satisfy two overrides at once (e.g. a prefix pattern ... a suffix pattern)
                let a = overrides[src.below(overrides.len())].clone();
                let b = overrides[src.below(overrides.len())].clone();
                let (first, second) = if a.0 == 2 { (b, a) } else { (a, b) };
                match (first.0, second.0) {
                    (1, 2) => format!("{}{}", first.1, second.1),
                    (0, _) => first.1.clone(),
                    (_, 0) => second.1.clone(),
                    _ => format!("{}{}", first.1, second.1),
                }
            } else if !overrides.is_empty() && src.chance(170) {
                let (k, p) = &overrides[src.below(overrides.len())];
                match (k, src.below(3)) {
                    (0, _) | (_, 0) => p.clone(),
                    (1, _) => format!("{}{}", p, mk(src)),
                    _ => format!("{}{}", mk(src), p),
                }
            } else {
                mk(src)
            }
        })
        .collect();
    MatchCase { overrides, global: src.bool(), names, raw_dots: src.bool() }
}

fn bounds_of(i: usize) -> Vec<f64> {
    vec![1.0 + i as f64, 100.0 + i as f64]
}

const GLOBAL_BOUNDS: [f64; 2] = [0.25, 7.0];

/// Acceptable bucket lists for `name` per the documented precedence (any of several same-kind matches).
fn expected_bounds(case: &MatchCase, name: &str) -> Option<Vec<Vec<f64>>> {
    for kind in 0..3u8 {
        let hits: Vec<Vec<f64>> = case
            .overrides
            .iter()
            .enumerate()
            .filter(|(_, (k, p))| {
                *k == kind
                    && match kind {
                        0 => name == p,
                        1 => name.starts_with(p.as_str()),
                        _ => name.ends_with(p.as_str()),
                    }
            })
            .map(|(i, _)| bounds_of(i))
            .collect();
        if !hits.is_empty() {
            return Some(hits);
        }
    }
    if case.global {
        Some(vec![GLOBAL_BOUNDS.to_vec()])
    } else {
        None
    }
}

pub fn case_match(bytes: &[u8], _s: &[u8], ctx: &mut Ctx) -> Result<(), Fail> {
    let mut src = Source::new(bytes);
    let case = dec_match(&mut src);
    // 0: no unit suffixes; 1: suffixes on, every histogram described in seconds (family = name_seconds); 2: suffixes on,
    // described as a plain count (no suffix)
    let unit_mode = src.below(3);
    ctx.case(&(&case, unit_mode));
    let mk_matcher = |k: u8, p: &str| match k {
        0 => Matcher::Full(p.to_string()),
        1 => Matcher::Prefix(p.to_string()),
        _ => Matcher::Suffix(p.to_string()),
    };
    let map: HashMap<Matcher, Vec<f64>> = case.overrides.iter().enumerate().map(|(i, (k, p))| (mk_matcher(*k, p), bounds_of(i))).collect();
    let db = DistributionBuilder::new(parse_quantiles(&[0.5, 0.99]), None, if case.global { Some(GLOBAL_BOUNDS.to_vec()) } else { None }, None, if map.is_empty() { None } else { Some(map) });
    // end-to-end through the Prometheus builder, with raw names that need sanitising ('.' for '_')
    let raw = |s: &str| if case.raw_dots { s.replace('_', ".") } else { s.to_string() };
    let mut pb = PrometheusBuilder::new();
    if case.global {
        pb = pb.set_buckets(&GLOBAL_BOUNDS).unwrap();
    }
    for (i, (k, p)) in case.overrides.iter().enumerate() {
        pb = pb.set_buckets_for_metric(mk_matcher(*k, &raw(p)), &bounds_of(i)).unwrap();
    }
    if unit_mode >= 1 {
        pb = pb.set_enable_unit_suffix(true);
        ctx.class("unit-suffix-enabled");
    }
    let rec = pb.build_recorder();
    let mut names = case.names.clone();
    names.sort();
    names.dedup();
    for name in &names {
        let kinds_matching = (0..3u8).filter(|kind| case.overrides.iter().any(|(k, p)| k == kind && match kind { 0 => name == p, 1 => name.starts_with(p.as_str()), _ => name.ends_with(p.as_str()) })).count();
        if kinds_matching >= 2 {
            ctx.nontrivial("several-matcher-kinds-match");
        }
        let want = expected_bounds(&case, name);
        let dist = db.get_distribution(name);
        let ty = db.get_distribution_type(name);
        match (&want, &dist) {
            (None, Distribution::Summary(..)) => ensure!(ty == "summary", "distribution-type-disagrees", "{:?}: summary distribution but type {:?}", name, ty),
            (Some(ok), Distribution::Histogram(h)) => {
                let got: Vec<f64> = h.buckets().iter().map(|b| b.0).collect();
                ensure!(ok.contains(&got), "wrong-override-chosen", "{:?}: buckets {:?} chosen, the documented precedence (full, then prefix, then suffix, then global) allows {:?}; overrides {:?}", name, got, ok, case.overrides);
                ensure!(ty == "histogram", "distribution-type-disagrees", "{:?}: histogram distribution but type {:?}", name, ty);
            }
            (None, Distribution::Histogram(h)) => return Err(Fail::new("histogram-without-buckets", format!("{:?}: no override matches and no global buckets, but a histogram with {:?} was built", name, h.buckets()))),
            (Some(ok), Distribution::Summary(..)) => return Err(Fail::new("summary-despite-buckets", format!("{:?}: buckets {:?} apply but a summary was built", name, ok))),
        }
        rec.register_histogram(&Key::from_name(raw(name)), &META).record(0.5);
        if unit_mode >= 1 {
            rec.describe_histogram(raw(name).into(), Some(if unit_mode == 1 { metrics::Unit::Seconds } else { metrics::Unit::Count }), "d".into());
        }
    }
    let text = rec.handle().render();
    let lines = parse_prometheus(&text).map_err(|e| Fail::new("exposition-not-well-formed", e))?;
    let fams = prom_families(&lines).map_err(|e| Fail::new("family-structure-violated", e))?;
    for name in &names {
        // after sanitisation '.' became '_', so the rendered family is the plain name
        // (with unit suffixes on and the histogram described in seconds the family carries the suffix, once)
        let with_suffix = if name.ends_with("_seconds") { name.clone() } else { format!("{}_seconds", name) };
        let wanted: &str = if unit_mode == 1 { &with_suffix } else { name };
        let Some(f) = fams.iter().find(|f| f.name == wanted) else { return Err(Fail::new("series-missing", format!("{:?} (family {:?}) not rendered: {:?}", name, wanted, text))) };
        match expected_bounds(&case, name) {
            None => ensure!(f.mtype == "summary", "exposed-type-wrong", "{:?} exposed as {} although no buckets apply", name, f.mtype),
            Some(ok) => {
                ensure!(f.mtype == "histogram", "exposed-type-wrong", "{:?} exposed as {} although buckets {:?} apply (raw name {:?})", name, f.mtype, ok, raw(name));
                let mut les: Vec<f64> = f.samples.iter().filter(|s| s.0.ends_with("_bucket")).filter_map(|s| s.1.iter().find(|l| l.0 == "le").and_then(|l| l.1.parse::<f64>().ok())).filter(|v| v.is_finite()).collect();
                les.sort_by(|a, b| a.partial_cmp(b).unwrap());
                ensure!(ok.contains(&les), "wrong-override-chosen", "{:?} rendered with bounds {:?}, allowed {:?}", name, les, ok);
            }
        }
    }
    Ok(())
}

// ---------------------------------------------------------------- (c) rolling summary

#[derive(Debug)]
struct RollCase {
    buckets: u32,
    dur_ns: u64,
    events: Vec<(u64, Option<f64>)>, // (advance before, Some(sample) | None = probe)
    positive_only: bool,
}

pub fn case_roll(bytes: &[u8], _s: &[u8], ctx: &mut Ctx) -> Result<(), Fail> {
    let mut src = Source::new(bytes);
    let buckets = 1 + src.below(5) as u32;
    let dur_ns = *src.pick(&[1_000u64, 1_000_000_000, 20_000_000_000]);
    let positive_only = src.bool();
    let window = dur_ns * buckets as u64;
    let n = 2 + src.below(30);
    let events: Vec<(u64, Option<f64>)> = (0..n)
        .map(|_| {
            let adv = match src.below(8) {
                0 => 0,
                1 => 1,
                2 => dur_ns - 1,
                3 => dur_ns,
                4 => window - 1,
                5 => window,
                6 => window + 1,
                _ => src.int_in(0, 2 * window),
            };
            let ev = if src.byte() < 150 {
                let v = if positive_only { 0.001 + src.int_in(0, 100_000) as f64 / 16.0 } else { src.f64_dyadic() * 3.0 };
                Some(v)
            } else {
                None
            };
            (adv, ev)
        })
        .collect();
    let case = RollCase { buckets, dur_ns, events, positive_only };
    ctx.case(&case);
    let (clock, mock) = Clock::mock();
    mock.increment(Duration::from_secs(100_000));
    let quantiles = Arc::new(parse_quantiles(&[0.0, 0.5, 0.9, 1.0]));
    let mut dist = Distribution::new_summary(quantiles.clone(), Duration::from_nanos(dur_ns), NonZeroU32::new(buckets).unwrap());
    let mut now = 0u64;
    let mut samples: Vec<(u64, f64)> = vec![];
    for (adv, ev) in &case.events {
        mock.increment(Duration::from_nanos(*adv));
        now += adv;
        match ev {
            Some(v) => {
                dist.record_samples(&[(*v, clock.now())]);
                samples.push((now, *v));
            }
            None => {
                let Distribution::Summary(rs, _, sum) = &dist else { unreachable!() };
                ensure!(rs.count() == samples.len(), "summary-count-wrong", "_count {} after {} samples", rs.count(), samples.len());
                let total: f64 = samples.iter().map(|s| s.1).sum();
                ensure!(*sum == total, "summary-sum-wrong", "_sum {} expected {}", sum, total);
                let snap = rs.snapshot(clock.now());
                // U: samples newer than now - window ; L: at least one bucket width inside the window
                let in_u: Vec<f64> = samples.iter().filter(|(t, _)| (*t as i128) > now as i128 - window as i128).map(|s| s.1).collect();
                let in_l: Vec<f64> = samples.iter().filter(|(t, _)| (*t as i128) > now as i128 - window as i128 + dur_ns as i128).map(|s| s.1).collect();
                let older = samples.len() - in_u.len();
                let edge = samples.iter().any(|(t, _)| ((*t as i128) - (now as i128 - window as i128)).abs() <= 1);
                if edge && older > 0 && !in_u.is_empty() {
                    ctx.nontrivial("probe-at-window-edge");
                }
                for q in quantiles.iter() {
                    let v = snap.quantile(q.value()).unwrap_or(0.0);
                    if in_u.is_empty() {
                        ensure!(v == 0.0, "quantile-from-expired-samples", "no sample within the last {} ns, yet quantile {} renders {} (samples {:?}, now {})", window, q.value(), v, samples, now);
                        continue;
                    }
                    let lo = in_u.iter().cloned().fold(f64::INFINITY, f64::min);
                    let hi = in_u.iter().cloned().fold(f64::NEG_INFINITY, f64::max);
                    let tol = |x: f64| x.abs() * 2e-4 + 1e-9;
                    let inside = v >= lo - tol(lo) && v <= hi + tol(hi);
                    let zero_ok = in_l.is_empty() && v == 0.0;
                    ensure!(inside || zero_ok, "quantile-outside-window-range", "quantile {} = {} but the samples within the window lie in [{}, {}] (window {} ns, now {}, samples {:?})", q.value(), v, lo, hi, window, now, samples);
                    if case.positive_only && !in_l.is_empty() {
                        let lmin = in_l.iter().cloned().fold(f64::INFINITY, f64::min);
                        let lmax = in_l.iter().cloned().fold(f64::NEG_INFINITY, f64::max);
                        if q.value() == 0.0 {
                            ensure!(v <= lmin + tol(lmin), "min-quantile-ignores-window-sample", "quantile 0 = {} but {} is well inside the window", v, lmin);
                        }
                        if q.value() == 1.0 {
                            ensure!(v >= lmax - tol(lmax), "max-quantile-ignores-window-sample", "quantile 1 = {} but {} is well inside the window", v, lmax);
                        }
                    }
                }
            }
        }
    }
    Ok(())
}

// ---------------------------------------------------------------- non-finite samples: no panic, count, NaN-aware sum

pub fn case_nonfinite(bytes: &[u8], _s: &[u8], ctx: &mut Ctx) -> Result<(), Fail> {
    let mut src = Source::new(bytes);
    let vals: Vec<f64> = src.vec(20, |s| s.f64_interesting());
    ctx.case(&vals);
    if vals.iter().any(|v| !v.is_finite()) {
        ctx.nontrivial("non-finite-sample");
    }
    let (clock, mock) = Clock::mock();
    mock.increment(Duration::from_secs(1000));
    let mut dist = Distribution::new_summary(Arc::new(parse_quantiles(&[0.0, 0.5, 1.0])), Duration::from_secs(20), NonZeroU32::new(3).unwrap());
    let mut total = 0.0;
    for v in &vals {
        dist.record_samples(&[(*v, clock.now())]);
        total += *v;
        mock.increment(Duration::from_millis(10));
    }
    let Distribution::Summary(rs, q, sum) = &dist else { unreachable!() };
    ensure!(rs.count() == vals.len(), "summary-count-wrong", "{} vs {}", rs.count(), vals.len());
    ensure!(f64_same(*sum, total), "summary-sum-wrong", "{} vs {}", sum, total);
    let snap = rs.snapshot(clock.now());
    for qq in q.iter() {
        let _ = snap.quantile(qq.value());
    }
    Ok(())
}

/// Summaries under arbitrary quantile configurations (the documented contract of a quantile is "clamped to
/// [0, 1]"): whatever list `set_quantiles` was given — negatives, values above one, infinities, NaN, repeats —
/// every quantile line of a summary with samples in its window lies between the smallest and largest sample.
pub fn case_quantile_cfg(bytes: &[u8], _s: &[u8], ctx: &mut Ctx) -> Result<(), Fail> {
    const QS: [f64; 12] = [0.0, 0.5, 0.9, 0.999, 1.0, -0.0, -1.0, 2.0, f64::INFINITY, f64::NEG_INFINITY, f64::NAN, 1e-300];
    const VS: [f64; 6] = [1.0, 2.5, 7.0, 100.0, 1.0e9, 3.0];
    let mut src = Source::new(bytes);
    let qs: Vec<f64> = (0..1 + src.below(5)).map(|_| *src.pick(&QS)).collect();
    let samples: Vec<f64> = (0..1 + src.below(20)).map(|_| *src.pick(&VS)).collect();
    let render_twice = src.bool();
    // the summary window: each of the two settings on its own, both, or neither (defaults 20 s x 3); and samples
    // recorded more than one whole window (plus a bucket) before the render, which must not show in any quantile
    let dur_cfg: Option<u64> = *src.pick(&[None, None, Some(1_000_000u64), Some(5_000_000_000), Some(50_000_000_000)]);
    let count_cfg: Option<u32> = *src.pick(&[None, None, Some(1u32), Some(2), Some(5)]);
    let old: Vec<f64> = (0..src.below(4)).map(|_| *src.pick(&[100_000.0, 150_000.0, 1.0e12])).collect();
    ctx.case(&(&qs, &samples, render_twice, dur_cfg, count_cfg, &old));
    if dur_cfg.is_some() != count_cfg.is_some() && !old.is_empty() {
        ctx.nontrivial("one-window-setting-alone-with-expired-samples");
    }
    if qs.iter().any(|q| !(0.0..=1.0).contains(q)) {
        ctx.nontrivial("quantile-outside-the-unit-interval-or-nan");
    }
    let (clock, mock) = Clock::mock();
    mock.increment(Duration::from_secs(7200));
    quanta::with_clock(&clock, || -> Result<(), Fail> {
    let mut b = PrometheusBuilder::new().set_quantiles(&qs).map_err(|e| Fail::new("builder-rejects-quantiles", format!("{:?}: {}", qs, e)))?;
    if let Some(d) = dur_cfg {
        b = b.set_bucket_duration(Duration::from_nanos(d)).map_err(|e| Fail::new("builder-rejects-window", e.to_string()))?;
    }
    if let Some(c) = count_cfg {
        b = b.set_bucket_count(NonZeroU32::new(c).unwrap());
    }
    let rec = b.build_recorder();
    let handle = rec.handle();
    static QMETA: Metadata<'static> = Metadata::new("c15q", Level::INFO, None);
    let h = rec.register_histogram(&Key::from_name("lat"), &QMETA);
    for v in &old {
        h.record(*v);
    }
    // one whole window and one more bucket later
    let (d, c) = (dur_cfg.unwrap_or(20_000_000_000), count_cfg.unwrap_or(3) as u64);
    mock.increment(Duration::from_nanos(d * (c + 1) + 1));
    for v in &samples {
        h.record(*v);
    }
    let (lo, hi) = samples.iter().fold((f64::INFINITY, f64::NEG_INFINITY), |(l, h), v| (l.min(*v), h.max(*v)));
    for round in 0..1 + render_twice as usize {
        let text = handle.render();
        let lines = parse_prometheus(&text).map_err(|e| Fail::new("exposition-not-well-formed", format!("{} ; output {:?}", e, text)))?;
        let fams = prom_families(&lines).map_err(|e| Fail::new("family-structure-violated", format!("{} ; output {:?}", e, text)))?;
        let f = fams.iter().find(|f| f.name == "lat").ok_or_else(|| Fail::new("series-missing", format!("{:?}", text)))?;
        ensure!(f.mtype == "summary", "wrong-family-type", "no buckets configured but {:?} rendered as {}", f.name, f.mtype);
        let mut qlines = 0;
        for (n, labels, v, vt) in &f.samples {
            if let Some((_, q)) = labels.iter().find(|(k, _)| k == "quantile") {
                qlines += 1;
                ensure!(n == "lat", "wrong-family-shape", "quantile label on {:?}", n);
                let tol = 2e-4 * hi.abs() + 1e-9;
                ensure!(*v >= lo - tol && *v <= hi + tol, "quantile-outside-window-range", "render {}: quantile {:?} = {} but every sample in the window lies in [{}, {}] (quantiles configured: {:?}; window settings: bucket duration {:?} ns, bucket count {:?}; samples {:?} were recorded more than a window earlier)", round, q, vt, lo, hi, qs, dur_cfg, count_cfg, old);
                let qv: f64 = q.parse().unwrap_or(f64::NAN);
                ensure!((0.0..=1.0).contains(&qv), "quantile-label-outside-unit-interval", "a quantile is documented to be clamped to [0, 1]; configured {:?}, rendered label {:?}", qs, q);
            }
        }
        ensure!(qlines >= 1, "wrong-family-shape", "summary without quantile lines ; output {:?}", text);
        let count = f.samples.iter().find(|s| s.0 == "lat_count").map(|s| s.2);
        ensure!(count == Some((samples.len() + old.len()) as f64), "histogram-count-wrong", "lat_count {:?}, {} samples recorded", count, samples.len() + old.len());
    }
    Ok(())
    })
}

pub fn run(cfg: &RunCfg, replay: Option<&str>) -> i32 {
    let mut pr = PropRun::new("C15", cfg, RULE);
    pr.register("histogram-storage", &case_hist);
    pr.register("matchers", &case_match);
    pr.register("rolling-summary", &case_roll);
    pr.register("summary-nonfinite", &case_nonfinite);
    pr.register("quantile-configs", &case_quantile_cfg);
    if let Some(f) = replay {
        return pr.replay(f);
    }
    pr.assume("bound lists are ascending (the property's precondition); matcher patterns are valid name fragments, so sanitising a pattern only maps the '.' of the raw spelling to '_'");
    pr.assume("when several overrides of the same kind match one name any of them is accepted; quantiles are checked to lie within [min, max] of the samples newer than now - window up to relative 2e-4 (+1e-9), 0 being accepted while no sample is a full bucket width inside the window; rolling-summary samples are finite (the sketch skips infinities)");
    let r = pr.run_regressions();
    pr.push(r);
    let c = pr.cfg.clone();
    for (name, f, q, t, len) in [
        ("histogram-storage", &case_hist as &crate::engine::runner::CaseFn, 600_000u64, 20_000_000u64, 120usize),
        ("matchers", &case_match, 150_000, 5_000_000, 64),
        ("rolling-summary", &case_roll, 200_000, 6_000_000, 160),
        ("summary-nonfinite", &case_nonfinite, 50_000, 1_000_000, 200),
        ("quantile-configs", &case_quantile_cfg, 100_000, 3_000_000, 64),
    ] {
        let r = run_lane(&c, "C15", &Lane { name, cases: c.cases(q, t), max_len: len, sched_len: 0, workers: 0, f });
        pr.push(r);
    }
    pr.finish()
}
