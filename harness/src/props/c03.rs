//! C03 — Key equality, ordering and hashing agree and ignore how a key was built.

use std::{
    cmp::Ordering,
    collections::hash_map::DefaultHasher,
    hash::{Hash, Hasher},
    sync::Arc,
};

use metrics::{Key, Label, SharedString};
use metrics_util::{CompositeKey, MetricKind};

use crate::{
    engine::{
        report::PropRun,
        runner::{run_lane, Ctx, Fail, Lane, LaneReport, RunCfg},
        sched::{self, SchedOpts},
        source::Source,
    },
    ensure,
    util::{RecordingHasher, StaticArena},
};

const RULE: &str = "cases are triples of keys decoded from a choice sequence: a base (name, label list of length 0..10, in 4 % of the cases 20..49, over a tiny alphabet so repeats collide) and two keys derived from it by re-construction through another path, label permutation, adjacent swap, single-field edit or independent draw; each key is built through one of 10 construction paths (one of them takes static parts as prefix views of shared buffers, so distinct strings may share an address). Non-trivial = at least two of the three keys have >= 2 labels and either share a label name inside one key or are model-equal to another key of the triple. Distinct = distinct decoded triples (hash of the decoded case). Race lane: 2-3 threads make the first get_hash()/clone calls on one shared static key under a generated schedule; non-trivial = a context switch happened between the two stores of get_hash.";

const NAMES: [&str; 6] = ["", "a", "b", "ab", "é", "A"];
const LKEYS: [&str; 6] = ["a", "b", "c", "", "é", "ab"];
const LVALS: [&str; 5] = ["", "1", "2", "x", "é"];

#[derive(Debug, Clone, PartialEq, Eq)]
pub struct Spec {
    pub name: String,
    pub labels: Vec<(String, String)>,
}

#[derive(Debug, Clone, Copy, PartialEq, Eq)]
pub enum Path {
    PartsOwned,
    PartsStatic,
    PartsArc,
    StaticParts,
    StaticLabels,
    Extra(usize),
    CloneOfStatic,
    TupleSlice,
    CloneOfOwned,
    /// static parts taken as prefix views of shared static buffers ("a" is `&"ab"[..1]`, "" is
    /// `&"ab"[..0]`), so distinct strings can start at the same address
    StaticAliased,
}

#[derive(Debug, Clone)]
struct Plan {
    spec: Spec,
    path: Path,
    how: &'static str,
}

#[derive(Debug)]
struct Case {
    a: Plan,
    b: Plan,
    c: Plan,
}

fn dec_labels(src: &mut Source) -> Vec<(String, String)> {
    let n = match src.byte() {
        0..=39 => 0,
        40..=79 => 1,
        80..=139 => 2,
        140..=209 => 3 + src.below(5),
        210..=244 => 8 + src.below(3),
        // long lists: sorting implementations switch algorithm around 20 elements
        _ => 20 + src.below(30),
    };
    (0..n).map(|_| (src.pick(&LKEYS).to_string(), src.pick(&LVALS).to_string())).collect()
}

fn dec_spec(src: &mut Source) -> Spec {
    Spec { name: src.pick(&NAMES).to_string(), labels: dec_labels(src) }
}

fn dec_path(src: &mut Source, nlabels: usize) -> Path {
    match src.below(10) {
        0 => Path::PartsOwned,
        1 => Path::PartsStatic,
        2 => Path::PartsArc,
        3 => Path::StaticParts,
        4 => Path::StaticLabels,
        5 => Path::Extra(src.below(nlabels + 1)),
        6 => Path::CloneOfStatic,
        7 => Path::TupleSlice,
        8 => Path::StaticAliased,
        _ => Path::CloneOfOwned,
    }
}

fn derive(src: &mut Source, base: &Spec) -> (Spec, &'static str) {
    let mut s = base.clone();
    match src.below(6) {
        0 => (s, "same"),
        1 => {
            // permutation (Fisher-Yates driven by the source)
            let n = s.labels.len();
            for i in (1..n).rev() {
                let j = src.below(i + 1);
                s.labels.swap(i, j);
            }
            (s, "permuted")
        }
        2 => {
            if s.labels.len() >= 2 {
                let i = src.below(s.labels.len() - 1);
                s.labels.swap(i, i + 1);
            }
            (s, "adjacent-swap")
        }
        3 => {
            if s.labels.is_empty() || src.chance(48) {
                s.name = src.pick(&NAMES).to_string();
            } else {
                let i = src.below(s.labels.len());
                if src.bool() {
                    s.labels[i].0 = src.pick(&LKEYS).to_string();
                } else {
                    s.labels[i].1 = src.pick(&LVALS).to_string();
                }
            }
            (s, "single-edit")
        }
        4 => {
            // duplicate or drop one label
            if !s.labels.is_empty() && src.bool() {
                let i = src.below(s.labels.len());
                let l = s.labels[i].clone();
                let at = src.below(s.labels.len() + 1);
                s.labels.insert(at, l);
            } else if !s.labels.is_empty() {
                let i = src.below(s.labels.len());
                s.labels.remove(i);
            }
            (s, "dup-or-drop")
        }
        _ => (dec_spec(src), "independent"),
    }
}

fn decode(src: &mut Source) -> Case {
    let sa = dec_spec(src);
    let pa = dec_path(src, sa.labels.len());
    let (sb, hb) = derive(src, &sa);
    let pb = dec_path(src, sb.labels.len());
    let from_b = src.bool();
    let (sc, hc) = derive(src, if from_b { &sb } else { &sa });
    let pc = dec_path(src, sc.labels.len());
    Case { a: Plan { spec: sa, path: pa, how: "base" }, b: Plan { spec: sb, path: pb, how: hb }, c: Plan { spec: sc, path: pc, how: hc } }
}

fn owned_labels(spec: &Spec) -> Vec<Label> {
    spec.labels.iter().map(|(k, v)| Label::new(k.clone(), v.clone())).collect()
}

/// A `&'static str` equal to `s` that is a prefix view of a shared static buffer when one exists.
fn aliased(s: &str, arena: &mut StaticArena) -> &'static str {
    const BASES: [&str; 10] = ["ab", "A", "é", "b", "1", "2", "x", "c", "mm", "requests.total"];
    for b in BASES {
        if b.starts_with(s) {
            return &b[..s.len()];
        }
    }
    arena.str(s)
}

pub fn build(spec: &Spec, path: Path, arena: &mut StaticArena) -> Key {
    let static_labels = |arena: &mut StaticArena| -> &'static [Label] {
        let v: Vec<Label> = spec.labels.iter().map(|(k, v)| Label::from_static_parts(arena.str(k), arena.str(v))).collect();
        arena.labels(v)
    };
    match path {
        Path::PartsOwned => Key::from_parts(spec.name.clone(), owned_labels(spec)),
        Path::PartsStatic => {
            let v: Vec<Label> = spec.labels.iter().map(|(k, v)| Label::from_static_parts(arena.str(k), arena.str(v))).collect();
            Key::from_parts(arena.str(&spec.name), v)
        }
        Path::PartsArc => {
            let v: Vec<Label> = spec
                .labels
                .iter()
                .map(|(k, v)| Label::new(SharedString::from(Arc::<str>::from(k.as_str())), SharedString::from(Arc::<str>::from(v.as_str()))))
                .collect();
            Key::from_parts(SharedString::from(Arc::<str>::from(spec.name.as_str())), v)
        }
        Path::StaticParts => {
            let l = static_labels(arena);
            Key::from_static_parts(arena.str(&spec.name), l)
        }
        Path::StaticLabels => {
            let l = static_labels(arena);
            Key::from_static_labels(spec.name.clone(), l)
        }
        Path::Extra(k) => {
            let k = k.min(spec.labels.len());
            let all = owned_labels(spec);
            let base = if k == 0 { Key::from_name(spec.name.clone()) } else { Key::from_parts(spec.name.clone(), all[..k].to_vec()) };
            base.with_extra_labels(all[k..].to_vec())
        }
        Path::CloneOfStatic => {
            let l = static_labels(arena);
            let k = Key::from_static_parts(arena.str(&spec.name), l);
            k.clone()
        }
        Path::TupleSlice => {
            let pairs: Vec<(String, String)> = spec.labels.clone();
            Key::from((spec.name.clone(), &pairs[..]))
        }
        Path::StaticAliased => {
            let v: Vec<Label> = spec.labels.iter().map(|(k, v)| Label::from_static_parts(aliased(k, arena), aliased(v, arena))).collect();
            let l = arena.labels(v);
            Key::from_static_parts(aliased(&spec.name, arena), l)
        }
        Path::CloneOfOwned => {
            let k = Key::from_parts(spec.name.clone(), owned_labels(spec));
            let _ = k.get_hash();
            k.clone()
        }
    }
}

fn distinct_names(s: &Spec) -> bool {
    let mut names: Vec<&str> = s.labels.iter().map(|l| l.0.as_str()).collect();
    names.sort();
    names.windows(2).all(|w| w[0] != w[1])
}

fn model_equal(a: &Spec, b: &Spec) -> bool {
    if a.name != b.name || a.labels.len() != b.labels.len() {
        return false;
    }
    let mut x = a.labels.clone();
    let mut y = b.labels.clone();
    x.sort();
    y.sort();
    x == y
}

fn stream<T: Hash>(k: &T) -> Vec<u8> {
    let mut h = RecordingHasher::default();
    k.hash(&mut h);
    h.0
}

fn std_hash<T: Hash>(k: &T) -> u64 {
    let mut h = DefaultHasher::new();
    k.hash(&mut h);
    h.finish()
}

fn check_pair(a: &Key, sa: &Spec, b: &Key, sb: &Spec) -> Result<(), Fail> {
    let eq = a == b;
    let ord = a.cmp(b);
    ensure!((b == a) == eq, "eq-not-symmetric", "a==b is {} but b==a is {} for {:?} / {:?}", eq, b == a, sa, sb);
    ensure!(b.cmp(a) == ord.reverse(), "cmp-not-antisymmetric", "a.cmp(b)={:?} b.cmp(a)={:?} for {:?} / {:?}", ord, b.cmp(a), sa, sb);
    ensure!(a.partial_cmp(b) == Some(ord), "partial-cmp-disagrees", "partial_cmp != cmp for {:?} / {:?}", sa, sb);
    ensure!(eq == (ord == Ordering::Equal), "eq-cmp-disagree", "a==b is {} but a.cmp(b) is {:?} for {:?} / {:?}", eq, ord, sa, sb);
    if eq {
        ensure!(stream(a) == stream(b), "equal-keys-hash-stream-differs", "equal keys feed different bytes to Hash: {:?} / {:?}", sa, sb);
        ensure!(std_hash(a) == std_hash(b), "equal-keys-std-hash-differs", "equal keys, different DefaultHasher output: {:?} / {:?}", sa, sb);
        ensure!(a.get_hash() == b.get_hash(), "equal-keys-get_hash-differs", "equal keys, get_hash {} vs {}: {:?} / {:?}", a.get_hash(), b.get_hash(), sa, sb);
    }
    // reference model
    if sa == sb {
        ensure!(eq, "same-parts-not-equal", "same name and label sequence built through two paths compare unequal: {:?}", sa);
    }
    if distinct_names(sa) && distinct_names(sb) {
        ensure!(eq == model_equal(sa, sb), "model-disagrees-distinct-names", "label names pairwise distinct: a==b is {} but model says {} for {:?} / {:?}", eq, model_equal(sa, sb), sa, sb);
    }
    // composite keys: same coherence, and kinds never alias
    let ca = CompositeKey::new(MetricKind::Counter, a.clone());
    let cb = CompositeKey::new(MetricKind::Counter, b.clone());
    let gb = CompositeKey::new(MetricKind::Gauge, b.clone());
    ensure!((ca == cb) == eq && (ca.cmp(&cb) == Ordering::Equal) == eq, "composite-key-incoherent", "CompositeKey eq/cmp differ from Key's for {:?} / {:?}", sa, sb);
    ensure!(ca != gb && ca.cmp(&gb) != Ordering::Equal, "composite-key-kinds-alias", "CompositeKey of different kinds compare equal for {:?} / {:?}", sa, sb);
    if eq {
        ensure!(std_hash(&ca) == std_hash(&cb), "composite-key-hash-differs", "equal CompositeKeys hash differently: {:?} / {:?}", sa, sb);
    }
    Ok(())
}

fn check_single(a: &Key, sa: &Spec) -> Result<(), Fail> {
    ensure!(a == a && a.cmp(a) == Ordering::Equal, "not-reflexive", "key not equal to itself: {:?}", sa);
    if sa.labels.len() >= 2 {
        // equality must not depend on what this thread compared before: compare with the same labels in reverse
        // order (whatever the answer), then the key with itself, its clone and a rebuilt copy again
        let mut rl = owned_labels(sa);
        rl.reverse();
        let ra = Key::from_parts(sa.name.clone(), rl);
        let first = *a == ra;
        let again = *a == ra;
        ensure!(first == again, "eq-not-a-function-of-its-operands", "a == reversed(a) gave {} and then {} for {:?}", first, again, sa);
        let rebuilt = Key::from_parts(sa.name.clone(), owned_labels(sa));
        ensure!(a == a && *a == a.clone() && *a == rebuilt && ra == ra.clone(), "not-reflexive", "after comparing it with its label-reversed twin, a key is no longer equal to itself, its clone or a rebuilt copy: {:?}", sa);
    }
    ensure!(a.name() == sa.name, "name-mismatch", "name() {:?} != {:?}", a.name(), sa.name);
    let got: Vec<(String, String)> = a.labels().map(|l| (l.key().to_string(), l.value().to_string())).collect();
    ensure!(got == sa.labels, "labels-mismatch", "labels() {:?} != {:?}", got, sa.labels);
    let h1 = a.get_hash();
    let h2 = a.get_hash();
    let hc = a.clone().get_hash();
    ensure!(h1 == h2 && h1 == hc, "get_hash-unstable", "get_hash {} then {} clone {} for {:?}", h1, h2, hc, sa);
    let reference = Key::from_parts(sa.name.clone(), owned_labels(sa)).get_hash();
    ensure!(h1 == reference, "get_hash-depends-on-path", "get_hash {} differs from owned reconstruction {} for {:?}", h1, reference, sa);
    let mut kh = metrics::KeyHasher::default();
    a.hash(&mut kh);
    ensure!(kh.finish() == h1, "get_hash-not-keyhasher-of-hash", "get_hash {} != KeyHasher over Hash {} for {:?}", h1, kh.finish(), sa);
    Ok(())
}

pub fn case_triples(bytes: &[u8], _s: &[u8], ctx: &mut Ctx) -> Result<(), Fail> {
    let mut src = Source::new(bytes);
    let case = decode(&mut src);
    ctx.case(&case);
    let mut arena = StaticArena::new();
    {
        let plans = [&case.a, &case.b, &case.c];
        let keys: Vec<Key> = plans.iter().map(|p| build(&p.spec, p.path, &mut arena)).collect();
        // classification
        let multi = plans.iter().filter(|p| p.spec.labels.len() >= 2).count();
        let shares = plans.iter().any(|p| !distinct_names(&p.spec));
        let meq = model_equal(&case.a.spec, &case.b.spec) || model_equal(&case.b.spec, &case.c.spec) || model_equal(&case.a.spec, &case.c.spec);
        if shares {
            ctx.class("repeated-label-name");
        }
        if meq {
            ctx.class("model-equal-pair");
        }
        for p in plans.iter() {
            ctx.class(match p.spec.labels.len() {
                0 => "len0",
                1 => "len1",
                2 => "len2",
                3..=7 => "len3-7",
                _ => "len8+",
            });
            ctx.class(p.how);
        }
        if multi >= 2 && (shares || meq) {
            ctx.nontrivial("multi-label-collision");
        }
        for (k, p) in keys.iter().zip(plans.iter()) {
            check_single(k, &p.spec)?;
        }
        for (i, j) in [(0, 1), (1, 2), (0, 2)] {
            check_pair(&keys[i], &plans[i].spec, &keys[j], &plans[j].spec)?;
        }
        // transitivity on the triple
        let (a, b, c) = (&keys[0], &keys[1], &keys[2]);
        if a == b && b == c {
            ensure!(a == c, "eq-not-transitive", "a==b, b==c, a!=c for {:?}", case);
        }
        for (x, y, z) in [(a, b, c), (a, c, b), (b, a, c), (b, c, a), (c, a, b), (c, b, a)] {
            if x.cmp(y) != Ordering::Greater && y.cmp(z) != Ordering::Greater {
                ensure!(x.cmp(z) != Ordering::Greater, "cmp-not-transitive", "x<=y, y<=z but x>z within {:?}", case);
            }
        }
    }
    drop(arena);
    Ok(())
}

#[derive(Debug)]
struct RaceCase {
    spec: Spec,
    threads: Vec<Vec<u8>>, // per thread: ops 0=get_hash 1=clone+get_hash 2=std-hash
}

pub fn case_race(bytes: &[u8], sched_bytes: &[u8], ctx: &mut Ctx) -> Result<(), Fail> {
    let mut src = Source::new(bytes);
    let spec = dec_spec(&mut src);
    let nt = 2 + src.below(2);
    let threads: Vec<Vec<u8>> = (0..nt).map(|_| (0..1 + src.below(3)).map(|_| src.below(3) as u8).collect()).collect();
    let case = RaceCase { spec, threads };
    ctx.case(&(&case, sched_bytes));
    let mut arena = StaticArena::new();
    let reference = Key::from_parts(case.spec.name.clone(), owned_labels(&case.spec)).get_hash();
    let out = {
        let key = build(&case.spec, Path::StaticParts, &mut arena);
        let results = std::sync::Mutex::new(Vec::<(usize, u8, u64)>::new());
        let bodies: Vec<Box<dyn FnOnce() + Send + '_>> = case
            .threads
            .iter()
            .enumerate()
            .map(|(t, ops)| {
                let key = &key;
                let results = &results;
                Box::new(move || {
                    for &op in ops {
                        let h = match op {
                            0 => key.get_hash(),
                            1 => {
                                let c = key.clone();
                                sched::point("c03.after_clone");
                                c.get_hash()
                            }
                            _ => {
                                let mut kh = metrics::KeyHasher::default();
                                key.hash(&mut kh);
                                kh.finish()
                            }
                        };
                        results.lock().unwrap().push((t, op, h));
                        sched::point("c03.between_ops");
                    }
                }) as Box<dyn FnOnce() + Send + '_>
            })
            .collect();
        let out = sched::explore(sched_bytes, SchedOpts::default(), bodies);
        let res = results.into_inner().unwrap();
        for (t, op, h) in &res {
            ensure!(*h == reference, "get_hash-race-wrong-value", "thread {} op {} observed hash {} but the key hashes to {} ({:?}); trace {:?}", t, op, h, reference, case.spec, out.trace);
        }
        ensure!(key.get_hash() == reference, "get_hash-race-wrong-final", "final get_hash differs from {} ({:?})", reference, case.spec);
        out
    };
    drop(arena);
    ensure!(out.panics.is_empty(), "panic-in-thread", "{:?}", out.panics);
    // non-trivial: some other thread ran between a thread's get_hash.between_stores and its next step
    let tr = &out.trace;
    let mut switched = false;
    for i in 0..tr.len().saturating_sub(1) {
        if tr[i].1 == "key.get_hash.between_stores" && tr[i + 1].0 != tr[i].0 {
            switched = true;
        }
    }
    if switched {
        ctx.nontrivial("switch-between-hash-stores");
    }
    Ok(())
}

fn exhaustive_small(pr: &PropRun) -> LaneReport {
    // all label lists of length <= 3 over 2 names x 2 values, all ordered pairs, two paths
    let start = std::time::Instant::now();
    let mut rep = LaneReport::named("exhaustive-lists-le3");
    rep.exhaustive = true;
    let atoms: Vec<(String, String)> = ["a", "b"].iter().flat_map(|k| ["1", "2"].iter().map(move |v| (k.to_string(), v.to_string()))).collect();
    let mut lists: Vec<Vec<(String, String)>> = vec![vec![]];
    let mut frontier = vec![vec![]];
    for _ in 0..3 {
        let mut next = vec![];
        for l in &frontier {
            for a in &atoms {
                let mut n: Vec<(String, String)> = l.clone();
                n.push(a.clone());
                next.push(n);
            }
        }
        lists.extend(next.iter().cloned());
        frontier = next;
    }
    let mut arena = StaticArena::new();
    {
        let specs: Vec<Spec> = lists.into_iter().map(|labels| Spec { name: "n".into(), labels }).collect();
        let ka: Vec<Key> = specs.iter().map(|s| build(s, Path::PartsOwned, &mut arena)).collect();
        let kb: Vec<Key> = specs.iter().map(|s| build(s, Path::StaticParts, &mut arena)).collect();
        'outer: for (i, sa) in specs.iter().enumerate() {
            for (j, sb) in specs.iter().enumerate() {
                let mut ctx = Ctx::default();
                if sa.labels.len() >= 2 && sb.labels.len() >= 2 && (!distinct_names(sa) || model_equal(sa, sb)) {
                    ctx.nontrivial("multi-label-collision");
                }
                ctx.fingerprint = Some((i * 1000 + j) as u64);
                if i == 37 && j == 41 {
                    ctx.desc = Some(format!("{:?} vs {:?}", sa, sb));
                }
                let r = check_pair(&ka[i], sa, &kb[j], sb);
                rep.account(ctx);
                if let Err(f) = r {
                    if pr.cfg.is_known(&f.sig) {
                        rep.known_hits.entry(f.sig.clone()).or_insert((0, vec![], vec![], format!("{:?} vs {:?}", sa, sb))).0 += 1;
                    } else {
                        rep.violations.push(crate::engine::runner::Violation { lane: "exhaustive-lists-le3".into(), sig: f.sig, msg: f.msg, bytes: vec![i as u8, j as u8], sched: vec![], decoded: format!("{:?} vs {:?}", sa, sb) });
                        break 'outer;
                    }
                }
            }
        }
    }
    drop(arena);
    rep.wall_s = start.elapsed().as_secs_f64();
    rep
}

pub fn case_exhaustive_replay(bytes: &[u8], _s: &[u8], ctx: &mut Ctx) -> Result<(), Fail> {
    // replay of an exhaustive-lane violation: bytes = [i, j] indices into the enumeration
    let atoms: Vec<(String, String)> = ["a", "b"].iter().flat_map(|k| ["1", "2"].iter().map(move |v| (k.to_string(), v.to_string()))).collect();
    let mut lists: Vec<Vec<(String, String)>> = vec![vec![]];
    let mut frontier = vec![vec![]];
    for _ in 0..3 {
        let mut next = vec![];
        for l in &frontier {
            for a in &atoms {
                let mut n: Vec<(String, String)> = l.clone();
                n.push(a.clone());
                next.push(n);
            }
        }
        lists.extend(next.iter().cloned());
        frontier = next;
    }
    let i = *bytes.first().unwrap_or(&0) as usize % lists.len();
    let j = *bytes.get(1).unwrap_or(&0) as usize % lists.len();
    let sa = Spec { name: "n".into(), labels: lists[i].clone() };
    let sb = Spec { name: "n".into(), labels: lists[j].clone() };
    ctx.case(&(&sa, &sb));
    let mut arena = StaticArena::new();
    let r = {
        let a = build(&sa, Path::PartsOwned, &mut arena);
        let b = build(&sb, Path::StaticParts, &mut arena);
        check_pair(&a, &sa, &b, &sb)
    };
    drop(arena);
    r
}

/// Free-running stress: one thread makes the very first get_hash() call on a fresh un-hashed static key
/// while others clone it and hash the clones (no hook point separates the two loads of `Key::clone`, so
/// only free-running threads can land between them).
fn stress_first_hash(pr: &PropRun) -> crate::engine::runner::LaneReport {
    use crate::engine::runner::{LaneReport, Violation};
    use std::sync::atomic::{AtomicBool, AtomicUsize, Ordering};
    let start = std::time::Instant::now();
    let mut rep = LaneReport::named("stress-clone-during-first-hash");
    let rounds = pr.cfg.cases(60_000, 2_000_000) as usize;
    const NAMES: [&str; 4] = ["stress.key", "", "é", "a.much.longer.metric.name.for.the.stress.lane"];
    static LABELS: [Label; 2] = [Label::from_static_parts("k", "v"), Label::from_static_parts("k2", "")];
    let cloners = 3usize;
    let slot: std::sync::RwLock<Option<Key>> = std::sync::RwLock::new(None);
    let round = AtomicUsize::new(0); // odd = a key is published for that round
    let done = AtomicUsize::new(0);
    let stop = AtomicBool::new(false);
    let bad: std::sync::Mutex<Option<(String, String)>> = std::sync::Mutex::new(None);
    std::thread::scope(|s| {
        for c in 0..=cloners {
            let (slot, round, done, stop, bad) = (&slot, &round, &done, &stop, &bad);
            s.spawn(move || {
                let mut seen = 0usize;
                while !stop.load(Ordering::Acquire) {
                    let r = round.load(Ordering::Acquire);
                    if r == seen {
                        std::hint::spin_loop();
                        continue;
                    }
                    seen = r;
                    let g = slot.read().unwrap();
                    let key = g.as_ref().unwrap();
                    let reference = Key::from_parts(key.name().to_string(), key.labels().cloned().collect::<Vec<_>>()).get_hash();
                    if c == 0 {
                        // a little jitter so that the first get_hash lands at varying points of the cloners' loops
                        for _ in 0..(r % 64) {
                            std::hint::spin_loop();
                        }
                        let h = key.get_hash();
                        if h != reference {
                            *bad.lock().unwrap() = Some(("get_hash-race-wrong-value".into(), format!("first get_hash() returned {:#x}, the key hashes to {:#x}", h, reference)));
                        }
                    } else {
                        for _ in 0..24 {
                            let k2 = key.clone();
                            let h = k2.get_hash();
                            let mut kh = metrics::KeyHasher::default();
                            k2.hash(&mut kh);
                            if h != reference || kh.finish() != reference || k2 != *key {
                                *bad.lock().unwrap() = Some(("clone-of-racing-key-hashes-differently".into(), format!("a clone taken while another thread made the first get_hash() call reports get_hash() = {:#x} (std Hash {:#x}) but the key hashes to {:#x}; name {:?}", h, kh.finish(), reference, key.name())));
                                break;
                            }
                        }
                    }
                    drop(g);
                    done.fetch_add(1, Ordering::AcqRel);
                }
            });
        }
        for r in 0..rounds {
            let name = NAMES[r % NAMES.len()];
            let key = match r % 3 {
                0 => Key::from_static_name(name),
                1 => Key::from_static_parts(name, &LABELS),
                _ => Key::from_static_labels(name.to_string(), &LABELS),
            };
            *slot.write().unwrap() = Some(key);
            done.store(0, Ordering::Release);
            round.store(r + 1, Ordering::Release);
            while done.load(Ordering::Acquire) < cloners + 1 {
                std::hint::spin_loop();
            }
            if bad.lock().unwrap().is_some() {
                break;
            }
        }
        stop.store(true, Ordering::Release);
    });
    let mut ctx = Ctx::default();
    ctx.fingerprint = Some(1);
    ctx.nontrivial("clone-races-first-get_hash");
    ctx.desc = Some(format!("{} rounds: a fresh static key (from_static_name / from_static_parts / from_static_labels), one thread calls get_hash() first while {} threads clone it 24 times each and compare get_hash(), std Hash and == of every clone", rounds, cloners));
    rep.account(ctx);
    rep.evaluations = rounds as u64;
    if let Some((sig, msg)) = bad.into_inner().unwrap() {
        rep.violations.push(Violation { lane: "stress-clone-during-first-hash".into(), sig, msg, bytes: vec![], sched: vec![], decoded: "free-running threads (not deterministically replayable)".into() });
    }
    rep.wall_s = start.elapsed().as_secs_f64();
    rep
}

pub fn run(cfg: &RunCfg, replay: Option<&str>) -> i32 {
    let mut pr = PropRun::new("C03", cfg, RULE);
    pr.register("triples", &case_triples);
    pr.register("hash-race", &case_race);
    pr.register("exhaustive-lists-le3", &case_exhaustive_replay);
    if let Some(f) = replay {
        return pr.replay(f);
    }
    pr.assume("the scheduler explores sequentially consistent interleavings at hook granularity only; weak-memory reorderings of the two stores in get_hash are not explored");
    pr.assume("keys with repeated label names: only coherence of ==, cmp and hashes is asserted, not a particular truth value");
    let r = pr.run_regressions();
    pr.push(r);
    let c = pr.cfg.clone();
    let r = run_lane(&c, "C03", &Lane { name: "triples", cases: c.cases(2_000_000, 40_000_000), max_len: 240, sched_len: 0, workers: 0, f: &case_triples });
    pr.push(r);
    let r = run_lane(&c, "C03", &Lane { name: "hash-race", cases: c.cases(200_000, 5_000_000), max_len: 40, sched_len: 24, workers: 0, f: &case_race });
    pr.push(r);
    let r = exhaustive_small(&pr);
    pr.push(r);
    let r = stress_first_hash(&pr);
    pr.push(r);
    pr.finish()
}
