//! C14 — shared strings and label slices own their memory correctly on every path.

use std::{
    cell::Cell,
    collections::hash_map::DefaultHasher,
    hash::{Hash, Hasher},
    sync::{
        atomic::{AtomicPtr, AtomicU8, Ordering},
        Arc,
    },
};

use metrics::{Key, Label, SharedString, __verif::Cow};

use crate::{
    alloc,
    engine::{
        report::PropRun,
        runner::{run_lane, Ctx, Fail, Lane, LaneReport, RunCfg, Violation},
        source::Source,
    },
    ensure,
};

const RULE: &str = "a case = 2-30 operations over a pool of live values of two families — Cow<str>/SharedString and Cow<[El]> where El is a drop-counting element: construct (borrowed from static data; owned with every len/capacity shape: String::new(), with_capacity(n) empty, exact fit, spare capacity; shared from an Arc that the harness also keeps), clone, read back, compare/hash two pool members, into_owned, convert from std::borrow::Cow, build a Key from pool members and take it apart again (from_parts, with_extra_labels, into_parts), drop, and (in the untracked lane) move to another thread and drop there. Oracles: content always equals the model; Arc::strong_count of every source Arc equals 1 + live shared values derived from it; every element instance is dropped exactly once by the end; the per-thread allocation balance returns to zero. Non-trivial = an owned or shared value is cloned and both copies are later consumed by different operations. Distinct = distinct decoded cases. Exhaustive sub-lane: all sequences of length <= 4 over {construct borrowed/owned/shared, clone, into_owned, drop}.";

// ---- drop slots (no pointers inside elements; chunks are pre-faulted outside the tracked region)
const CHUNK: usize = 1 << 20;
static CHUNKS: [AtomicPtr<AtomicU8>; 4096] = {
    const N: AtomicPtr<AtomicU8> = AtomicPtr::new(std::ptr::null_mut());
    [N; 4096]
};
static NEXT_BASE: std::sync::atomic::AtomicU64 = std::sync::atomic::AtomicU64::new(0);

fn slot_cell(slot: u64) -> &'static AtomicU8 {
    let ci = (slot as usize / CHUNK) % 4096;
    let mut p = CHUNKS[ci].load(Ordering::Acquire);
    if p.is_null() {
        let v: Vec<AtomicU8> = (0..CHUNK).map(|_| AtomicU8::new(0)).collect();
        let raw = Box::into_raw(v.into_boxed_slice()) as *mut AtomicU8;
        match CHUNKS[ci].compare_exchange(std::ptr::null_mut(), raw, Ordering::AcqRel, Ordering::Acquire) {
            Ok(_) => p = raw,
            Err(cur) => {
                unsafe { drop(Box::from_raw(std::slice::from_raw_parts_mut(raw, CHUNK))) };
                p = cur;
            }
        }
    }
    unsafe { &*p.add(slot as usize % CHUNK) }
}

thread_local! {
    static SLOT_NEXT: Cell<u64> = const { Cell::new(0) };
    static SLOT_END: Cell<u64> = const { Cell::new(0) };
}

const SLOTS_PER_CASE: u64 = 2048;

fn reserve_slots() -> u64 {
    let base = NEXT_BASE.fetch_add(SLOTS_PER_CASE, Ordering::Relaxed);
    // the slot space (4096 chunks of 2^20 counters) is reused after 2^21 cases: clear this case's range, which lies
    // inside one chunk because SLOTS_PER_CASE divides the chunk size
    let first = slot_cell(base) as *const AtomicU8 as *mut u8;
    unsafe { std::ptr::write_bytes(first, 0, SLOTS_PER_CASE as usize) };
    SLOT_NEXT.with(|c| c.set(base));
    SLOT_END.with(|c| c.set(base + SLOTS_PER_CASE));
    base
}

#[derive(Debug, PartialEq, Eq, Hash, PartialOrd, Ord)]
pub struct El {
    id: u32,
    slot: u64,
}

impl El {
    fn new(id: u32) -> El {
        let slot = SLOT_NEXT.with(|c| {
            let s = c.get();
            c.set(s + 1);
            s
        });
        assert!(slot < SLOT_END.with(|c| c.get()), "slot budget exceeded");
        El { id, slot }
    }
}

impl Clone for El {
    fn clone(&self) -> Self {
        El::new(self.id)
    }
}

impl Drop for El {
    fn drop(&mut self) {
        slot_cell(self.slot).fetch_add(1, Ordering::AcqRel);
    }
}

/// Extra strong references the harness holds on every source Arc, so that a missing increment in the
/// code under test shows up as a wrong count instead of freeing memory that is still in use.
const GUARD: usize = 64;

const LONG_STATIC: &str = "a-rather-long-static-string-that-is-over-thirty-two-bytes";
const NSTATIC: usize = 8;
/// the last three are views into one buffer: different strings that start at the same address
fn static_str(i: usize) -> &'static str {
    match i {
        0 => "",
        1 => "a",
        2 => "name",
        3 => "héllo wörld",
        4 => LONG_STATIC,
        5 => &LONG_STATIC[..0],
        6 => &LONG_STATIC[..1],
        _ => &LONG_STATIC[..8],
    }
}

#[derive(Debug, Clone)]
enum Op {
    StrBorrowed(usize),
    StrOwned { content: usize, extra_cap: usize, via_std: bool },
    StrShared(usize),
    SliceBorrowed(usize),
    SliceOwned { len: usize, extra_cap: usize },
    SliceShared(usize),
    Clone(usize),
    Read(usize),
    Compare(usize, usize),
    IntoOwned(usize),
    Drop(usize),
    DropOnThread(usize),
    KeyRoundTrip(usize, usize),
    /// `target.clone_from(&source)` between two values of the same type: the target's old content is released
    CloneFrom(usize, usize),
}

#[derive(Debug)]
struct Case {
    ops: Vec<Op>,
    threads: bool,
}

fn decode(src: &mut Source, threads: bool) -> Case {
    let n = 2 + src.below(29);
    let ops = (0..n)
        .map(|_| match src.below(16) {
            0 => Op::StrBorrowed(src.below(NSTATIC)),
            1 | 2 => Op::StrOwned { content: src.below(NSTATIC), extra_cap: *src.pick(&[0usize, 0, 1, 7, 64]), via_std: src.chance(64) },
            3 => {
                if src.chance(110) {
                    Op::StrShared(100 + src.below(NSTATIC))
                } else {
                    Op::StrShared(src.below(3))
                }
            }
            4 => Op::SliceBorrowed(src.below(3)),
            5 | 6 => Op::SliceOwned { len: src.below(5), extra_cap: *src.pick(&[0usize, 0, 1, 5]) },
            7 => {
                if src.chance(110) {
                    Op::SliceShared(100 + src.below(5))
                } else {
                    Op::SliceShared(src.below(2))
                }
            }
            8 | 9 => Op::Clone(src.below(8)),
            10 => Op::Read(src.below(8)),
            11 => Op::Compare(src.below(8), src.below(8)),
            12 => Op::IntoOwned(src.below(8)),
            13 => Op::Drop(src.below(8)),
            14 => {
                if threads {
                    Op::DropOnThread(src.below(8))
                } else {
                    Op::Drop(src.below(8))
                }
            }
            _ => {
                if src.chance(110) {
                    Op::CloneFrom(src.below(8), src.below(8))
                } else {
                    Op::KeyRoundTrip(src.below(8), src.below(8))
                }
            }
        })
        .collect();
    Case { ops, threads }
}

enum Val {
    S { cow: Cow<'static, str>, model: String, origin: Origin },
    L { cow: Cow<'static, [El]>, model: Vec<u32>, origin: Origin },
}

#[derive(Clone, Copy, PartialEq, Debug)]
enum Origin {
    Borrowed,
    Owned,
    SharedStr(usize),
    SharedSlice(usize),
    /// shared, and the harness kept no reference: the last one is dropped by the library
    SharedOwnedByCow,
}

#[derive(Default, Clone, Copy)]
struct Stats {
    clone_both_consumed: bool,
    shapes: u32,
}

fn hash_of<T: Hash + ?Sized>(t: &T) -> u64 {
    let mut h = DefaultHasher::new();
    t.hash(&mut h);
    h.finish()
}

struct World {
    static_slices: Vec<&'static [El]>,
    arcs_str: Vec<Arc<str>>,
    arcs_slice: Vec<Arc<[El]>>,
}

fn run_ops(case: &Case, world: &World) -> Result<Stats, Fail> {
    let mut stats = Stats::default();
    // (value, lineage id); leaked on the failure path so that an ownership error already detected is
    // reported instead of being turned into heap corruption by the clean-up
    let mut pool: std::mem::ManuallyDrop<Vec<(Val, u32)>> = std::mem::ManuallyDrop::new(Vec::with_capacity(16));
    let mut lineage = 0u32;
    let mut consumed_by: Vec<(u32, u8)> = Vec::with_capacity(64); // (lineage, op code) for cloned owned/shared lineages
    let mut cloned_lineages: Vec<u32> = Vec::with_capacity(16);
    let check_counts = |pool: &Vec<(Val, u32)>| -> Result<(), Fail> {
        for (i, a) in world.arcs_str.iter().enumerate() {
            let live = pool.iter().filter(|(v, _)| matches!(v, Val::S { origin: Origin::SharedStr(j), .. } if *j == i)).count();
            ensure!(Arc::strong_count(a) == 1 + GUARD + live, "arc-count-wrong", "Arc<str> #{}: strong count {} (minus the harness's {} guard references) but 1 + {} live shared values derive from it", i, Arc::strong_count(a), GUARD, live);
        }
        for (i, a) in world.arcs_slice.iter().enumerate() {
            let live = pool.iter().filter(|(v, _)| matches!(v, Val::L { origin: Origin::SharedSlice(j), .. } if *j == i)).count();
            ensure!(Arc::strong_count(a) == 1 + GUARD + live, "arc-count-wrong", "Arc<[El]> #{}: strong count {} (minus the harness's {} guard references) but 1 + {} live shared values derive from it", i, Arc::strong_count(a), GUARD, live);
        }
        Ok(())
    };
    let read = |v: &Val| -> Result<(), Fail> {
        match v {
            Val::S { cow, model, .. } => {
                ensure!(&**cow == model.as_str(), "content-differs", "Cow<str> reads {:?}, built from {:?}", &**cow, model);
                ensure!(cow.len() == model.len() && cow.as_ref() == model.as_str() && format!("{}", cow) == *model, "content-differs", "len/as_ref/Display disagree for {:?}", model);
                ensure!(hash_of(cow) == hash_of(model.as_str()), "hash-differs", "Hash of Cow<str> differs from hash of its content {:?}", model);
            }
            Val::L { cow, model, .. } => {
                let got: Vec<u32> = cow.iter().map(|e| e.id).collect();
                ensure!(got == *model, "content-differs", "Cow<[El]> reads {:?}, built from {:?}", got, model);
            }
        }
        Ok(())
    };
    for op in &case.ops {
        match op {
            Op::StrBorrowed(i) => {
                lineage += 1;
                // three ways to a borrowed string: from_borrowed, the const constructor the macros use, From<&'static str>
                let cow: Cow<'static, str> = match (*i + pool.len()) % 3 {
                    0 => Cow::from_borrowed(static_str(*i)),
                    1 => Cow::const_str(static_str(*i)),
                    _ => Cow::from(static_str(*i)),
                };
                pool.push((Val::S { cow, model: static_str(*i).to_string(), origin: Origin::Borrowed }, lineage));
            }
            Op::StrOwned { content, extra_cap, via_std } => {
                let mut s = String::with_capacity(static_str(*content).len() + extra_cap);
                s.push_str(static_str(*content));
                if *extra_cap == 0 {
                    s.shrink_to_fit();
                }
                stats.shapes |= 1 << ((s.is_empty() as u32) * 2 + (s.capacity() > s.len()) as u32);
                let model = s.clone();
                let cow: Cow<'static, str> = if *via_std { Cow::from(std::borrow::Cow::<'static, str>::Owned(s)) } else if *extra_cap == 7 { Cow::from(s) /* From<String> */ } else { Cow::from_owned(s) };
                lineage += 1;
                pool.push((Val::S { cow, model, origin: Origin::Owned }, lineage));
            }
            Op::StrShared(i) if *i >= 100 => {
                // a fresh Arc made here and given up at once: the Cow (and its clones) hold the last reference, so
                // its release — size, count, thread — is the library's doing and shows in the allocation balance
                let a: Arc<str> = Arc::from(static_str(*i - 100));
                let model = a.to_string();
                lineage += 1;
                let cow = Cow::from_shared(a.clone());
                drop(a);
                stats.shapes |= 1 << 4;
                pool.push((Val::S { cow, model, origin: Origin::SharedOwnedByCow }, lineage));
            }
            Op::StrShared(i) => {
                let a = world.arcs_str[*i].clone();
                let model = a.to_string();
                lineage += 1;
                pool.push((Val::S { cow: Cow::from_shared(a), model, origin: Origin::SharedStr(*i) }, lineage));
            }
            Op::SliceBorrowed(i) => {
                let s = world.static_slices[*i];
                lineage += 1;
                pool.push((Val::L { cow: Cow::const_slice(s), model: s.iter().map(|e| e.id).collect(), origin: Origin::Borrowed }, lineage));
            }
            Op::SliceOwned { len, extra_cap } => {
                let mut v: Vec<El> = Vec::with_capacity(len + extra_cap);
                for k in 0..*len {
                    v.push(El::new(100 + k as u32));
                }
                if *extra_cap == 0 {
                    v.shrink_to_fit();
                }
                let model = v.iter().map(|e| e.id).collect();
                lineage += 1;
                pool.push((Val::L { cow: if *extra_cap == 5 { Cow::from(v) /* From<Vec<T>> */ } else { Cow::from_owned(v) }, model, origin: Origin::Owned }, lineage));
            }
            Op::SliceShared(i) if *i >= 100 => {
                let a: Arc<[El]> = (0..*i - 100).map(|k| El::new(300 + k as u32)).collect::<Vec<El>>().into();
                let model = a.iter().map(|e| e.id).collect();
                lineage += 1;
                let cow: Cow<'static, [El]> = Cow::from(a.clone());
                drop(a);
                stats.shapes |= 1 << 4;
                pool.push((Val::L { cow, model, origin: Origin::SharedOwnedByCow }, lineage));
            }
            Op::SliceShared(i) => {
                let a = world.arcs_slice[*i].clone();
                let model = a.iter().map(|e| e.id).collect();
                lineage += 1;
                pool.push((Val::L { cow: Cow::from(a), model, origin: Origin::SharedSlice(*i) }, lineage));
            }
            Op::Clone(i) if !pool.is_empty() && pool.len() < 14 => {
                let (v, lin) = &pool[*i % pool.len()];
                let c = match v {
                    Val::S { cow, model, origin } => Val::S { cow: cow.clone(), model: model.clone(), origin: *origin },
                    Val::L { cow, model, origin } => Val::L { cow: cow.clone(), model: model.clone(), origin: *origin },
                };
                let is_heavy = !matches!(v, Val::S { origin: Origin::Borrowed, .. } | Val::L { origin: Origin::Borrowed, .. });
                if is_heavy && !cloned_lineages.contains(lin) {
                    cloned_lineages.push(*lin);
                }
                let lin = *lin;
                read(&c)?;
                pool.push((c, lin));
            }
            Op::Read(i) if !pool.is_empty() => read(&pool[*i % pool.len()].0)?,
            Op::Compare(i, j) if !pool.is_empty() => {
                let (a, b) = (&pool[*i % pool.len()].0, &pool[*j % pool.len()].0);
                match (a, b) {
                    (Val::S { cow: ca, model: ma, .. }, Val::S { cow: cb, model: mb, .. }) => {
                        ensure!((ca == cb) == (ma == mb), "eq-differs-from-content", "{:?} == {:?} is {}", ma, mb, ca == cb);
                        ensure!(ca.cmp(cb) == ma.cmp(mb) && ca.partial_cmp(cb) == ma.partial_cmp(mb), "cmp-differs-from-content", "{:?} cmp {:?}", ma, mb);
                        if ma == mb {
                            ensure!(hash_of(ca) == hash_of(cb), "hash-differs", "equal strings hash differently");
                        }
                    }
                    (Val::L { cow: ca, model: ma, .. }, Val::L { cow: cb, model: mb, .. }) => {
                        let ia: Vec<u32> = ca.iter().map(|e| e.id).collect();
                        let ib: Vec<u32> = cb.iter().map(|e| e.id).collect();
                        ensure!((ia == ib) == (ma == mb), "eq-differs-from-content", "{:?} vs {:?}", ma, mb);
                    }
                    _ => {}
                }
            }
            Op::IntoOwned(i) if !pool.is_empty() => {
                let idx = *i % pool.len();
                let (v, lin) = pool.swap_remove(idx);
                match v {
                    Val::S { cow, model, .. } => {
                        let s: String = cow.into_owned();
                        ensure!(s == model, "into_owned-content-differs", "into_owned gave {:?}, expected {:?}", s, model);
                    }
                    Val::L { cow, model, .. } => {
                        let o: Vec<El> = cow.into_owned();
                        ensure!(o.iter().map(|e| e.id).collect::<Vec<_>>() == model, "into_owned-content-differs", "slice into_owned differs from {:?}", model);
                    }
                }
                consumed_by.push((lin, 1));
            }
            Op::CloneFrom(i, j) if pool.len() >= 2 => {
                let (ti, si) = (*i % pool.len(), *j % pool.len());
                if ti != si {
                    // take the target out, overwrite it from the source, put it back under the source's identity
                    let (mut target, tlin) = pool.swap_remove(ti);
                    let si = if si == pool.len() { ti } else { si }; // swap_remove moved the last element into ti
                    let (source, slin) = (&pool[si].0, pool[si].1);
                    let merged = match (&mut target, source) {
                        (Val::S { cow: tc, model: tm, origin: to }, Val::S { cow: sc, model: sm, origin: so }) => {
                            tc.clone_from(sc);
                            *tm = sm.clone();
                            *to = *so;
                            true
                        }
                        (Val::L { cow: tc, model: tm, origin: to }, Val::L { cow: sc, model: sm, origin: so }) => {
                            tc.clone_from(sc);
                            *tm = sm.clone();
                            *to = *so;
                            true
                        }
                        _ => false,
                    };
                    if merged {
                        stats.shapes |= 1 << 5;
                        read(&target)?;
                        consumed_by.push((tlin, 4));
                        if !cloned_lineages.contains(&slin) {
                            cloned_lineages.push(slin);
                        }
                        pool.push((target, slin));
                    } else {
                        pool.push((target, tlin));
                    }
                }
            }
            Op::Drop(i) if !pool.is_empty() => {
                let idx = *i % pool.len();
                let (v, lin) = pool.swap_remove(idx);
                drop(v);
                consumed_by.push((lin, 2));
            }
            Op::DropOnThread(i) if !pool.is_empty() => {
                let idx = *i % pool.len();
                let (v, lin) = pool.swap_remove(idx);
                struct SendVal(Val);
                unsafe impl Send for SendVal {} // Val's parts are Send (Cow<T: Send>), the enum just is not auto-derived through our Origin
                let sv = SendVal(v);
                std::thread::spawn(move || {
                    let sv = sv;
                    drop(sv.0);
                })
                .join()
                .map_err(|_| Fail::new("panic-in-thread", "dropping a value on another thread panicked"))?;
                consumed_by.push((lin, 3));
            }
            Op::KeyRoundTrip(i, j) if !pool.is_empty() => {
                // name from a string member, labels from string members; round trip through Key
                let pick_str = |k: usize| pool.iter().cycle().skip(k % pool.len()).take(pool.len()).find_map(|(v, _)| if let Val::S { cow, model, .. } = v { Some((cow.clone(), model.clone())) } else { None });
                if let (Some((n, nm)), Some((l, lm))) = (pick_str(*i), pick_str(*j)) {
                    let name: SharedString = n;
                    let key = Key::from_parts(name, vec![Label::new(l.clone(), l.clone())]);
                    ensure!(key.name() == nm, "key-name-differs", "{:?} vs {:?}", key.name(), nm);
                    let k2 = key.with_extra_labels(vec![Label::new(l.clone(), "x")]);
                    let k3 = k2.clone();
                    drop(key);
                    let (kn, labels) = k2.into_parts();
                    ensure!(kn.as_str() == nm && labels.len() == 2 && labels[0].key() == lm && labels[0].value() == lm && labels[1].value() == "x", "key-parts-differ", "into_parts gave {:?} {:?}", kn.as_str(), labels);
                    ensure!(k3.labels().count() == 2, "key-clone-differs", "clone lost labels");
                }
            }
            _ => {}
        }
        check_counts(&pool)?;
    }
    for (v, _) in pool.iter() {
        read(v)?;
    }
    // consume the rest
    for (v, lin) in pool.drain(..) {
        drop(v);
        consumed_by.push((lin, 2));
    }
    check_counts(&pool)?;
    drop(std::mem::ManuallyDrop::into_inner(pool));
    for lin in &cloned_lineages {
        let mut codes: Vec<u8> = consumed_by.iter().filter(|(l, _)| l == lin).map(|(_, c)| *c).collect();
        codes.sort();
        codes.dedup();
        if codes.len() >= 2 {
            stats.clone_both_consumed = true;
        }
    }
    Ok(stats)
}

fn run_case(case: &Case, ctx: &mut Ctx, track: bool) -> Result<(), Fail> {
    let base = reserve_slots();
    // world (static data and source Arcs) is built outside the tracked region
    let s0: &'static [El] = Box::leak(Vec::<El>::new().into_boxed_slice());
    let s1: &'static [El] = Box::leak(vec![El::new(1)].into_boxed_slice());
    let s2: &'static [El] = Box::leak(vec![El::new(2), El::new(3), El::new(4)].into_boxed_slice());
    let world = World {
        static_slices: vec![s0, s1, s2],
        arcs_str: vec![Arc::from(""), Arc::from("shared"), Arc::from("a-shared-string-that-is-quite-a-bit-longer-than-the-others")],
        arcs_slice: vec![Arc::from(Vec::<El>::new()), Arc::from(vec![El::new(10), El::new(11)])],
    };
    for a in &world.arcs_str {
        for _ in 0..GUARD {
            std::mem::forget(a.clone());
        }
    }
    for a in &world.arcs_slice {
        for _ in 0..GUARD {
            std::mem::forget(a.clone());
        }
    }
    let world_slots_end = SLOT_NEXT.with(|c| c.get());
    if track {
        alloc::track_start();
    }
    let r = run_ops(case, &world);
    let balance = if track { Some(alloc::track_stop()) } else { None };
    let stats = r?;
    if stats.clone_both_consumed {
        ctx.nontrivial("clone-and-original-consumed-differently");
    }
    if stats.shapes & 0b0100 != 0 {
        ctx.class("owned-empty-no-capacity");
    }
    if stats.shapes & 0b1000 != 0 {
        ctx.class("owned-empty-with-capacity");
    }
    if stats.shapes & 0b0010 != 0 {
        ctx.class("owned-spare-capacity");
    }
    if stats.shapes & 0b100000 != 0 {
        ctx.class("clone_from-over-an-existing-value");
    }
    if stats.shapes & 0b10000 != 0 {
        ctx.nontrivial("shared-value-whose-last-reference-is-the-cows");
    }
    if let Some((bytes, blocks)) = balance {
        ensure!(bytes == 0 && blocks == 0, "allocation-balance-nonzero", "after every value was dropped this thread's allocation balance is {} bytes in {} blocks (leak if positive, foreign free if negative)", bytes, blocks);
    }
    // every element instance created inside the tracked region was dropped exactly once
    let used_end = SLOT_NEXT.with(|c| c.get());
    for slot in world_slots_end..used_end {
        let d = slot_cell(slot).load(Ordering::Acquire);
        ensure!(d == 1, "element-drop-count", "element instance #{} (of this case) was dropped {} times", slot - base, d);
    }
    for slot in base..world_slots_end {
        let d = slot_cell(slot).load(Ordering::Acquire);
        ensure!(d == 0, "world-element-dropped", "an element of the static / Arc source data was dropped {} times while its source is alive", d);
    }
    // tear down the world: arcs drop their elements now; leaked static slices are reclaimed
    for a in &world.arcs_str {
        for _ in 0..GUARD {
            unsafe { Arc::decrement_strong_count(Arc::as_ptr(a)) };
        }
    }
    for a in &world.arcs_slice {
        for _ in 0..GUARD {
            unsafe { Arc::decrement_strong_count(Arc::as_ptr(a)) };
        }
    }
    drop(world.arcs_slice);
    drop(world.arcs_str);
    unsafe {
        drop(Box::from_raw(s0 as *const [El] as *mut [El]));
        drop(Box::from_raw(s1 as *const [El] as *mut [El]));
        drop(Box::from_raw(s2 as *const [El] as *mut [El]));
    }
    for slot in base..world_slots_end {
        let d = slot_cell(slot).load(Ordering::Acquire);
        ensure!(d == 1, "world-element-drop-count", "source element dropped {} times after its source was released", d);
    }
    Ok(())
}

pub fn case_tracked(bytes: &[u8], _s: &[u8], ctx: &mut Ctx) -> Result<(), Fail> {
    let mut src = Source::new(bytes);
    let case = decode(&mut src, false);
    ctx.case(&case);
    run_case(&case, ctx, true)
}

pub fn case_threads(bytes: &[u8], _s: &[u8], ctx: &mut Ctx) -> Result<(), Fail> {
    let mut src = Source::new(bytes);
    let case = decode(&mut src, true);
    ctx.case(&case);
    if case.ops.iter().any(|o| matches!(o, Op::DropOnThread(_))) {
        ctx.class("dropped-on-another-thread");
    }
    run_case(&case, ctx, false)
}

fn exhaustive(_pr: &PropRun) -> LaneReport {
    let start = std::time::Instant::now();
    let mut rep = LaneReport::named("exhaustive-sequences-le4");
    rep.exhaustive = true;
    let alphabet = [
        Op::StrBorrowed(2),
        Op::StrOwned { content: 2, extra_cap: 1, via_std: false },
        Op::StrOwned { content: 0, extra_cap: 0, via_std: false },
        Op::StrShared(1),
        Op::SliceOwned { len: 2, extra_cap: 0 },
        Op::SliceShared(1),
        Op::Clone(0),
        Op::IntoOwned(0),
        Op::Drop(0),
    ];
    'outer: for len in 1..=4usize {
        let total = alphabet.len().pow(len as u32);
        for n in 0..total {
            let mut x = n;
            let ops: Vec<Op> = (0..len)
                .map(|_| {
                    let o = alphabet[x % alphabet.len()].clone();
                    x /= alphabet.len();
                    o
                })
                .collect();
            let case = Case { ops, threads: false };
            let mut ctx = Ctx::default();
            ctx.fingerprint = Some((len * 100_000 + n) as u64);
            if len == 4 && n == total / 3 {
                ctx.desc = Some(format!("{:?}", case));
            }
            let r = run_case(&case, &mut ctx, true);
            rep.account(ctx);
            if let Err(f) = r {
                rep.violations.push(Violation { lane: "exhaustive-sequences-le4".into(), sig: f.sig, msg: f.msg, bytes: vec![], sched: vec![], decoded: format!("{:?}", case) });
                break 'outer;
            }
        }
    }
    rep.wall_s = start.elapsed().as_secs_f64();
    rep
}

// ---------------------------------------------------------------- programs the compiler must reject
//
// "No sequence of safe API calls reads freed memory" also covers programs that do not compile today: every public
// constructor that takes a reference must tie the result to it, so a safe function cannot hand out a `'static` string,
// label or key made from a borrow of a local. The lane writes such programs (one per constructor), asks the compiler,
// and runs any program that is accepted — its output (content read back after the local was freed) is the evidence.

const PROBES: [(&str, &str, &str); 8] = [
    ("from_borrowed", "SharedString", "SharedString::from_borrowed(local.as_str())"),
    ("const_str", "SharedString", "SharedString::const_str(local.as_str())"),
    ("from_ref", "SharedString", "SharedString::from(local.as_str())"),
    ("key_name_const", "KeyName", "KeyName::from_const_str(local.as_str())"),
    ("label_static_parts", "Label", "Label::from_static_parts(local.as_str(), \"v\")"),
    ("key_static_name", "Key", "Key::from_static_name(local.as_str())"),
    ("key_static_parts", "Key", "Key::from_static_parts(local.as_str(), &[])"),
    ("key_static_labels", "Key", "{ let labels = vec![Label::new(local.clone(), \"v\")]; Key::from_static_labels(\"n\", labels.as_slice()) }"),
];

thread_local! {
    static ZST_DROPS: std::cell::Cell<u64> = std::cell::Cell::new(0);
}

/// A zero-sized element type with a destructor: `Vec<Zst>` reports capacity usize::MAX, the value the
/// representation reserves for "shared".
#[derive(Clone)]
struct Zst;

impl Drop for Zst {
    fn drop(&mut self) {
        ZST_DROPS.with(|d| d.set(d.get() + 1));
    }
}

/// Slices of zero-sized elements built from an owned vector: the library may refuse them (a panic that unwinds
/// cleanly and drops the vector's elements once) or handle them like any owned value; it must not treat them as
/// shared (the Arc bookkeeping would then run on a dangling pointer — the supervised worker reports the crash).
pub fn case_zst(bytes: &[u8], _s: &[u8], ctx: &mut Ctx) -> Result<(), Fail> {
    let mut src = Source::new(bytes);
    let n = src.below(5);
    let via_from = src.bool();
    let clones = src.below(3);
    let into_owned = src.bool();
    ctx.case(&("zero-sized elements", n, via_from, clones, into_owned));
    ctx.nontrivial("owned-vector-of-zero-sized-elements-with-destructors");
    ZST_DROPS.with(|d| d.set(0));
    let built = std::panic::catch_unwind(|| {
        let v: Vec<Zst> = (0..n).map(|_| Zst).collect();
        let cow: Cow<'static, [Zst]> = if via_from { Cow::from(v) } else { Cow::from_owned(v) };
        cow
    });
    match built {
        Err(_) => {
            ctx.class("owned-zero-sized-slice-refused");
            let d = ZST_DROPS.with(|d| d.get());
            // (the vector has been taken apart before the refusal, so its elements are forgotten rather than dropped: no
            // allocation is involved and nothing is dropped twice, which is all that is asserted on this path)
            ensure!(d <= n as u64, "element-drop-count", "the library refused a Vec of {} zero-sized elements by panicking, and {} destructors ran while unwinding", n, d);
        }
        Ok(cow) => {
            ctx.class("owned-zero-sized-slice-accepted");
            ensure!(cow.len() == n, "content-differs", "Cow<[Zst]> built from {} elements reads {} elements", n, cow.len());
            let copies: Vec<Cow<'static, [Zst]>> = (0..clones).map(|_| cow.clone()).collect();
            for c in &copies {
                ensure!(c.len() == n, "content-differs", "a clone of a Cow<[Zst]> of {} elements reads {} elements", n, c.len());
            }
            if into_owned {
                let v: Vec<Zst> = cow.into_owned();
                ensure!(v.len() == n, "content-differs", "into_owned of a Cow<[Zst]> of {} elements gives {} elements", n, v.len());
                drop(v);
            } else {
                drop(cow);
            }
            drop(copies);
            let d = ZST_DROPS.with(|d| d.get());
            let want = (n * (1 + clones)) as u64;
            ensure!(d == want, "element-drop-count", "{} zero-sized elements, {} clones of the slice: {} destructor runs by the end, {} expected", n, clones, d, want);
        }
    }
    Ok(())
}

static CNT_MADE: std::sync::atomic::AtomicU64 = std::sync::atomic::AtomicU64::new(0);
static CNT_DROPPED: std::sync::atomic::AtomicU64 = std::sync::atomic::AtomicU64::new(0);

/// Element that only counts constructions (new or clone) and destructions.
struct Cnt(u32);
impl Cnt {
    fn new(i: u32) -> Cnt {
        CNT_MADE.fetch_add(1, Ordering::Relaxed);
        Cnt(i)
    }
}
impl Clone for Cnt {
    fn clone(&self) -> Self {
        Cnt::new(self.0)
    }
}
impl Drop for Cnt {
    fn drop(&mut self) {
        CNT_DROPPED.fetch_add(1, Ordering::Relaxed);
    }
}

/// Free-running stress: a shared slice whose only strong reference is the Cow, while the caller still holds a
/// `Weak` to the same Arc and another thread keeps upgrading it. into_owned() on the Cow, then everything is
/// dropped: every element constructed (originals and clones) is destroyed exactly once.
fn stress_sole_owner_with_weak(pr: &PropRun) -> LaneReport {
    use std::sync::atomic::AtomicBool;
    let start = std::time::Instant::now();
    let mut rep = LaneReport::named("stress-into_owned-while-a-weak-is-upgraded");
    let rounds = pr.cfg.cases(200, 6_000);
    let n = 30_000u32;
    let mut bad: Option<String> = None;
    for round in 0..rounds {
        CNT_MADE.store(0, Ordering::SeqCst);
        CNT_DROPPED.store(0, Ordering::SeqCst);
        let arc: Arc<[Cnt]> = (0..n).map(Cnt::new).collect();
        let weak = Arc::downgrade(&arc);
        let cow: Cow<'static, [Cnt]> = Cow::from_shared(arc);
        let stop = AtomicBool::new(false);
        let upgrades = std::sync::atomic::AtomicU64::new(0);
        let mut len_ok = true;
        std::thread::scope(|s| {
            let (weak, stop, upgrades) = (&weak, &stop, &upgrades);
            s.spawn(move || {
                while !stop.load(Ordering::Acquire) {
                    if let Some(a) = weak.upgrade() {
                        upgrades.fetch_add(1, Ordering::Relaxed);
                        std::hint::black_box(a.len());
                        drop(a);
                    }
                }
            });
            // (wait until the other thread is really running, then a little longer, differently every round)
            while upgrades.load(Ordering::Relaxed) == 0 {
                std::hint::spin_loop();
            }
            for _ in 0..(round % 40) * 50 {
                std::hint::spin_loop();
            }
            let v: Vec<Cnt> = cow.into_owned();
            len_ok = v.len() == n as usize && v.iter().enumerate().all(|(i, c)| c.0 == i as u32);
            stop.store(true, Ordering::Release);
            drop(v);
        });
        drop(weak);
        let (made, dropped) = (CNT_MADE.load(Ordering::SeqCst), CNT_DROPPED.load(Ordering::SeqCst));
        let mut ctx = Ctx::default();
        ctx.fingerprint = Some(round);
        ctx.nontrivial("into_owned-of-a-sole-strong-reference-while-a-weak-is-upgraded");
        if round == 0 {
            ctx.desc = Some(format!("Arc<[Cnt]> of {} elements, downgraded; Cow::from_shared takes the only strong reference; one thread loops Weak::upgrade while into_owned() runs", n));
        }
        rep.account(ctx);
        if !len_ok || made != dropped {
            bad = Some(format!("round {}: {} elements were constructed (originals and clones) and {} destructors ran; content intact: {} ({} successful upgrades so far)", round, made, dropped, len_ok, upgrades.load(Ordering::Relaxed)));
            break;
        }
    }
    if let Some(msg) = bad {
        rep.violations.push(crate::engine::runner::Violation { lane: "stress-into_owned-while-a-weak-is-upgraded".into(), sig: "element-drop-count".into(), msg, bytes: vec![], sched: vec![], decoded: "free-running threads (not deterministically replayable)".into() });
    }
    rep.wall_s = start.elapsed().as_secs_f64();
    rep
}

thread_local! {
    static PC_MADE: std::cell::Cell<u64> = std::cell::Cell::new(0);
    static PC_DROPPED: std::cell::Cell<u64> = std::cell::Cell::new(0);
    static PC_PANIC_AT: std::cell::Cell<u64> = std::cell::Cell::new(u64::MAX);
    static PC_CLONES: std::cell::Cell<u64> = std::cell::Cell::new(0);
}

/// Element whose Clone panics at a chosen clone count (it owns nothing, so a destructor run on a slot that was never
/// constructed is counted, not undefined behaviour that matters here).
struct PanicsOnClone(u32);
impl PanicsOnClone {
    fn new(i: u32) -> Self {
        PC_MADE.with(|c| c.set(c.get() + 1));
        PanicsOnClone(i)
    }
}
impl Clone for PanicsOnClone {
    fn clone(&self) -> Self {
        let n = PC_CLONES.with(|c| {
            c.set(c.get() + 1);
            c.get()
        });
        if n == PC_PANIC_AT.with(|c| c.get()) {
            panic!("harness: element clone panics");
        }
        PanicsOnClone::new(self.0)
    }
}
impl Drop for PanicsOnClone {
    fn drop(&mut self) {
        PC_DROPPED.with(|c| c.set(c.get() + 1));
    }
}

/// clone() of a slice value whose element Clone panics part-way (caught): every element that was constructed — the
/// originals and the clones made before the panic — is destroyed exactly once, and nothing else is.
pub fn case_clone_panics(bytes: &[u8], _s: &[u8], ctx: &mut Ctx) -> Result<(), Fail> {
    let mut src = Source::new(bytes);
    let n = 1 + src.below(6);
    let shape = src.below(3); // 0 owned exact, 1 owned with spare capacity, 2 shared
    let panic_at = 1 + src.below(n) as u64;
    let clones_before = src.below(2);
    ctx.case(&("clone panics part-way", n, shape, panic_at, clones_before));
    ctx.nontrivial("element-clone-panics-during-clone-of-the-slice");
    for c in [&PC_MADE, &PC_DROPPED, &PC_CLONES] {
        c.with(|c| c.set(0));
    }
    PC_PANIC_AT.with(|c| c.set(u64::MAX));
    let cow: Cow<'static, [PanicsOnClone]> = match shape {
        0 => Cow::from_owned((0..n as u32).map(PanicsOnClone::new).collect::<Vec<_>>()),
        1 => {
            let mut v = Vec::with_capacity(n + 5);
            v.extend((0..n as u32).map(PanicsOnClone::new));
            Cow::from_owned(v)
        }
        _ => Cow::from_shared((0..n as u32).map(PanicsOnClone::new).collect::<Arc<[PanicsOnClone]>>()),
    };
    let mut kept: Vec<Cow<'static, [PanicsOnClone]>> = Vec::new();
    for _ in 0..clones_before {
        kept.push(cow.clone());
    }
    let already = PC_CLONES.with(|c| c.get());
    PC_PANIC_AT.with(|c| c.set(already + panic_at));
    let hook = std::panic::take_hook();
    std::panic::set_hook(Box::new(|_| {}));
    let r = std::panic::catch_unwind(std::panic::AssertUnwindSafe(|| cow.clone()));
    std::panic::set_hook(hook);
    PC_PANIC_AT.with(|c| c.set(u64::MAX));
    if let Ok(c) = r {
        // (a shared value is cloned without cloning elements: no panic)
        ctx.class("clone-did-not-clone-elements");
        kept.push(c);
    }
    ensure!(cow.len() == n && cow.iter().enumerate().all(|(i, e)| e.0 == i as u32), "content-differs", "after a clone() that panicked the source no longer reads back its {} elements", n);
    drop(kept);
    drop(cow);
    let (made, dropped) = (PC_MADE.with(|c| c.get()), PC_DROPPED.with(|c| c.get()));
    ensure!(made == dropped, "element-drop-count", "{} elements, clone() of the slice with the element clone panicking at its {}-th call: {} elements were constructed in all (originals and completed clones) but {} destructors ran", n, panic_at, made, dropped);
    Ok(())
}

fn probes(pr: &PropRun) -> crate::engine::runner::LaneReport {
    use crate::engine::runner::{LaneReport, Violation};
    use std::process::Command;
    let start = std::time::Instant::now();
    let mut rep = LaneReport::named("ill-typed-programs-rejected");
    rep.exhaustive = true;
    let repo = std::env::var("VERIF_REPO_ROOT").unwrap_or_else(|_| "/repo".to_string());
    // next to the harness's own build output (target/release/harness -> target/probes)
    let dir = std::env::current_exe().ok().and_then(|e| e.parent().and_then(|p| p.parent()).map(|p| p.join("probes"))).unwrap_or_else(|| std::path::PathBuf::from("probes"));
    let harness_dir = crate::engine::report::verif_root().join("harness");
    let setup = (|| -> std::io::Result<()> {
        std::fs::create_dir_all(dir.join("src/bin"))?;
        std::fs::write(dir.join("Cargo.toml"), format!("[package]\nname = \"verif-probes\"\nversion = \"0.0.0\"\nedition = \"2021\"\npublish = false\n\n[workspace]\n\n[dependencies]\nmetrics = {{ path = \"{}/metrics\" }}\n", repo))?;
        for f in ["Cargo.lock", "rust-toolchain.toml"] {
            if let Ok(b) = std::fs::read(harness_dir.join(f)) {
                std::fs::write(dir.join(f), b)?;
            }
        }
        for (name, ty, expr) in PROBES.iter() {
            let src = format!(
                "#![allow(unused_imports)]\nuse metrics::{{Key, KeyName, Label, SharedString}};\n\n/// safe code only: the value returned borrows from `local`, which is dropped here\nfn escape() -> {ty} {{\n    let local = String::from(\"built-from-a-local-string-that-is-dropped\");\n    {expr}\n}}\n\nfn main() {{\n    let v = escape();\n    let junk: Vec<String> = (0..8).map(|_| \"#\".repeat(41)).collect();\n    println!(\"PROBE-RAN {{:?}}\", v);\n    drop(junk);\n}}\n",
                ty = ty,
                expr = expr
            );
            std::fs::write(dir.join("src/bin").join(format!("{}.rs", name)), src)?;
        }
        Ok(())
    })();
    if let Err(e) = setup {
        rep.inconclusive.push(format!("cannot write the probe crate under {:?}: {}", dir, e));
        rep.wall_s = start.elapsed().as_secs_f64();
        return rep;
    }
    const BORROWCK: [&str; 12] = ["E0597", "E0515", "E0716", "E0521", "E0505", "E0506", "E0499", "E0502", "E0503", "E0759", "E0621", "lifetime may not live long enough"];
    for (i, (name, ty, expr)) in PROBES.iter().enumerate() {
        let mut ctx = Ctx::default();
        ctx.fingerprint = Some(i as u64);
        ctx.desc = Some(format!("fn escape() -> {} {{ let local = String::from(..); {} }} must not compile", ty, expr));
        ctx.nontrivial("static-value-from-a-borrow-of-a-local");
        let out = Command::new("cargo").current_dir(&dir).env("CARGO_NET_OFFLINE", "true").env_remove("RUSTFLAGS").args(["check", "--offline", "--quiet", "--bin", name]).output();
        rep.account(ctx);
        match out {
            Err(e) => rep.inconclusive.push(format!("cannot run cargo for probe {}: {}", name, e)),
            Ok(o) if !o.status.success() => {
                let err = String::from_utf8_lossy(&o.stderr);
                if !BORROWCK.iter().any(|c| err.contains(c)) {
                    rep.inconclusive.push(format!("probe {} was rejected, but not by the borrow checker: {}", name, err.lines().find(|l| l.contains("error")).unwrap_or("").trim()));
                }
            }
            Ok(_) => {
                let ran = Command::new("cargo").current_dir(&dir).env("CARGO_NET_OFFLINE", "true").env_remove("RUSTFLAGS").args(["run", "--offline", "--quiet", "--bin", name]).output();
                let shown = ran.map(|r| String::from_utf8_lossy(&r.stdout).lines().last().unwrap_or("").to_string()).unwrap_or_default();
                let sig = "ill-typed-program-accepted".to_string();
                if !pr.cfg.is_known(&sig) {
                    rep.violations.push(Violation { lane: "ill-typed-programs-rejected".into(), sig, msg: format!("safe code `fn escape() -> {} {{ let local = String::from(..); {} }}` compiles: a value usable for 'static is built from a borrow of a local that is dropped on return; running it printed {:?} (built from \"built-from-a-local-string-that-is-dropped\")", ty, expr, shown), bytes: vec![i as u8], sched: vec![], decoded: format!("probe {}", name) });
                    break;
                }
            }
        }
    }
    rep.wall_s = start.elapsed().as_secs_f64();
    rep
}

/// Replay of one probe (bytes[0] = index): the whole lane is cheap, so it is simply run again and the verdict of that
/// probe is reported.
pub fn case_probe_replay(bytes: &[u8], _s: &[u8], ctx: &mut Ctx) -> Result<(), Fail> {
    let i = bytes.first().copied().unwrap_or(0) as usize % PROBES.len();
    ctx.case(&("compile probe", PROBES[i].0));
    let cfg = RunCfg { tier: crate::engine::runner::Tier::Quick, seed: 1, scale: 1.0, strict: true, known: vec![] };
    let pr = PropRun::new("C14", &cfg, RULE);
    let rep = probes(&pr);
    match rep.violations.iter().find(|v| v.bytes.first().map(|b| *b as usize) == Some(i)) {
        Some(v) => Err(Fail::new(&v.sig, v.msg.clone())),
        None => Ok(()),
    }
}

pub fn run(cfg: &RunCfg, replay: Option<&str>) -> i32 {
    let mut pr = PropRun::new("C14", cfg, RULE);
    pr.register("ops-allocation-tracked", &case_tracked);
    pr.register("ops-with-threads", &case_threads);
    pr.register("ill-typed-programs-rejected", &case_probe_replay);
    pr.register("zero-sized-elements", &case_zst);
    pr.register("element-clone-panics", &case_clone_panics);
    if let Some(f) = replay {
        return pr.replay(f);
    }
    pr.assume("the conversion Cow<T> -> std::borrow::Cow<T> requires a sized Cowable, which no type implements, so it cannot be exercised; std::borrow::Cow<str> -> Cow<str> is");
    pr.assume("the compile-probe lane needs `cargo` (the pinned toolchain) at check time; a probe that cannot be built for another reason than the borrow checker makes the lane inconclusive, never a violation");
    pr.assume("a double free or use of freed memory that corrupts the heap kills the supervised worker and is reported as a crash violation; leaks and foreign frees are seen through the per-thread allocation balance, destructor counts through per-instance drop slots");
    let r = pr.run_regressions();
    pr.push(r);
    let c = pr.cfg.clone();
    let r = run_lane(&c, "C14", &Lane { name: "ops-allocation-tracked", cases: c.cases(2_000_000, 30_000_000), max_len: 128, sched_len: 0, workers: 0, f: &case_tracked });
    pr.push(r);
    let r = run_lane(&c, "C14", &Lane { name: "ops-with-threads", cases: c.cases(60_000, 1_000_000), max_len: 128, sched_len: 0, workers: 0, f: &case_threads });
    pr.push(r);
    let r = run_lane(&c, "C14", &Lane { name: "element-clone-panics", cases: c.cases(20_000, 400_000), max_len: 8, sched_len: 0, workers: 1, f: &case_clone_panics });
    pr.push(r);
    let r = run_lane(&c, "C14", &Lane { name: "zero-sized-elements", cases: c.cases(4_000, 100_000), max_len: 8, sched_len: 0, workers: 1, f: &case_zst });
    pr.push(r);
    let r = exhaustive(&pr);
    pr.push(r);
    let r = stress_sole_owner_with_weak(&pr);
    pr.push(r);
    let r = probes(&pr);
    pr.push(r);
    pr.finish()
}
