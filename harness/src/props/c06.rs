//! C06 — the registry keeps exactly one storage per metric kind and key.

use std::{
    collections::{BTreeSet, HashMap},
    sync::{
        atomic::{AtomicU64, Ordering},
        Arc, Mutex,
    },
};

use metrics::Key;
use metrics_util::registry::{Registry, Storage};

use super::c03::{build, Path, Spec};
use crate::{
    engine::{
        report::PropRun,
        runner::{run_lane, Ctx, Fail, Lane, LaneReport, RunCfg, Violation},
        sched::{self, SchedOpts},
        source::Source,
    },
    ensure,
    util::StaticArena,
};

const RULE: &str = "sequential lane: 3-40 operations (get_or_create / get / delete / retain by predicate / clear / visit / get_*_handles / bulk creation of up to 300 keys to force shard collisions and table growth) over a pool of keys that includes equal keys built through different construction paths and label orders, on a registry whose storage counts constructions; a reference map (kind, canonical key) -> storage identity predicts every result. Non-trivial = an equal-but-differently-built key hits an existing entry, or a deleted key is created again. Concurrent lane: 2-3 threads x 1-3 operations on <= 2 keys of one kind under a generated schedule (hook between read-unlock and write-lock); oracle = brute-force linearizability against the sequential map; non-trivial = two creators of one key overlap. Custom-key lane: the same operations on a Registry<DefaultHashable<K>> whose key type has only two hash values for 2-7 unequal keys (non-trivial = a new key collides with a live key of its kind). Stress lane: 16 free-running threads get_or_create+increment shared keys. Process lane: the sequential lane under CPU affinity masks giving 1/2/4/16 shards. Distinct = distinct decoded (case, schedule).";

// ---- storage that counts constructions and gives every storage an identity
#[derive(Debug)]
pub struct Slot {
    pub id: u64,
    pub value: AtomicU64,
}

impl metrics::CounterFn for Slot {
    fn increment(&self, v: u64) {
        self.value.fetch_add(v, Ordering::Relaxed);
    }
    fn absolute(&self, v: u64) {
        self.value.fetch_max(v, Ordering::Relaxed);
    }
}
impl metrics::GaugeFn for Slot {
    fn increment(&self, _: f64) {}
    fn decrement(&self, _: f64) {}
    fn set(&self, _: f64) {}
}
impl metrics::HistogramFn for Slot {
    fn record(&self, _: f64) {}
}

#[derive(Default)]
pub struct Shared {
    next: AtomicU64,
    built: Mutex<Vec<(u8, String)>>,
}

#[derive(Default, Clone)]
pub struct CountingStorage(pub Arc<Shared>);

impl CountingStorage {
    fn mk(&self, kind: u8, key: &Key) -> Arc<Slot> {
        self.0.built.lock().unwrap().push((kind, canon_key(key)));
        Arc::new(Slot { id: self.0.next.fetch_add(1, Ordering::SeqCst) + 1, value: AtomicU64::new(0) })
    }
}

impl Storage<Key> for CountingStorage {
    type Counter = Arc<Slot>;
    type Gauge = Arc<Slot>;
    type Histogram = Arc<Slot>;
    fn counter(&self, key: &Key) -> Arc<Slot> {
        self.mk(0, key)
    }
    fn gauge(&self, key: &Key) -> Arc<Slot> {
        self.mk(1, key)
    }
    fn histogram(&self, key: &Key) -> Arc<Slot> {
        self.mk(2, key)
    }
}

fn canon_key(k: &Key) -> String {
    // bulk keys are unique by construction (their names are never used by the pool keys): their name is their class,
    // which keeps the reference model linear when a case creates thousands of them
    if k.name().starts_with("bulk") && k.labels().len() == 0 {
        return k.name().to_string();
    }
    class_of(k)
}

thread_local! {
    /// representatives of the key-equality classes seen in the current case (decided by `Key::eq`
    /// itself: the property says the registry compares keys by key equality)
    static CLASSES: std::cell::RefCell<Vec<Key>> = std::cell::RefCell::new(Vec::new());
}

fn reset_classes() {
    CLASSES.with(|c| c.borrow_mut().clear());
}

fn class_of(k: &Key) -> String {
    CLASSES.with(|c| {
        let mut c = c.borrow_mut();
        if let Some(i) = c.iter().position(|r| r == k) {
            return format!("class{}", i);
        }
        c.push(Key::from_parts(k.name().to_string(), k.labels().cloned().collect::<Vec<_>>()));
        format!("class{}", c.len() - 1)
    })
}

fn canon_spec(s: &Spec) -> String {
    let k = Key::from_parts(s.name.clone(), s.labels.iter().map(|(a, b)| metrics::Label::new(a.clone(), b.clone())).collect::<Vec<_>>());
    class_of(&k)
}

const PATHS: [Path; 10] = [Path::PartsOwned, Path::PartsStatic, Path::PartsArc, Path::StaticParts, Path::TupleSlice, Path::CloneOfStatic, Path::Extra(0), Path::Extra(1), Path::StaticLabels, Path::CloneOfOwned];

#[derive(Debug, Clone)]
enum Op {
    GetOrCreate(u8, usize, usize, bool), // kind, key, path, permute labels
    Get(u8, usize, usize),
    Delete(u8, usize, usize),
    RetainHasLabel(u8, String),
    Clear,
    Visit(u8),
    Handles(u8),
    Bulk(u8, usize),
}

#[derive(Debug)]
struct Case {
    specs: Vec<Spec>,
    ops: Vec<Op>,
}

fn decode(src: &mut Source) -> Case {
    let nk = 1 + src.below(6);
    let specs: Vec<Spec> = (0..nk)
        .map(|_| {
            let mut labels = vec![];
            for ln in ["a", "b", "c", "d", "a"] {
                if src.chance(100) {
                    labels.push((ln.to_string(), src.pick(&["1", "2"]).to_string()));
                }
            }
            Spec { name: src.pick(&["m", "n", "mm"]).to_string(), labels }
        })
        .collect();
    let n = 3 + src.below(38);
    let ops = (0..n)
        .map(|_| {
            let kind = src.below(3) as u8;
            match src.below(14) {
                0..=4 => Op::GetOrCreate(kind, src.below(nk), src.below(PATHS.len()), src.bool()),
                5 | 6 => Op::Get(kind, src.below(nk), src.below(PATHS.len())),
                7 | 8 => Op::Delete(kind, src.below(nk), src.below(PATHS.len())),
                9 => Op::RetainHasLabel(kind, src.pick(&["a", "b", "zz"]).to_string()),
                10 => {
                    if src.chance(64) {
                        Op::Clear
                    } else {
                        Op::Visit(kind)
                    }
                }
                11 => Op::Visit(kind),
                12 => Op::Handles(kind),
                _ => Op::Bulk(kind, 1 + src.below(300)),
            }
        })
        .collect();
    Case { specs, ops }
}

fn permuted(s: &Spec, on: bool) -> Spec {
    let mut s = s.clone();
    if on {
        s.labels.reverse();
    }
    s
}

macro_rules! by_kind {
    ($kind:expr, $reg:expr, $c:ident, $g:ident, $h:ident, $($args:tt)*) => {
        match $kind {
            0 => $reg.$c($($args)*),
            1 => $reg.$g($($args)*),
            _ => $reg.$h($($args)*),
        }
    };
}

fn run_sequential(case: &Case, ctx: &mut Ctx) -> Result<(), Fail> {
    reset_classes();
    let shared = Arc::new(Shared::default());
    let registry: Registry<Key, CountingStorage> = Registry::new(CountingStorage(shared.clone()));
    let registry_storage_count = |c: &(u8, String)| shared.built.lock().unwrap().iter().filter(|b| *b == c).count();
    let mut arena = StaticArena::new();
    let mut model: HashMap<(u8, String), u64> = HashMap::new();
    let mut built_by_path: HashMap<(u8, String), (usize, bool)> = HashMap::new();
    let mut deleted_once: BTreeSet<(u8, String)> = BTreeSet::new();
    let mut all_ids: BTreeSet<u64> = BTreeSet::new();
    let mut bulk_n = 0usize;
    for (si, op) in case.ops.iter().enumerate() {
        match op {
            Op::GetOrCreate(kind, k, path, perm) => {
                let spec = permuted(&case.specs[*k], *perm);
                let key = build(&spec, PATHS[*path], &mut arena);
                let c = (*kind, canon_spec(&spec));
                let built_before = registry_storage_count(&c);
                let got: Arc<Slot> = by_kind!(*kind, registry, get_or_create_counter, get_or_create_gauge, get_or_create_histogram, &key, |s| s.clone());
                let built_after = registry_storage_count(&c);
                match model.get(&c) {
                    Some(id) => {
                        ensure!(got.id == *id, "equal-key-got-different-storage", "step {}: get_or_create({:?}) returned storage #{} but #{} is registered for an equal key", si, spec, got.id, id);
                        ensure!(built_after == built_before, "storage-constructed-for-existing-key", "step {}: a storage was constructed although the key exists", si);
                        if built_by_path.get(&c).map(|p| *p != (*path, *perm)).unwrap_or(false) {
                            ctx.nontrivial("differently-built-equal-key-hits-entry");
                        }
                    }
                    None => {
                        ensure!(!all_ids.contains(&got.id), "new-key-aliases-other-storage", "step {}: a new (kind, key) was handed storage #{} which belongs to another key or kind", si, got.id);
                        ensure!(built_after == built_before + 1, "construction-count-wrong", "step {}: creating a key constructed {} storages", si, built_after - built_before);
                        all_ids.insert(got.id);
                        model.insert(c.clone(), got.id);
                        built_by_path.insert(c.clone(), (*path, *perm));
                        if deleted_once.contains(&c) {
                            ctx.nontrivial("deleted-key-created-again");
                        }
                    }
                }
            }
            Op::Get(kind, k, path) => {
                let key = build(&case.specs[*k], PATHS[*path], &mut arena);
                let c = (*kind, canon_spec(&case.specs[*k]));
                let got: Option<Arc<Slot>> = by_kind!(*kind, registry, get_counter, get_gauge, get_histogram, &key);
                ensure!(got.as_ref().map(|s| s.id) == model.get(&c).copied(), "get-wrong", "step {}: get({:?}) returned {:?}, model says {:?}", si, case.specs[*k], got.map(|s| s.id), model.get(&c));
            }
            Op::Delete(kind, k, path) => {
                let key = build(&case.specs[*k], PATHS[*path], &mut arena);
                let c = (*kind, canon_spec(&case.specs[*k]));
                let got: bool = by_kind!(*kind, registry, delete_counter, delete_gauge, delete_histogram, &key);
                let want = model.remove(&c).is_some();
                ensure!(got == want, "delete-reported-wrongly", "step {}: delete({:?}) returned {} but the key {}", si, case.specs[*k], got, if want { "existed" } else { "did not exist" });
                if want {
                    deleted_once.insert(c);
                }
            }
            Op::RetainHasLabel(kind, label) => {
                let pred = |k: &Key, _: &Arc<Slot>| k.labels().any(|l| l.key() == label);
                by_kind!(*kind, registry, retain_counters, retain_gauges, retain_histograms, pred);
                let has_label: Vec<bool> = CLASSES.with(|c| c.borrow().iter().map(|k| k.labels().any(|l| l.key() == label)).collect());
                model.retain(|(mk, c), _| *mk != *kind || (c.starts_with("class") && has_label[c[5..].parse::<usize>().unwrap()]));
            }
            Op::Clear => {
                registry.clear();
                model.clear();
            }
            Op::Visit(kind) => {
                let mut seen: Vec<(String, u64)> = vec![];
                let f = |k: &Key, s: &Arc<Slot>| seen.push((canon_key(k), s.id));
                by_kind!(*kind, registry, visit_counters, visit_gauges, visit_histograms, f);
                let mut want: Vec<(String, u64)> = model.iter().filter(|((mk, _), _)| mk == kind).map(|((_, c), id)| (c.clone(), *id)).collect();
                seen.sort();
                want.sort();
                ensure!(seen == want, "visit-differs-from-live-keys", "step {}: visit reported {} entries, {} are live (each must appear exactly once)", si, seen.len(), want.len());
            }
            Op::Handles(kind) => {
                let h = by_kind!(*kind, registry, get_counter_handles, get_gauge_handles, get_histogram_handles,);
                let mut seen: Vec<(String, u64)> = h.iter().map(|(k, s)| (canon_key(k), s.id)).collect();
                let mut want: Vec<(String, u64)> = model.iter().filter(|((mk, _), _)| mk == kind).map(|((_, c), id)| (c.clone(), *id)).collect();
                seen.sort();
                want.sort();
                ensure!(seen == want, "handles-differ-from-live-keys", "step {}: handle listing has {} entries, {} are live", si, seen.len(), want.len());
            }
            Op::Bulk(kind, n) => {
                for _ in 0..*n {
                    bulk_n += 1;
                    let key = Key::from_name(format!("bulk{}", bulk_n));
                    let got: Arc<Slot> = by_kind!(*kind, registry, get_or_create_counter, get_or_create_gauge, get_or_create_histogram, &key, |s| s.clone());
                    ensure!(all_ids.insert(got.id), "new-key-aliases-other-storage", "bulk key got an existing storage #{}", got.id);
                    model.insert((*kind, canon_key(&key)), got.id);
                }
                ctx.class("bulk-creation");
            }
        }
    }
    // final listing of all kinds
    for kind in 0..3u8 {
        let h = by_kind!(kind, registry, get_counter_handles, get_gauge_handles, get_histogram_handles,);
        let want = model.iter().filter(|((mk, _), _)| *mk == kind).count();
        ensure!(h.len() == want, "handles-differ-from-live-keys", "final listing of kind {} has {} entries, {} are live", kind, h.len(), want);
    }
    drop(registry);
    drop(arena);
    Ok(())
}

// ---------------------------------------------------------------- custom key type with colliding hashes
//
// The registry is generic over its key: anything `Eq + Hashable`. A key type whose hash is coarser than
// its equality (legal Rust) makes unequal keys meet in one hash bucket, so every place that decides
// "same key" by the hash alone shows up as two keys sharing a storage.

#[derive(Debug, Clone, PartialEq, Eq)]
pub struct CoarseKey {
    id: u8,
    pad: String,
}
impl std::hash::Hash for CoarseKey {
    fn hash<H: std::hash::Hasher>(&self, h: &mut H) {
        h.write_u8(self.id & 1); // two hash values for the whole key space
    }
}
type CKey = metrics_util::DefaultHashable<CoarseKey>;

#[derive(Default, Clone)]
pub struct CoarseStorage(Arc<AtomicU64>, Arc<Mutex<Vec<(u8, u8)>>>);
impl CoarseStorage {
    fn mk(&self, kind: u8, key: &CKey) -> Arc<Slot> {
        self.1.lock().unwrap().push((kind, key.0.id));
        Arc::new(Slot { id: self.0.fetch_add(1, Ordering::SeqCst) + 1, value: AtomicU64::new(0) })
    }
}
impl Storage<CKey> for CoarseStorage {
    type Counter = Arc<Slot>;
    type Gauge = Arc<Slot>;
    type Histogram = Arc<Slot>;
    fn counter(&self, key: &CKey) -> Arc<Slot> {
        self.mk(0, key)
    }
    fn gauge(&self, key: &CKey) -> Arc<Slot> {
        self.mk(1, key)
    }
    fn histogram(&self, key: &CKey) -> Arc<Slot> {
        self.mk(2, key)
    }
}

#[derive(Debug)]
enum KOp {
    GetOrCreate(u8, u8),
    Get(u8, u8),
    Delete(u8, u8),
    RetainBelow(u8, u8),
    Clear,
    Visit(u8),
    Handles(u8),
}

pub fn case_custom_key(bytes: &[u8], _s: &[u8], ctx: &mut Ctx) -> Result<(), Fail> {
    let mut src = Source::new(bytes);
    let nk = 2 + src.below(6) as u8;
    let n = 3 + src.below(38);
    let ops: Vec<KOp> = (0..n)
        .map(|_| {
            let kind = src.below(3) as u8;
            let k = src.below(nk as usize) as u8;
            match src.below(12) {
                0..=4 => KOp::GetOrCreate(kind, k),
                5 | 6 => KOp::Get(kind, k),
                7 | 8 => KOp::Delete(kind, k),
                9 => {
                    if src.chance(80) {
                        KOp::Clear
                    } else {
                        KOp::RetainBelow(kind, k)
                    }
                }
                10 => KOp::Visit(kind),
                _ => KOp::Handles(kind),
            }
        })
        .collect();
    ctx.case(&(nk, &ops));
    let storage = CoarseStorage::default();
    let built = storage.1.clone();
    let registry: Registry<CKey, CoarseStorage> = Registry::new(storage);
    let mk = |id: u8| metrics_util::DefaultHashable(CoarseKey { id, pad: format!("key-{}", id) });
    let mut model: HashMap<(u8, u8), u64> = HashMap::new();
    let mut all_ids: BTreeSet<u64> = BTreeSet::new();
    for (si, op) in ops.iter().enumerate() {
        match op {
            KOp::GetOrCreate(kind, k) => {
                let key = mk(*k);
                let before = built.lock().unwrap().len();
                let got: Arc<Slot> = by_kind!(*kind, registry, get_or_create_counter, get_or_create_gauge, get_or_create_histogram, &key, |s| s.clone());
                let constructed = built.lock().unwrap().len() - before;
                match model.get(&(*kind, *k)) {
                    Some(id) => {
                        ensure!(got.id == *id, "equal-key-got-different-storage", "step {}: get_or_create(kind {}, key {}) returned storage #{} but #{} is registered for that key", si, kind, k, got.id, id);
                        ensure!(constructed == 0, "storage-constructed-for-existing-key", "step {}: a storage was constructed although the key exists", si);
                    }
                    None => {
                        ensure!(!all_ids.contains(&got.id), "different-keys-share-storage", "step {}: creating (kind {}, key {}) returned storage #{}, which belongs to another key (the two keys are unequal but hash alike)", si, kind, k, got.id);
                        ensure!(constructed == 1, "construction-count-wrong", "step {}: creating a key constructed {} storages", si, constructed);
                        if model.keys().any(|(mk2, k2)| mk2 == kind && (k2 & 1) == (k & 1)) {
                            ctx.nontrivial("new-key-collides-with-live-key-of-its-kind");
                        }
                        all_ids.insert(got.id);
                        model.insert((*kind, *k), got.id);
                    }
                }
            }
            KOp::Get(kind, k) => {
                let got: Option<Arc<Slot>> = by_kind!(*kind, registry, get_counter, get_gauge, get_histogram, &mk(*k));
                ensure!(got.as_ref().map(|s| s.id) == model.get(&(*kind, *k)).copied(), "get-wrong", "step {}: get(kind {}, key {}) returned {:?}, model says {:?}", si, kind, k, got.map(|s| s.id), model.get(&(*kind, *k)));
            }
            KOp::Delete(kind, k) => {
                let got: bool = by_kind!(*kind, registry, delete_counter, delete_gauge, delete_histogram, &mk(*k));
                let want = model.remove(&(*kind, *k)).is_some();
                ensure!(got == want, "delete-reported-wrongly", "step {}: delete(kind {}, key {}) returned {} but the key {}", si, kind, k, got, if want { "existed" } else { "did not exist" });
            }
            KOp::RetainBelow(kind, lim) => {
                let pred = |k: &CKey, _: &Arc<Slot>| k.0.id < *lim;
                by_kind!(*kind, registry, retain_counters, retain_gauges, retain_histograms, pred);
                model.retain(|(mk2, k), _| mk2 != kind || k < lim);
            }
            KOp::Clear => {
                registry.clear();
                model.clear();
            }
            KOp::Visit(kind) => {
                let mut seen: Vec<(u8, u64)> = vec![];
                let f = |k: &CKey, s: &Arc<Slot>| seen.push((k.0.id, s.id));
                by_kind!(*kind, registry, visit_counters, visit_gauges, visit_histograms, f);
                let mut want: Vec<(u8, u64)> = model.iter().filter(|((mk2, _), _)| mk2 == kind).map(|((_, k), id)| (*k, *id)).collect();
                seen.sort();
                want.sort();
                ensure!(seen == want, "visit-differs-from-live-keys", "step {}: visit of kind {} reported {:?}, live are {:?}", si, kind, seen, want);
            }
            KOp::Handles(kind) => {
                let h = by_kind!(*kind, registry, get_counter_handles, get_gauge_handles, get_histogram_handles,);
                let mut seen: Vec<(u8, u64)> = h.iter().map(|(k, s)| (k.0.id, s.id)).collect();
                let mut want: Vec<(u8, u64)> = model.iter().filter(|((mk2, _), _)| mk2 == kind).map(|((_, k), id)| (*k, *id)).collect();
                seen.sort();
                want.sort();
                ensure!(seen == want, "handles-differ-from-live-keys", "step {}: handle listing of kind {} is {:?}, live are {:?}", si, kind, seen, want);
            }
        }
    }
    for kind in 0..3u8 {
        let h = by_kind!(kind, registry, get_counter_handles, get_gauge_handles, get_histogram_handles,);
        let want = model.iter().filter(|((mk2, _), _)| *mk2 == kind).count();
        ensure!(h.len() == want, "handles-differ-from-live-keys", "final listing of kind {} has {} entries, {} are live", kind, h.len(), want);
    }
    Ok(())
}

pub fn case_seq(bytes: &[u8], _s: &[u8], ctx: &mut Ctx) -> Result<(), Fail> {
    let mut src = Source::new(bytes);
    let case = decode(&mut src);
    ctx.case(&case);
    run_sequential(&case, ctx)
}


// ---------------------------------------------------------------- concurrent lane: linearizability

#[derive(Debug, Clone, Copy, PartialEq)]
enum COp {
    GetOrCreate(usize),
    Get(usize),
    Delete(usize),
}

#[derive(Debug, Clone, Copy, PartialEq)]
enum CRes {
    Id(u64),
    Opt(Option<u64>),
    Bool(bool),
}

#[derive(Debug)]
struct ConcCase {
    kind: u8,
    threads: Vec<Vec<COp>>,
}

#[derive(Debug, Clone)]
struct Done {
    op: COp,
    res: CRes,
    start: usize,
    end: usize,
}

/// Brute-force search for a linearization consistent with real-time order.
fn linearizable(ops: &[Done]) -> bool {
    fn go(ops: &[Done], used: &mut Vec<bool>, state: &mut [Option<u64>; 2], created: &mut Vec<u64>) -> bool {
        if used.iter().all(|u| *u) {
            return true;
        }
        for i in 0..ops.len() {
            if used[i] {
                continue;
            }
            // i may go next only if no other unused op finished before i started
            if (0..ops.len()).any(|j| !used[j] && j != i && ops[j].end < ops[i].start) {
                continue;
            }
            let saved = (*state, created.len());
            let ok = match (ops[i].op, ops[i].res) {
                (COp::GetOrCreate(k), CRes::Id(id)) => match state[k] {
                    Some(cur) => cur == id,
                    None => {
                        if created.contains(&id) {
                            false
                        } else {
                            created.push(id);
                            state[k] = Some(id);
                            true
                        }
                    }
                },
                (COp::Get(k), CRes::Opt(o)) => state[k] == o,
                (COp::Delete(k), CRes::Bool(b)) => {
                    let had = state[k].is_some();
                    state[k] = None;
                    had == b
                }
                _ => false,
            };
            if ok {
                used[i] = true;
                if go(ops, used, state, created) {
                    return true;
                }
                used[i] = false;
            }
            *state = saved.0;
            created.truncate(saved.1);
        }
        false
    }
    go(ops, &mut vec![false; ops.len()], &mut [None, None], &mut vec![])
}

pub fn case_conc(bytes: &[u8], sched_bytes: &[u8], ctx: &mut Ctx) -> Result<(), Fail> {
    let mut src = Source::new(bytes);
    let kind = src.below(3) as u8;
    let nt = 2 + src.below(2);
    let threads: Vec<Vec<COp>> = (0..nt)
        .map(|_| {
            (0..1 + src.below(3))
                .map(|_| {
                    let k = src.below(2);
                    match src.below(5) {
                        0 | 1 | 2 => COp::GetOrCreate(k),
                        3 => COp::Delete(k),
                        _ => COp::Get(k),
                    }
                })
                .collect()
        })
        .collect();
    let case = ConcCase { kind, threads };
    ctx.case(&(&case, sched_bytes));
    let shared = Arc::new(Shared::default());
    let registry: Registry<Key, CountingStorage> = Registry::new(CountingStorage(shared.clone()));
    let keys = [Key::from_name("k0"), Key::from_parts("k1", vec![metrics::Label::new("a", "1")])];
    let log: Mutex<Vec<(usize, usize, bool, COp, Option<CRes>)>> = Mutex::new(vec![]); // (thread, opidx, is_end, op, res)
    let mut bodies: Vec<Box<dyn FnOnce() + Send + '_>> = Vec::new();
    for (t, ops) in case.threads.iter().enumerate() {
        let (registry, keys, log) = (&registry, &keys, &log);
        bodies.push(Box::new(move || {
            for (i, op) in ops.iter().enumerate() {
                log.lock().unwrap().push((t, i, false, *op, None));
                let res = match op {
                    COp::GetOrCreate(k) => CRes::Id(by_kind!(kind, registry, get_or_create_counter, get_or_create_gauge, get_or_create_histogram, &keys[*k], |s| s.id)),
                    COp::Get(k) => {
                        let o: Option<Arc<Slot>> = by_kind!(kind, registry, get_counter, get_gauge, get_histogram, &keys[*k]);
                        CRes::Opt(o.map(|s| s.id))
                    }
                    COp::Delete(k) => CRes::Bool(by_kind!(kind, registry, delete_counter, delete_gauge, delete_histogram, &keys[*k])),
                };
                log.lock().unwrap().push((t, i, true, *op, Some(res)));
                sched::point("c06.op_done");
            }
        }));
    }
    let out = sched::explore(sched_bytes, SchedOpts { max_steps: 2000, ..Default::default() }, bodies);
    if out.budget_exhausted {
        ctx.discard = true;
        return Ok(());
    }
    ensure!(out.panics.is_empty(), "panic-in-thread", "{:?}", out.panics);
    ensure!(!out.livelock, "livelock", "{:?}", out.trace);
    let log = log.into_inner().unwrap();
    let mut done: Vec<Done> = vec![];
    for (idx, (t, i, is_end, op, _)) in log.iter().enumerate() {
        if !*is_end {
            let (eidx, res) = log.iter().enumerate().find(|(_, e)| e.0 == *t && e.1 == *i && e.2).map(|(j, e)| (j, e.4.unwrap())).unwrap();
            done.push(Done { op: *op, res, start: idx, end: eidx });
        }
    }
    ensure!(linearizable(&done), "history-not-linearizable", "no ordering of the operations consistent with their real-time order explains the results as one atomic map per kind: {:?} ; trace {:?}", done, out.trace);
    // non-trivial: two get_or_create of the same key overlap in time
    let overlap = done.iter().enumerate().any(|(a, x)| done.iter().enumerate().any(|(b, y)| a < b && matches!((x.op, y.op), (COp::GetOrCreate(k1), COp::GetOrCreate(k2)) if k1 == k2) && x.start < y.end && y.start < x.end));
    if overlap {
        ctx.nontrivial("overlapping-creators-of-one-key");
    }
    // final: constructions of still-live keys at most one per key since the last delete is implied by linearizability of ids
    Ok(())
}

fn stress(pr: &PropRun) -> LaneReport {
    let start = std::time::Instant::now();
    let mut rep = LaneReport::named("stress-shared-keys");
    let rounds = pr.cfg.cases(40, 2000);
    for round in 0..rounds {
        let shared = Arc::new(Shared::default());
        let registry: Registry<Key, CountingStorage> = Registry::new(CountingStorage(shared.clone()));
        let nkeys = 1 + (round as usize % 5);
        let per = 3000usize;
        let go = std::sync::atomic::AtomicBool::new(false);
        std::thread::scope(|s| {
            for t in 0..16usize {
                let (registry, go) = (&registry, &go);
                s.spawn(move || {
                    while !go.load(Ordering::Acquire) {
                        std::hint::spin_loop();
                    }
                    for i in 0..per {
                        let key = Key::from_parts("shared", vec![metrics::Label::new("k", ((i + t) % nkeys).to_string())]);
                        registry.get_or_create_counter(&key, |s| s.value.fetch_add(1, Ordering::Relaxed));
                    }
                });
            }
            go.store(true, Ordering::Release);
        });
        let handles = registry.get_counter_handles();
        let total: u64 = handles.values().map(|s| s.value.load(Ordering::SeqCst)).sum();
        let built = shared.built.lock().unwrap().len();
        let mut ctx = Ctx::default();
        ctx.fingerprint = Some(round);
        ctx.nontrivial("sixteen-threads-racing-to-create");
        if round == 0 {
            ctx.desc = Some(format!("16 threads x {} get_or_create+increment over {} shared keys released together", per, nkeys));
        }
        rep.account(ctx);
        if handles.len() != nkeys || built != nkeys || total != (16 * per) as u64 {
            rep.violations.push(Violation { lane: "stress-shared-keys".into(), sig: "stress-duplicate-storage-or-lost-update".into(), msg: format!("{} keys: listing has {} entries, {} storages were constructed, increments total {} of {}", nkeys, handles.len(), built, total, 16 * per), bytes: vec![], sched: vec![], decoded: format!("round {} (free-running)", round) });
            break;
        }
    }
    rep.wall_s = start.elapsed().as_secs_f64();
    rep
}

/// Free-running stress on removal: several threads delete the same present key of every kind at the same moment
/// (exactly one may report that it removed something), and deleters race creators (afterwards the key is either
/// gone or holds the storage the last creation returned).
fn stress_delete(pr: &PropRun) -> LaneReport {
    let start = std::time::Instant::now();
    let mut rep = LaneReport::named("stress-racing-deletes");
    let rounds = pr.cfg.cases(4_000, 200_000) as usize;
    let nthreads = 4usize;
    let shared = Arc::new(Shared::default());
    let registry: Registry<Key, CountingStorage> = Registry::new(CountingStorage(shared.clone()));
    let round = std::sync::atomic::AtomicUsize::new(0);
    let done = std::sync::atomic::AtomicUsize::new(0);
    let removed = std::sync::atomic::AtomicUsize::new(0);
    let stop = std::sync::atomic::AtomicBool::new(false);
    let mut bad: Option<(String, String)> = None;
    std::thread::scope(|s| {
        for _ in 0..nthreads {
            let (registry, round, done, removed, stop) = (&registry, &round, &done, &removed, &stop);
            s.spawn(move || {
                let mut seen = 0usize;
                while !stop.load(Ordering::Acquire) {
                    let r = round.load(Ordering::Acquire);
                    if r == seen {
                        std::hint::spin_loop();
                        continue;
                    }
                    seen = r;
                    let key = Key::from_parts("victim", vec![metrics::Label::new("r", ((r - 1) % 5).to_string())]);
                    let ok: bool = by_kind!(((r - 1) % 3) as u8, registry, delete_counter, delete_gauge, delete_histogram, &key);
                    if ok {
                        removed.fetch_add(1, Ordering::AcqRel);
                    }
                    done.fetch_add(1, Ordering::AcqRel);
                }
            });
        }
        for r in 0..rounds {
            let kind = (r % 3) as u8;
            let key = Key::from_parts("victim", vec![metrics::Label::new("r", (r % 5).to_string())]);
            let _: u64 = by_kind!(kind, registry, get_or_create_counter, get_or_create_gauge, get_or_create_histogram, &key, |s| s.id);
            removed.store(0, Ordering::Release);
            done.store(0, Ordering::Release);
            round.store(r + 1, Ordering::Release);
            while done.load(Ordering::Acquire) < nthreads {
                std::hint::spin_loop();
            }
            let n = removed.load(Ordering::Acquire);
            let still: bool = match kind {
                0 => registry.get_counter(&key).is_some(),
                1 => registry.get_gauge(&key).is_some(),
                _ => registry.get_histogram(&key).is_some(),
            };
            if n != 1 || still {
                bad = Some(("delete-reported-wrongly".into(), format!("round {}: one storage of kind {} existed for the key; {} threads deleted it at the same moment and {} of them reported having removed it (entry still present afterwards: {})", r, kind, nthreads, n, still)));
                break;
            }
        }
        stop.store(true, Ordering::Release);
    });
    let mut ctx = Ctx::default();
    ctx.fingerprint = Some(1);
    ctx.nontrivial("several-threads-delete-one-present-key");
    ctx.desc = Some(format!("{} rounds: a key of kind round%3 is created, then {} free-running threads delete it at the same moment; exactly one delete may return true", rounds, nthreads));
    rep.account(ctx);
    rep.evaluations = rounds as u64;
    if let Some((sig, msg)) = bad {
        rep.violations.push(Violation { lane: "stress-racing-deletes".into(), sig, msg, bytes: vec![], sched: vec![], decoded: "free-running threads (not deterministically replayable)".into() });
    }
    rep.wall_s = start.elapsed().as_secs_f64();
    rep
}

/// Free-running stress: creators run `get_or_create_*(key, |s| s += 1)` while a sweeper keeps removing storages that are
/// still at zero (the idle-sweep pattern). The closure runs on the entry atomically with its creation, so a storage is
/// never visible at zero: nothing is ever swept, one storage per key is built and it ends at the number of operations.
fn stress_create_vs_sweep(pr: &PropRun) -> LaneReport {
    let start = std::time::Instant::now();
    let mut rep = LaneReport::named("stress-create-vs-sweep");
    let rounds = pr.cfg.cases(300, 10_000);
    let mut bad: Option<(String, String)> = None;
    for round in 0..rounds {
        let shared = Arc::new(Shared::default());
        let registry: Registry<Key, CountingStorage> = Registry::new(CountingStorage(shared.clone()));
        let kind = (round % 3) as u8;
        let nkeys = 24usize;
        let stop = std::sync::atomic::AtomicBool::new(false);
        let go = std::sync::atomic::AtomicBool::new(false);
        std::thread::scope(|s| {
            for t in 0..3usize {
                let (registry, go) = (&registry, &go);
                s.spawn(move || {
                    while !go.load(Ordering::Acquire) {
                        std::hint::spin_loop();
                    }
                    for i in 0..nkeys {
                        let key = Key::from_parts("fresh", vec![metrics::Label::new("k", ((i + t * 7) % nkeys).to_string())]);
                        let _: u64 = by_kind!(kind, registry, get_or_create_counter, get_or_create_gauge, get_or_create_histogram, &key, |s| s.value.fetch_add(1, Ordering::SeqCst));
                    }
                });
            }
            {
                let (registry, go, stop) = (&registry, &go, &stop);
                s.spawn(move || {
                    while !go.load(Ordering::Acquire) {
                        std::hint::spin_loop();
                    }
                    while !stop.load(Ordering::Acquire) {
                        let keep = |_: &Key, s: &Arc<Slot>| s.value.load(Ordering::SeqCst) != 0;
                        by_kind!(kind, registry, retain_counters, retain_gauges, retain_histograms, keep);
                    }
                });
            }
            go.store(true, Ordering::Release);
            // the scope joins the creators; the sweeper is told to stop once they are done
            std::thread::sleep(std::time::Duration::from_micros(300));
            stop.store(true, Ordering::Release);
        });
        // (creators may still have been running when stop was set: the scope has joined everybody by now)
        let total: u64 = match kind {
            0 => registry.get_counter_handles().values().map(|s| s.value.load(Ordering::SeqCst)).sum(),
            1 => registry.get_gauge_handles().values().map(|s| s.value.load(Ordering::SeqCst)).sum(),
            _ => registry.get_histogram_handles().values().map(|s| s.value.load(Ordering::SeqCst)).sum(),
        };
        let built = shared.built.lock().unwrap().len();
        let mut ctx = Ctx::default();
        ctx.fingerprint = Some(round);
        ctx.nontrivial("creators-race-an-idle-sweep");
        if round == 0 {
            ctx.desc = Some(format!("3 threads x get_or_create(key, |s| s += 1) over {} keys of one kind while a fourth thread sweeps storages that are at zero", nkeys));
        }
        rep.account(ctx);
        if built != nkeys || total != (3 * nkeys) as u64 {
            bad = Some(("freshly-created-storage-swept-before-its-first-operation".into(), format!("round {} (kind {}): {} keys, {} storages were constructed and the surviving ones hold {} of {} operations — a sweep of zero-valued storages removed one between its creation and the operation the creating call runs on it", round, kind, nkeys, built, total, 3 * nkeys)));
            break;
        }
    }
    if let Some((sig, msg)) = bad {
        rep.violations.push(Violation { lane: "stress-create-vs-sweep".into(), sig, msg, bytes: vec![], sched: vec![], decoded: "free-running threads (not deterministically replayable)".into() });
    }
    rep.wall_s = start.elapsed().as_secs_f64();
    rep
}

/// Free-running stress: several threads make the *first* use of one shared, lazily hashed `Key` object (the
/// `from_static_*` constructors memoise the hash on first use) at the same moment, through `get_or_create_*`.
/// The name is long, so the first hash computation takes tens of microseconds and the others arrive inside it.
/// Whatever they see of the memoisation, there must be one storage for the key, holding every operation, and an
/// equal key built eagerly afterwards must reach it.
fn stress_first_use_of_shared_key(pr: &PropRun) -> LaneReport {
    static LONG: std::sync::OnceLock<&'static str> = std::sync::OnceLock::new();
    static LABELS: [metrics::Label; 2] = [metrics::Label::from_static_parts("shard", "s"), metrics::Label::from_static_parts("zone", "z")];
    let long: &'static str = LONG.get_or_init(|| Box::leak(format!("first_use_{}", "n".repeat(48 * 1024)).into_boxed_str()));
    let start = std::time::Instant::now();
    let mut rep = LaneReport::named("stress-first-use-of-a-shared-key");
    let rounds = pr.cfg.cases(3_000, 60_000);
    let nthreads = 4usize;
    let mut bad: Option<(String, String)> = None;
    for round in 0..rounds {
        let shared = Arc::new(Shared::default());
        let registry: Registry<Key, CountingStorage> = Registry::new(CountingStorage(shared.clone()));
        let kind = (round % 3) as u8;
        let key = if round % 2 == 0 { Key::from_static_name(long) } else { Key::from_static_parts(long, &LABELS) };
        let go = std::sync::atomic::AtomicBool::new(false);
        std::thread::scope(|s| {
            for _ in 0..nthreads {
                let (registry, go, key) = (&registry, &go, &key);
                s.spawn(move || {
                    while !go.load(Ordering::Acquire) {
                        std::hint::spin_loop();
                    }
                    let _: u64 = by_kind!(kind, registry, get_or_create_counter, get_or_create_gauge, get_or_create_histogram, key, |s| s.value.fetch_add(1, Ordering::SeqCst));
                });
            }
            go.store(true, Ordering::Release);
        });
        let values: Vec<u64> = match kind {
            0 => registry.get_counter_handles().values().map(|s| s.value.load(Ordering::SeqCst)).collect(),
            1 => registry.get_gauge_handles().values().map(|s| s.value.load(Ordering::SeqCst)).collect(),
            _ => registry.get_histogram_handles().values().map(|s| s.value.load(Ordering::SeqCst)).collect(),
        };
        let mut visited = 0usize;
        match kind {
            0 => registry.visit_counters(|_, _| visited += 1),
            1 => registry.visit_gauges(|_, _| visited += 1),
            _ => registry.visit_histograms(|_, _| visited += 1),
        }
        let built = shared.built.lock().unwrap().len();
        // an equal key built eagerly (hashed at construction) must find the same storage
        let eager = if round % 2 == 0 { Key::from_name(long.to_string()) } else { Key::from_parts(long.to_string(), LABELS.to_vec()) };
        let seen_by_eager: u64 = by_kind!(kind, registry, get_or_create_counter, get_or_create_gauge, get_or_create_histogram, &eager, |s| s.value.load(Ordering::SeqCst));
        let built_after = shared.built.lock().unwrap().len();
        let mut ctx = Ctx::default();
        ctx.fingerprint = Some(round);
        ctx.nontrivial("threads-race-the-first-hash-of-one-key-object");
        if round == 0 {
            ctx.desc = Some(format!("{} threads x get_or_create(&key, |s| s += 1) on one never-hashed Key::from_static_* object with a 48 KiB name", nthreads));
        }
        rep.account(ctx);
        if built != 1 || visited != 1 || values != vec![nthreads as u64] || key.get_hash() != eager.get_hash() || seen_by_eager != nthreads as u64 || built_after != 1 {
            bad = Some(("two-storages-for-one-key-object".into(), format!("round {} (kind {}): {} threads made the first use of one shared key object at once: {} storages were constructed, a visit shows {} entries holding {:?} operations (expected one entry holding {}), an equal eagerly hashed key sees {} and brings the storages built to {}; get_hash() of the shared key {:#x}, of the equal key {:#x}", round, kind, nthreads, built, visited, values, nthreads, seen_by_eager, built_after, key.get_hash(), eager.get_hash())));
            break;
        }
    }
    if let Some((sig, msg)) = bad {
        rep.violations.push(Violation { lane: "stress-first-use-of-a-shared-key".into(), sig, msg, bytes: vec![], sched: vec![], decoded: "free-running threads (not deterministically replayable)".into() });
    }
    rep.wall_s = start.elapsed().as_secs_f64();
    rep
}

/// Free-running stress: clear() while another thread is inside the registry — in the closure of a get_or_create_* on
/// an existing key, or in the closure of a visit_*, i.e. holding one shard's lock. Nothing is created meanwhile, so
/// once both have returned the registry holds no entry of any kind: clear removes every entry, it does not skip a
/// shard that happened to be busy.
fn stress_clear_vs_lock_holder(pr: &PropRun) -> LaneReport {
    use std::sync::atomic::AtomicBool;
    let start = std::time::Instant::now();
    let mut rep = LaneReport::named("stress-clear-while-a-shard-is-held");
    let rounds = pr.cfg.cases(300, 10_000);
    let mut bad: Option<(String, String)> = None;
    for round in 0..rounds {
        let shared = Arc::new(Shared::default());
        let registry: Registry<Key, CountingStorage> = Registry::new(CountingStorage(shared.clone()));
        let kind = (round % 3) as u8;
        let in_visit = round / 3 % 2 == 1;
        let nkeys = 10usize;
        let keys: Vec<Key> = (0..nkeys).map(|i| Key::from_parts("held", vec![metrics::Label::new("k", i.to_string())])).collect();
        for k in &keys {
            for kd in 0..3u8 {
                let _: u64 = by_kind!(kd, registry, get_or_create_counter, get_or_create_gauge, get_or_create_histogram, k, |s| s.value.fetch_add(1, Ordering::SeqCst));
            }
        }
        let inside = AtomicBool::new(false);
        let hold = || {
            inside.store(true, Ordering::Release);
            let t0 = std::time::Instant::now();
            while t0.elapsed() < std::time::Duration::from_micros(150) {
                std::hint::spin_loop();
            }
        };
        std::thread::scope(|s| {
            let (registry, keys, hold) = (&registry, &keys, &hold);
            s.spawn(move || {
                if in_visit {
                    let mut first = true;
                    let mut f = |_: &Key, _: &Arc<Slot>| {
                        if first {
                            first = false;
                            hold();
                        }
                    };
                    by_kind!(kind, registry, visit_counters, visit_gauges, visit_histograms, &mut f);
                } else {
                    let _: u64 = by_kind!(kind, registry, get_or_create_counter, get_or_create_gauge, get_or_create_histogram, &keys[(round as usize) % nkeys], |s| {
                        hold();
                        s.value.load(Ordering::SeqCst)
                    });
                }
            });
            while !inside.load(Ordering::Acquire) {
                std::hint::spin_loop();
            }
            registry.clear();
        });
        let left = (registry.get_counter_handles().len(), registry.get_gauge_handles().len(), registry.get_histogram_handles().len());
        let mut ctx = Ctx::default();
        ctx.fingerprint = Some(round);
        ctx.nontrivial("clear-issued-while-another-thread-holds-a-shard");
        if round == 0 {
            ctx.desc = Some(format!("{} keys under all three kinds; one thread sits for 150 us inside the closure of get_or_create_* (existing key) or visit_*, the other calls clear()", nkeys));
        }
        rep.account(ctx);
        if left != (0, 0, 0) {
            bad = Some(("clear-left-entries-behind".into(), format!("round {}: clear() was called while another thread was inside {} of kind {} and has returned, nothing was created meanwhile, yet the registry still lists (counters, gauges, histograms) = {:?}", round, if in_visit { "a visit_* closure" } else { "the closure of a get_or_create_* on an existing key" }, kind, left)));
            break;
        }
    }
    if let Some((sig, msg)) = bad {
        rep.violations.push(Violation { lane: "stress-clear-while-a-shard-is-held".into(), sig, msg, bytes: vec![], sched: vec![], decoded: "free-running threads (not deterministically replayable)".into() });
    }
    rep.wall_s = start.elapsed().as_secs_f64();
    rep
}

/// A panic inside the registry (the caller's closure on the first use of a key, or a retain predicate) poisons the
/// lock of one shard. The registry documents that it recovers from poisoning; whatever it does, the entry points must
/// keep agreeing with each other: every key the listing shows is found by get_*, with the same storage, and
/// get_or_create_* on it reaches that storage too.
fn poisoned_shards(pr: &PropRun) -> LaneReport {
    let start = std::time::Instant::now();
    let mut rep = LaneReport::named("entry-points-agree-after-a-panic-inside-the-registry");
    let rounds = pr.cfg.cases(240, 6_000);
    let mut bad: Option<String> = None;
    let hook = std::panic::take_hook();
    std::panic::set_hook(Box::new(|_| {}));
    'rounds: for round in 0..rounds {
        let shared = Arc::new(Shared::default());
        let registry: Registry<Key, CountingStorage> = Registry::new(CountingStorage(shared.clone()));
        let kind = (round % 3) as u8;
        let via_retain = round / 3 % 2 == 1;
        let nkeys = 2 + (round / 6 % 7) as usize;
        let keys: Vec<Key> = (0..nkeys).map(|i| Key::from_parts("poison", vec![metrics::Label::new("k", i.to_string())])).collect();
        for k in &keys[1..] {
            let _: u64 = by_kind!(kind, registry, get_or_create_counter, get_or_create_gauge, get_or_create_histogram, k, |s| s.value.fetch_add(1, Ordering::SeqCst));
        }
        let r = std::panic::catch_unwind(std::panic::AssertUnwindSafe(|| {
            if via_retain {
                let mut seen = 0;
                let f = |_: &Key, _: &Arc<Slot>| {
                    seen += 1;
                    if seen == 1 {
                        panic!("harness: predicate panics");
                    }
                    true
                };
                by_kind!(kind, registry, retain_counters, retain_gauges, retain_histograms, f);
            } else {
                // first use of keys[0]: the closure panics after the entry was created
                let _: u64 = by_kind!(kind, registry, get_or_create_counter, get_or_create_gauge, get_or_create_histogram, &keys[0], |_| panic!("harness: first operation panics"));
            }
        }));
        let panicked = r.is_err();
        let listing: Vec<(Key, Arc<Slot>)> = match kind {
            0 => registry.get_counter_handles().into_iter().collect(),
            1 => registry.get_gauge_handles().into_iter().collect(),
            _ => registry.get_histogram_handles().into_iter().collect(),
        };
        let mut ctx = Ctx::default();
        ctx.fingerprint = Some(round);
        if panicked {
            ctx.nontrivial("panic-while-a-shard-was-write-locked");
        }
        if round == 0 {
            ctx.desc = Some("1-8 keys of one kind; the closure of a first get_or_create_* (or a retain predicate) panics and is caught; then listing, get_* and get_or_create_* are compared key by key".into());
        }
        rep.account(ctx);
        for (k, slot) in &listing {
            let got: Option<Arc<Slot>> = by_kind!(kind, registry, get_counter, get_gauge, get_histogram, k);
            let same = got.as_ref().map(|g| Arc::ptr_eq(g, slot)).unwrap_or(false);
            let through_goc: bool = by_kind!(kind, registry, get_or_create_counter, get_or_create_gauge, get_or_create_histogram, k, |s| Arc::ptr_eq(s, slot));
            if !same || !through_goc {
                bad = Some(format!("round {} (kind {}, {} keys, panic in {}): the listing shows {} but get_* returns {} and get_or_create_* reaches {} storage", round, kind, nkeys, if via_retain { "a retain predicate" } else { "the closure of a first get_or_create_*" }, k, if got.is_none() { "None" } else if same { "the same storage" } else { "another storage" }, if through_goc { "the same" } else { "another" }));
                break 'rounds;
            }
        }
    }
    std::panic::set_hook(hook);
    if let Some(msg) = bad {
        rep.violations.push(Violation { lane: "entry-points-agree-after-a-panic-inside-the-registry".into(), sig: "get-disagrees-with-listing".into(), msg, bytes: vec![], sched: vec![], decoded: "deterministic loop over kinds, key counts and the place of the panic".into() });
    }
    rep.wall_s = start.elapsed().as_secs_f64();
    rep
}

/// Child process: the sequential lane under a CPU affinity mask (1/2/4/16 shards).
pub fn child(seed: u64) -> i32 {
    let ncpu = [1usize, 2, 4, 16][(seed % 4) as usize];
    unsafe {
        let mut set: libc::cpu_set_t = std::mem::zeroed();
        for c in 0..ncpu {
            libc::CPU_SET(c, &mut set);
        }
        if libc::sched_setaffinity(0, std::mem::size_of::<libc::cpu_set_t>(), &set) != 0 {
            println!("harness: sched_setaffinity failed");
            return 2;
        }
    }
    let shards = std::thread::available_parallelism().map(|n| n.get()).unwrap_or(1).next_power_of_two();
    let cfg = RunCfg { tier: crate::engine::runner::Tier::Quick, seed, scale: 1.0, strict: true, known: vec![] };
    let rep = run_lane(&cfg, "C06", &Lane { name: "sequential", cases: 4000, max_len: 200, sched_len: 0, workers: 1, f: &case_seq });
    if let Some(v) = rep.violations.first() {
        println!("CHILD-FAIL {} (with {} shards) {} ; case {}", v.sig, shards, v.msg.replace('\n', " "), v.decoded.replace('\n', " "));
        return 1;
    }
    println!("CHILD-OK {} shards, {} histories", shards, rep.evaluations);
    0
}

pub fn run(cfg: &RunCfg, replay: Option<&str>) -> i32 {
    let mut pr = PropRun::new("C06", cfg, RULE);
    pr.register("sequential", &case_seq);
    pr.register("concurrent", &case_conc);
    pr.register("custom-key-colliding-hashes", &case_custom_key);
    let child_replay = |b: &[u8], _s: &[u8], ctx: &mut Ctx| -> Result<(), Fail> {
        ctx.case(&("child process", b));
        crate::engine::child::replay_child("C06", b)
    };
    pr.register("shard-count-processes", &child_replay);
    if let Some(f) = replay {
        return pr.replay(f);
    }
    pr.assume("which keys are equal is decided by Key::eq itself (so keys with a repeated label name are included); listings and visits are checked at quiescence only");
    pr.assume("concurrent lane: SC interleavings at the hook between read-unlock and write-lock plus harness points between operations; linearizability is checked against one atomic map per kind with abstract storage identities");
    let r = pr.run_regressions();
    pr.push(r);
    let c = pr.cfg.clone();
    let r = run_lane(&c, "C06", &Lane { name: "sequential", cases: c.cases(200_000, 6_000_000), max_len: 200, sched_len: 0, workers: 0, f: &case_seq });
    pr.push(r);
    let r = run_lane(&c, "C06", &Lane { name: "concurrent", cases: c.cases(400_000, 10_000_000), max_len: 24, sched_len: 48, workers: 0, f: &case_conc });
    pr.push(r);
    let r = run_lane(&c, "C06", &Lane { name: "custom-key-colliding-hashes", cases: c.cases(300_000, 8_000_000), max_len: 140, sched_len: 0, workers: 0, f: &case_custom_key });
    pr.push(r);
    let r = stress(&pr);
    pr.push(r);
    let r = stress_delete(&pr);
    pr.push(r);
    let r = stress_create_vs_sweep(&pr);
    pr.push(r);
    let r = stress_first_use_of_shared_key(&pr);
    pr.push(r);
    let r = stress_clear_vs_lock_holder(&pr);
    pr.push(r);
    let r = poisoned_shards(&pr);
    pr.push(r);
    let r = crate::engine::child::run_children(&pr, "C06", "shard-count-processes", pr.cfg.cases(16, 400), |seed| format!("sequential lane with CPU affinity to {} cpus", [1, 2, 4, 16][(seed % 4) as usize]));
    pr.push(r);
    pr.finish()
}
