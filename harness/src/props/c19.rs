//! C19 — debugging snapshots show every registered metric with its true current state.

use metrics::{Key, Level, Metadata, Recorder, Unit};
use metrics_util::{
    debugging::{DebugValue, DebuggingRecorder},
    MetricKind,
};

use super::c03::{build, Path, Spec};
use crate::{
    engine::{
        report::PropRun,
        runner::{run_lane, Ctx, Fail, Lane, RunCfg},
        source::Source,
    },
    ensure,
    util::{f64_same, StaticArena},
};

const RULE: &str = "a case = 1-3 recorders (in the threaded lane each is installed locally on its own OS thread and driven through the macros; in the sequential lane one recorder is driven directly) and per recorder a history of 2-30 steps: describe (kind, name, unit or none, text), register+update of a key from a pool of 1-5 keys (same name across kinds, equal keys built through different construction paths and label orders), snapshot. A reference model (ordered set of first registrations, current counter/gauge values, histogram values since the previous snapshot, latest description and latest non-empty unit per kind and name) predicts every snapshot exactly. Non-trivial = at least two snapshots with histogram values recorded between them, or a re-description. Distinct = distinct decoded cases.";

static META: Metadata<'static> = Metadata::new("c19", Level::INFO, None);

#[derive(Debug, Clone)]
enum Step {
    Describe { kind: u8, name: String, unit: Option<Unit>, desc: String },
    Counter { key: usize, path: usize, abs: bool, v: u64 },
    Gauge { key: usize, path: usize, op: u8, v: f64 },
    Hist { key: usize, path: usize, v: f64, many: usize },
    Snapshot,
}

#[derive(Debug)]
struct History {
    specs: Vec<Spec>,
    steps: Vec<Step>,
}

const NAMES: [&str; 3] = ["m", "n", "requests.total"];
const PATHS: [Path; 5] = [Path::PartsOwned, Path::PartsStatic, Path::StaticParts, Path::TupleSlice, Path::CloneOfStatic];

fn dec_history(src: &mut Source) -> History {
    let nk = 1 + src.below(5);
    let specs: Vec<Spec> = (0..nk)
        .map(|_| {
            let mut labels: Vec<(String, String)> = vec![];
            for ln in ["a", "b", "c"] {
                if src.bool() {
                    labels.push((ln.to_string(), src.pick(&["1", "2", ""]).to_string()));
                }
            }
            Spec { name: src.pick(&NAMES).to_string(), labels }
        })
        .collect();
    let n = 2 + src.below(29);
    let steps = (0..n)
        .map(|_| match src.below(9) {
            0 | 1 => Step::Describe { kind: src.below(3) as u8, name: src.pick(&NAMES).to_string(), unit: if src.bool() { Some(*src.pick(&[Unit::Bytes, Unit::Seconds, Unit::Count])) } else { None }, desc: src.pick(&["d1", "d2", ""]).to_string() },
            2 | 3 => Step::Counter { key: src.below(nk), path: src.below(2 * PATHS.len()), abs: src.chance(64), v: src.u64_interesting() },
            4 => Step::Gauge { key: src.below(nk), path: src.below(2 * PATHS.len()), op: src.below(3) as u8, v: src.f64_interesting() },
            5 | 6 => Step::Hist { key: src.below(nk), path: src.below(2 * PATHS.len()), v: src.f64_interesting(), many: if src.chance(40) { 2 + src.below(80) } else { 1 } },
            _ => Step::Snapshot,
        })
        .collect();
    History { specs, steps }
}

/// The upper half of the path numbers builds the same key with its labels given in the opposite order (label names are
/// distinct, so the keys are equal: "equal keys built differently").
fn reordered(s: &Spec, path: usize) -> Spec {
    let mut out = s.clone();
    if path >= PATHS.len() {
        out.labels.reverse();
    }
    out
}

fn canon(s: &Spec) -> (String, Vec<(String, String)>) {
    let mut l = s.labels.clone();
    l.sort();
    (s.name.clone(), l)
}

#[derive(Default)]
struct Model {
    seen: Vec<(u8, (String, Vec<(String, String)>))>,
    counters: std::collections::HashMap<(String, Vec<(String, String)>), u64>,
    gauges: std::collections::HashMap<(String, Vec<(String, String)>), f64>,
    hists: std::collections::HashMap<(String, Vec<(String, String)>), Vec<f64>>,
    meta: std::collections::HashMap<(u8, String), (Option<Unit>, String)>,
    snapshots: usize,
    hist_between: bool,
    redescribed: bool,
}

impl Model {
    fn see(&mut self, kind: u8, c: &(String, Vec<(String, String)>)) {
        if !self.seen.iter().any(|(k, x)| *k == kind && x == c) {
            self.seen.push((kind, c.clone()));
        }
    }
}

fn check_snapshot(model: &mut Model, snap: Vec<(metrics_util::CompositeKey, Option<Unit>, Option<metrics::SharedString>, DebugValue)>) -> Result<(), Fail> {
    ensure!(snap.len() == model.seen.len(), "snapshot-entry-count", "snapshot lists {} metrics, {} were registered: {:?} vs model {:?}", snap.len(), model.seen.len(), snap.iter().map(|e| format!("{:?}/{}", e.0.kind(), e.0.key())).collect::<Vec<_>>(), model.seen);
    for (i, ((kind, c), (ck, unit, desc, value))) in model.seen.clone().iter().zip(snap.iter()).enumerate() {
        let k = match ck.kind() {
            MetricKind::Counter => 0u8,
            MetricKind::Gauge => 1,
            MetricKind::Histogram => 2,
        };
        let mut got_labels: Vec<(String, String)> = ck.key().labels().map(|l| (l.key().to_string(), l.value().to_string())).collect();
        got_labels.sort();
        ensure!(k == *kind && ck.key().name() == c.0 && got_labels == c.1, "snapshot-order-or-identity", "entry {} is {:?} {} but the {}-th first registration was kind {} {:?}", i, ck.kind(), ck.key(), i, kind, c);
        let want_meta = model.meta.get(&(*kind, c.0.clone()));
        match want_meta {
            None => ensure!(unit.is_none() && desc.is_none(), "metadata-for-undescribed-metric", "entry {} has unit {:?} desc {:?} but was never described", i, unit, desc),
            Some((u, d)) => {
                ensure!(unit == u, "unit-wrong", "entry {} ({}): unit {:?}, the most recent unit given for this kind and name is {:?}", i, c.0, unit, u);
                ensure!(desc.as_ref().map(|s| s.to_string()) == Some(d.clone()), "description-wrong", "entry {} ({}): description {:?}, most recent one is {:?}", i, c.0, desc, d);
            }
        }
        match (kind, value) {
            (0, DebugValue::Counter(v)) => ensure!(*v == model.counters.get(c).copied().unwrap_or(0), "counter-value-wrong", "entry {}: counter {} expected {}", i, v, model.counters.get(c).copied().unwrap_or(0)),
            (1, DebugValue::Gauge(v)) => ensure!(f64_same(v.0, model.gauges.get(c).copied().unwrap_or(0.0)), "gauge-value-wrong", "entry {}: gauge {:?} expected {:?}", i, v.0, model.gauges.get(c)),
            (2, DebugValue::Histogram(vs)) => {
                let mut a: Vec<u64> = vs.iter().map(|v| if v.0.is_nan() { f64::NAN.to_bits() } else { v.0.to_bits() }).collect();
                let mut b: Vec<u64> = model.hists.get(c).cloned().unwrap_or_default().iter().map(|v| if v.is_nan() { f64::NAN.to_bits() } else { v.to_bits() }).collect();
                a.sort();
                b.sort();
                ensure!(a == b, "histogram-values-wrong", "entry {}: histogram shows {} values, {} were recorded since the previous snapshot (each value must appear in exactly one snapshot)", i, a.len(), b.len());
                if !b.is_empty() && model.snapshots >= 1 {
                    model.hist_between = true;
                }
            }
            (k, v) => return Err(Fail::new("value-kind-mismatch", format!("entry {}: kind {} but value {:?}", i, k, v))),
        }
    }
    for v in model.hists.values_mut() {
        v.clear();
    }
    model.snapshots += 1;
    Ok(())
}

fn apply_describe(model: &mut Model, kind: u8, name: &str, unit: Option<Unit>, desc: &str) {
    let e = model.meta.entry((kind, name.to_string()));
    match e {
        std::collections::hash_map::Entry::Occupied(mut o) => {
            model.redescribed = true;
            let (u, d) = o.get_mut();
            if unit.is_some() {
                *u = unit;
            }
            *d = desc.to_string();
        }
        std::collections::hash_map::Entry::Vacant(v) => {
            v.insert((unit, desc.to_string()));
        }
    }
}

fn finish(ctx: &mut Ctx, model: &Model) {
    if model.hist_between {
        ctx.nontrivial("histogram-values-between-snapshots");
    }
    if model.redescribed {
        ctx.nontrivial("re-description");
    }
}

fn run_direct(h: &History, ctx: &mut Ctx) -> Result<(), Fail> {
    let rec = DebuggingRecorder::new();
    let snap = rec.snapshotter();
    let mut arena = StaticArena::new();
    let mut model = Model::default();
    let mut steps = h.steps.clone();
    steps.push(Step::Snapshot);
    steps.push(Step::Snapshot);
    for s in &steps {
        match s {
            Step::Describe { kind, name, unit, desc } => {
                match kind {
                    0 => rec.describe_counter(name.clone().into(), *unit, desc.clone().into()),
                    1 => rec.describe_gauge(name.clone().into(), *unit, desc.clone().into()),
                    _ => rec.describe_histogram(name.clone().into(), *unit, desc.clone().into()),
                }
                apply_describe(&mut model, *kind, name, *unit, desc);
            }
            Step::Counter { key, path, abs, v } => {
                let k: Key = build(&reordered(&h.specs[*key], *path), PATHS[*path % PATHS.len()], &mut arena);
                let c = canon(&h.specs[*key]);
                let handle = rec.register_counter(&k, &META);
                model.see(0, &c);
                let e = model.counters.entry(c).or_insert(0);
                if *abs {
                    handle.absolute(*v);
                    *e = (*e).max(*v);
                } else {
                    handle.increment(*v);
                    *e = e.wrapping_add(*v);
                }
            }
            Step::Gauge { key, path, op, v } => {
                let k: Key = build(&reordered(&h.specs[*key], *path), PATHS[*path % PATHS.len()], &mut arena);
                let c = canon(&h.specs[*key]);
                let handle = rec.register_gauge(&k, &META);
                model.see(1, &c);
                let e = model.gauges.entry(c).or_insert(0.0);
                match op {
                    0 => {
                        handle.set(*v);
                        *e = *v;
                    }
                    1 => {
                        handle.increment(*v);
                        *e += *v;
                    }
                    _ => {
                        handle.decrement(*v);
                        *e -= *v;
                    }
                }
            }
            Step::Hist { key, path, v, many } => {
                let k: Key = build(&reordered(&h.specs[*key], *path), PATHS[*path % PATHS.len()], &mut arena);
                let c = canon(&h.specs[*key]);
                let handle = rec.register_histogram(&k, &META);
                model.see(2, &c);
                let e = model.hists.entry(c).or_default();
                if *many == 1 {
                    handle.record(*v);
                } else {
                    handle.record_many(*v, *many);
                }
                for _ in 0..*many {
                    e.push(*v);
                }
            }
            Step::Snapshot => {
                // the same snapshot taken apart both ways: counters/gauges are state, so two snapshots in a row
                // agree on them; into_hashmap must hold the very entries into_vec lists
                let v = snap.snapshot().into_vec();
                let h = snap.snapshot().into_hashmap();
                ensure!(h.len() == v.len(), "hashmap-view-differs", "into_vec lists {} entries, into_hashmap holds {}", v.len(), h.len());
                for (k, u, d, val) in &v {
                    let Some((hu, hd, hv)) = h.get(k) else { return Err(Fail::new("hashmap-view-differs", format!("{:?} is listed by into_vec but missing from into_hashmap", k))) };
                    ensure!(hu == u && hd == d, "hashmap-view-differs", "{:?}: metadata differs between the two views", k);
                    match (val, hv) {
                        (DebugValue::Histogram(_), DebugValue::Histogram(second)) => ensure!(second.is_empty(), "histogram-value-in-two-snapshots", "{:?}: the snapshot taken right after another one still holds {:?}", k, second),
                        (a, b) => ensure!(a == b, "hashmap-view-differs", "{:?}: {:?} vs {:?}", k, a, b),
                    }
                }
                check_snapshot(&mut model, v)?
            }
        }
    }
    drop(rec);
    drop(snap);
    drop(arena);
    finish(ctx, &model);
    Ok(())
}

pub fn case_direct(bytes: &[u8], _s: &[u8], ctx: &mut Ctx) -> Result<(), Fail> {
    let mut src = Source::new(bytes);
    let h = dec_history(&mut src);
    ctx.case(&h);
    run_direct(&h, ctx)
}

/// Each thread installs its own recorder locally and emits through the macros.
fn run_macros(h: &History) -> Result<(bool, bool), Fail> {
    let rec = DebuggingRecorder::new();
    let snap = rec.snapshotter();
    let mut model = Model::default();
    let mut steps = h.steps.clone();
    steps.push(Step::Snapshot);
    metrics::with_local_recorder(&rec, || -> Result<(), Fail> {
        for s in &steps {
            match s {
                Step::Describe { kind, name, unit, desc } => {
                    match (kind, unit) {
                        (0, Some(u)) => metrics::describe_counter!(name.clone(), *u, desc.clone()),
                        (0, None) => metrics::describe_counter!(name.clone(), desc.clone()),
                        (1, Some(u)) => metrics::describe_gauge!(name.clone(), *u, desc.clone()),
                        (1, None) => metrics::describe_gauge!(name.clone(), desc.clone()),
                        (_, Some(u)) => metrics::describe_histogram!(name.clone(), *u, desc.clone()),
                        (_, None) => metrics::describe_histogram!(name.clone(), desc.clone()),
                    }
                    apply_describe(&mut model, *kind, name, *unit, desc);
                }
                Step::Counter { key, abs, v, .. } => {
                    let sp = &h.specs[*key];
                    let c = canon(sp);
                    let labels: Vec<(String, String)> = sp.labels.clone();
                    let handle = metrics::counter!(sp.name.clone(), &labels);
                    model.see(0, &c);
                    let e = model.counters.entry(c).or_insert(0);
                    if *abs {
                        handle.absolute(*v);
                        *e = (*e).max(*v);
                    } else {
                        handle.increment(*v);
                        *e = e.wrapping_add(*v);
                    }
                }
                Step::Gauge { key, v, .. } => {
                    let sp = &h.specs[*key];
                    let c = canon(sp);
                    let labels: Vec<(String, String)> = sp.labels.clone();
                    metrics::gauge!(sp.name.clone(), &labels).set(*v);
                    model.see(1, &c);
                    model.gauges.insert(c, *v);
                }
                Step::Hist { key, v, .. } => {
                    let sp = &h.specs[*key];
                    let c = canon(sp);
                    let labels: Vec<(String, String)> = sp.labels.clone();
                    metrics::histogram!(sp.name.clone(), &labels).record(*v);
                    model.see(2, &c);
                    model.hists.entry(c).or_default().push(*v);
                }
                Step::Snapshot => {
                // the same snapshot taken apart both ways: counters/gauges are state, so two snapshots in a row
                // agree on them; into_hashmap must hold the very entries into_vec lists
                let v = snap.snapshot().into_vec();
                let h = snap.snapshot().into_hashmap();
                ensure!(h.len() == v.len(), "hashmap-view-differs", "into_vec lists {} entries, into_hashmap holds {}", v.len(), h.len());
                for (k, u, d, val) in &v {
                    let Some((hu, hd, hv)) = h.get(k) else { return Err(Fail::new("hashmap-view-differs", format!("{:?} is listed by into_vec but missing from into_hashmap", k))) };
                    ensure!(hu == u && hd == d, "hashmap-view-differs", "{:?}: metadata differs between the two views", k);
                    match (val, hv) {
                        (DebugValue::Histogram(_), DebugValue::Histogram(second)) => ensure!(second.is_empty(), "histogram-value-in-two-snapshots", "{:?}: the snapshot taken right after another one still holds {:?}", k, second),
                        (a, b) => ensure!(a == b, "hashmap-view-differs", "{:?}: {:?} vs {:?}", k, a, b),
                    }
                }
                check_snapshot(&mut model, v)?
            }
            }
        }
        Ok(())
    })?;
    Ok((model.hist_between, model.redescribed))
}

pub fn case_threads(bytes: &[u8], _s: &[u8], ctx: &mut Ctx) -> Result<(), Fail> {
    let mut src = Source::new(bytes);
    let nt = 2 + src.below(2);
    let hs: Vec<History> = (0..nt).map(|_| dec_history(&mut src)).collect();
    ctx.case(&hs);
    let results: Vec<Result<(bool, bool), Fail>> = std::thread::scope(|s| {
        let handles: Vec<_> = hs.iter().map(|h| s.spawn(move || run_macros(h))).collect();
        handles.into_iter().map(|h| h.join().unwrap_or_else(|_| Err(Fail::new("panic-in-thread", "a recorder thread panicked")))).collect()
    });
    for r in results {
        let (a, b) = r?;
        if a {
            ctx.nontrivial("histogram-values-between-snapshots");
        }
        if b {
            ctx.nontrivial("re-description");
        }
    }
    Ok(())
}

/// Schedule lane: recorder threads record uniquely tagged histogram values on one shared debugging recorder
/// while another thread takes snapshots, interleaved at the bucket's atomic steps; afterwards one more
/// snapshot at quiescence. Every tag must appear in exactly one snapshot, and a value whose record() call
/// had returned before a snapshot began must be in that snapshot or an earlier one.
pub fn case_sched(bytes: &[u8], sched_bytes: &[u8], ctx: &mut Ctx) -> Result<(), Fail> {
    use crate::engine::sched::{self, SchedOpts};
    use std::sync::Mutex;
    static SMETA: Metadata<'static> = Metadata::new("c19sched", Level::INFO, None);
    let mut src = Source::new(bytes);
    let nr = 1 + src.below(2);
    let mut tag = 1u32;
    let recorders: Vec<Vec<u32>> = (0..nr)
        .map(|_| {
            (0..1 + src.below(4))
                .map(|_| {
                    let t = tag;
                    tag += 1;
                    t
                })
                .collect()
        })
        .collect();
    let nsnap = 1 + src.below(3);
    // a third of the cases start next to a block boundary of the histogram's bucket (64 slots per block), so
    // that the racing records hand over to a new block while a snapshot clears
    let prefill: u32 = [0, 0, 0, 0, 61, 62, 63, 64][src.below(8)];
    ctx.case(&(&recorders, nsnap, prefill, sched_bytes));
    let rec = DebuggingRecorder::new();
    let snap = rec.snapshotter();
    let key = Key::from_name("h");
    #[derive(Debug)]
    enum Ev {
        RecStart(u32),
        RecEnd(u32),
        SnapStart(usize),
        SnapEnd(usize, Vec<u32>),
    }
    let events: Mutex<Vec<Ev>> = Mutex::new(vec![]);
    for i in 0..prefill {
        let t = 1000 + i;
        events.lock().unwrap().push(Ev::RecStart(t));
        rec.register_histogram(&key, &SMETA).record(t as f64);
        events.lock().unwrap().push(Ev::RecEnd(t));
    }
    let values_of = |v: Vec<(metrics_util::CompositeKey, Option<Unit>, Option<metrics::SharedString>, DebugValue)>| -> Vec<u32> {
        v.into_iter().filter_map(|(_, _, _, d)| if let DebugValue::Histogram(vs) = d { Some(vs.into_iter().map(|x| x.0 as u32).collect::<Vec<_>>()) } else { None }).flatten().collect()
    };
    let mut bodies: Vec<Box<dyn FnOnce() + Send + '_>> = Vec::new();
    for ops in &recorders {
        let (rec, events, key) = (&rec, &events, &key);
        bodies.push(Box::new(move || {
            for t in ops {
                events.lock().unwrap().push(Ev::RecStart(*t));
                rec.register_histogram(key, &SMETA).record(*t as f64);
                events.lock().unwrap().push(Ev::RecEnd(*t));
                sched::point("c19.op_done");
            }
        }));
    }
    {
        let (snap, events, values_of) = (&snap, &events, &values_of);
        bodies.push(Box::new(move || {
            for i in 0..nsnap {
                events.lock().unwrap().push(Ev::SnapStart(i));
                let vals = values_of(snap.snapshot().into_vec());
                events.lock().unwrap().push(Ev::SnapEnd(i, vals));
                sched::point("c19.snap_done");
            }
        }));
    }
    // the bucket's own known window (C05: a push that selected its block before a clear detached it) is fused
    let fuse = vec![("bucket.push.tail_loaded", "block.push.claimed"), ("bucket.push.new_tail_cas_ok", "block.push.claimed")];
    ctx.excluded = Some("known-window-fused:C05-lost-push-into-detached-block");
    let out = sched::explore(sched_bytes, SchedOpts { fuse, max_steps: 6000, ..Default::default() }, bodies);
    if out.budget_exhausted {
        ctx.discard = true;
        return Ok(());
    }
    ensure!(out.panics.is_empty(), "panic-in-thread", "{:?}", out.panics);
    ensure!(!out.livelock, "observer-livelock", "snapshot spins forever; trace tail {:?}", out.trace.iter().rev().take(8).collect::<Vec<_>>());
    let last = values_of(snap.snapshot().into_vec());
    let mut evs = events.into_inner().unwrap();
    evs.push(Ev::SnapStart(nsnap));
    evs.push(Ev::SnapEnd(nsnap, last));
    let mut seen_in: std::collections::HashMap<u32, usize> = Default::default();
    let mut completed: Vec<u32> = vec![];
    let mut completed_at_start: Vec<u32> = vec![];
    let (mut in_snap, mut overlap, mut started) = (false, false, 0usize);
    for e in &evs {
        match e {
            Ev::RecStart(_) => {
                started += 1;
                overlap |= in_snap;
            }
            Ev::RecEnd(t) => {
                completed.push(*t);
                overlap |= in_snap;
            }
            Ev::SnapStart(_) => {
                in_snap = true;
                completed_at_start = completed.clone();
                overlap |= started > completed.len();
            }
            Ev::SnapEnd(i, vals) => {
                in_snap = false;
                for v in vals {
                    ensure!(seen_in.insert(*v, *i).is_none(), "histogram-value-in-two-snapshots", "value {} appears in snapshot {} and again in snapshot {} (or twice in one); trace {:?}", v, seen_in[v], i, out.trace);
                }
                for t in &completed_at_start {
                    ensure!(seen_in.contains_key(t), "snapshot-misses-completed-value", "value {} was recorded (record() had returned) before snapshot {} began, but neither it nor an earlier snapshot holds it; trace {:?}", t, i, out.trace);
                }
            }
        }
    }
    let all: Vec<u32> = recorders.iter().flatten().copied().chain((0..prefill).map(|i| 1000 + i)).collect();
    for t in &all {
        ensure!(seen_in.contains_key(t), "histogram-values-not-exactly-once", "value {} was recorded but no snapshot (not even the one at quiescence) holds it; trace {:?}", t, out.trace);
    }
    ensure!(seen_in.len() == all.len(), "histogram-value-never-recorded", "snapshots hold {:?}, recorded were {:?}", seen_in.keys().collect::<Vec<_>>(), all);
    if overlap {
        ctx.nontrivial("snapshot-overlaps-record");
        if prefill > 0 {
            ctx.nontrivial("snapshot-overlaps-record-next-to-a-block-boundary");
        }
    }
    Ok(())
}

/// Free-running stress: several threads share ONE debugging recorder and make the first registration of the
/// same fresh key at the same moment, each updating through the handle it was given; the snapshot taken at
/// quiescence must show one entry holding every update, and the next one no histogram values.
fn stress_shared(pr: &PropRun) -> crate::engine::runner::LaneReport {
    use crate::engine::runner::{LaneReport, Violation};
    use std::sync::atomic::{AtomicBool, AtomicUsize, Ordering};
    static SMETA: Metadata<'static> = Metadata::new("c19stress", Level::INFO, None);
    let start = std::time::Instant::now();
    let mut rep = LaneReport::named("stress-shared-recorder");
    let rounds = pr.cfg.cases(6_000, 300_000) as usize;
    let nthreads = 6usize;
    let slot: std::sync::RwLock<Option<(DebuggingRecorder, Key, usize)>> = std::sync::RwLock::new(None);
    let round = AtomicUsize::new(0);
    let done = AtomicUsize::new(0);
    let stop = AtomicBool::new(false);
    let mut bad: Option<(String, String)> = None;
    std::thread::scope(|s| {
        for t in 0..nthreads {
            let (slot, round, done, stop) = (&slot, &round, &done, &stop);
            s.spawn(move || {
                let mut seen = 0usize;
                while !stop.load(Ordering::Acquire) {
                    let r = round.load(Ordering::Acquire);
                    if r == seen {
                        std::hint::spin_loop();
                        continue;
                    }
                    seen = r;
                    {
                        let g = slot.read().unwrap();
                        let (rec, key, kind) = g.as_ref().unwrap();
                        match kind {
                            0 => rec.register_counter(key, &SMETA).increment(1),
                            1 => rec.register_gauge(key, &SMETA).increment(1.0),
                            _ => rec.register_histogram(key, &SMETA).record(t as f64),
                        }
                    }
                    done.fetch_add(1, Ordering::AcqRel);
                }
            });
        }
        for r in 0..rounds {
            let kind = if r % 4 == 3 { r / 4 % 2 } else { 2 };
            let rec = DebuggingRecorder::new();
            let snap = rec.snapshotter();
            let key = Key::from_parts(format!("shared{}", r % 7), vec![metrics::Label::new("k", "v")]);
            *slot.write().unwrap() = Some((rec, key, kind));
            done.store(0, Ordering::Release);
            round.store(r + 1, Ordering::Release);
            while done.load(Ordering::Acquire) < nthreads {
                std::hint::spin_loop();
            }
            let first = snap.snapshot().into_vec();
            let second = snap.snapshot().into_vec();
            let verdict: Result<(), (String, String)> = (|| {
                if first.len() != 1 {
                    return Err(("snapshot-entry-count".to_string(), format!("{} threads registered one key on a shared recorder, the snapshot lists {} entries", nthreads, first.len())));
                }
                match &first[0].3 {
                    DebugValue::Counter(v) if kind == 0 => {
                        if *v != nthreads as u64 {
                            return Err(("counter-value-wrong".to_string(), format!("{} threads each incremented the shared counter once through the handle their registration returned; the snapshot shows {}", nthreads, v)));
                        }
                    }
                    DebugValue::Gauge(v) if kind == 1 => {
                        if v.0 != nthreads as f64 {
                            return Err(("gauge-value-wrong".to_string(), format!("{} threads each added 1 to the shared gauge; the snapshot shows {}", nthreads, v.0)));
                        }
                    }
                    DebugValue::Histogram(vs) if kind == 2 => {
                        let mut got: Vec<u64> = vs.iter().map(|v| v.0 as u64).collect();
                        got.sort();
                        if got != (0..nthreads as u64).collect::<Vec<_>>() {
                            return Err(("histogram-values-not-exactly-once".to_string(), format!("{} threads each recorded their index once through the handle their (concurrent, first) registration of the key returned; the snapshot holds {:?}", nthreads, got)));
                        }
                        if let Some((_, _, _, DebugValue::Histogram(v2))) = second.first() {
                            if !v2.is_empty() {
                                return Err(("histogram-value-in-two-snapshots".to_string(), format!("the next snapshot shows {:?} again", v2)));
                            }
                        }
                    }
                    other => return Err(("snapshot-kind-wrong".to_string(), format!("kind {} registered, snapshot shows {:?}", kind, other))),
                }
                Ok(())
            })();
            if let Err(e) = verdict {
                bad = Some(e);
                break;
            }
        }
        stop.store(true, Ordering::Release);
    });
    let mut ctx = Ctx::default();
    ctx.fingerprint = Some(1);
    ctx.nontrivial("concurrent-first-registration-on-a-shared-recorder");
    ctx.desc = Some(format!("{} rounds: {} free-running threads make the first registration of one key (3 of 4 rounds a histogram) on one shared DebuggingRecorder and update through their own handle; two snapshots at quiescence", rounds, nthreads));
    rep.account(ctx);
    rep.evaluations = rounds as u64;
    if let Some((sig, msg)) = bad {
        rep.violations.push(Violation { lane: "stress-shared-recorder".into(), sig, msg, bytes: vec![], sched: vec![], decoded: "free-running threads (not deterministically replayable)".into() });
    }
    rep.wall_s = start.elapsed().as_secs_f64();
    rep
}

/// Free-running stress: snapshots taken while other threads make first-time registrations of unrelated keys. Every
/// snapshot must list every anchor metric (registered before, never touched again), each once and in registration order,
/// with its value.
fn stress_snapshot_vs_registration(pr: &PropRun) -> crate::engine::runner::LaneReport {
    use crate::engine::runner::{LaneReport, Violation};
    use std::sync::atomic::{AtomicBool, AtomicUsize, Ordering};
    static SMETA: Metadata<'static> = Metadata::new("c19reg", Level::INFO, None);
    let start = std::time::Instant::now();
    let mut rep = LaneReport::named("stress-snapshot-during-registrations");
    let epochs = pr.cfg.cases(40, 1500) as usize;
    let anchors = 96usize;
    let mut snapshots = 0u64;
    let mut bad: Option<(String, String)> = None;
    'epochs: for epoch in 0..epochs {
        let rec = DebuggingRecorder::new();
        let snap = rec.snapshotter();
        for i in 0..anchors {
            let key = Key::from_parts(format!("anchor{}", i), vec![metrics::Label::new("e", epoch.to_string())]);
            match i % 3 {
                0 => rec.register_counter(&key, &SMETA).increment(i as u64 + 1),
                1 => rec.register_gauge(&key, &SMETA).set(i as f64),
                _ => rec.register_histogram(&key, &SMETA).record(1.0),
            }
        }
        let _ = snap.snapshot(); // drains the anchors' histograms once
        let stop = AtomicBool::new(false);
        let made = AtomicUsize::new(0);
        std::thread::scope(|s| {
            for t in 0..3usize {
                let (rec, stop, made) = (&rec, &stop, &made);
                s.spawn(move || {
                    let mut n = 0usize;
                    while !stop.load(Ordering::Acquire) && n < 4000 {
                        let key = Key::from_name(format!("fresh_{}_{}", t, n));
                        match (t + n) % 3 {
                            0 => rec.register_counter(&key, &SMETA).increment(1),
                            1 => rec.register_gauge(&key, &SMETA).set(1.0),
                            _ => rec.register_histogram(&key, &SMETA).record(1.0),
                        }
                        n += 1;
                        made.fetch_add(1, Ordering::Relaxed);
                    }
                });
            }
            for _ in 0..12 {
                let v = snap.snapshot().into_vec();
                snapshots += 1;
                let got: Vec<String> = v.iter().filter(|(k, ..)| k.key().name().starts_with("anchor")).map(|(k, ..)| k.key().name().to_string()).collect();
                let want: Vec<String> = (0..anchors).map(|i| format!("anchor{}", i)).collect();
                if got != want {
                    let missing: Vec<&String> = want.iter().filter(|w| !got.contains(w)).take(6).collect();
                    bad = Some(("snapshot-entry-count".into(), format!("a snapshot taken while other threads registered new metrics lists {} of the {} metrics registered earlier (missing e.g. {:?}; order kept: {})", got.len(), anchors, missing, got.windows(2).all(|w| want.iter().position(|x| x == &w[0]) < want.iter().position(|x| x == &w[1])))));
                    break;
                }
                for (k, _, _, val) in v.iter().filter(|(k, ..)| k.key().name().starts_with("anchor")) {
                    let i: usize = k.key().name()[6..].parse().unwrap_or(0);
                    let ok = match val {
                        DebugValue::Counter(c) => *c == i as u64 + 1,
                        DebugValue::Gauge(g) => g.0 == i as f64,
                        DebugValue::Histogram(h) => h.is_empty(),
                    };
                    if !ok {
                        bad = Some(("counter-value-wrong".into(), format!("anchor {} shows {:?} in a snapshot taken during registrations", i, val)));
                        break;
                    }
                }
                if bad.is_some() {
                    break;
                }
            }
            stop.store(true, Ordering::Release);
        });
        if bad.is_some() {
            break 'epochs;
        }
    }
    let mut ctx = Ctx::default();
    ctx.fingerprint = Some(1);
    ctx.nontrivial("snapshot-overlaps-first-time-registrations");
    ctx.desc = Some(format!("{} epochs x 12 snapshots of a recorder holding {} anchor metrics while 3 free-running threads register fresh counters, gauges and histograms", epochs, anchors));
    rep.account(ctx);
    rep.evaluations = snapshots;
    if let Some((sig, msg)) = bad {
        rep.violations.push(Violation { lane: "stress-snapshot-during-registrations".into(), sig, msg, bytes: vec![], sched: vec![], decoded: "free-running threads (not deterministically replayable)".into() });
    }
    rep.wall_s = start.elapsed().as_secs_f64();
    rep
}

pub fn run(cfg: &RunCfg, replay: Option<&str>) -> i32 {
    let mut pr = PropRun::new("C19", cfg, RULE);
    pr.register("direct-histories", &case_direct);
    pr.register("local-recorders-on-threads", &case_threads);
    pr.register("schedules", &case_sched);
    if let Some(f) = replay {
        return pr.replay(f);
    }
    pr.assume("label names within one key are distinct (keys with repeated label names have no single canonical identity, see C03)");
    pr.assume("histogram values of one snapshot are compared as a multiset (the bucket yields newest block first)");
    let r = pr.run_regressions();
    pr.push(r);
    let c = pr.cfg.clone();
    let r = run_lane(&c, "C19", &Lane { name: "direct-histories", cases: c.cases(500_000, 15_000_000), max_len: 200, sched_len: 0, workers: 0, f: &case_direct });
    pr.push(r);
    let r = run_lane(&c, "C19", &Lane { name: "local-recorders-on-threads", cases: c.cases(30_000, 1_000_000), max_len: 400, sched_len: 0, workers: 0, f: &case_threads });
    pr.push(r);
    let r = run_lane(&c, "C19", &Lane { name: "schedules", cases: c.cases(300_000, 8_000_000), max_len: 24, sched_len: 96, workers: 0, f: &case_sched });
    pr.push(r);
    let r = stress_shared(&pr);
    pr.push(r);
    let r = stress_snapshot_vs_registration(&pr);
    pr.push(r);
    pr.finish()
}
