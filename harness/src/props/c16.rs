//! C16 — the sampling reservoir reports true counts and favours no stream position.

use std::{collections::HashMap, sync::Mutex};

use metrics_util::storage::reservoir::AtomicSamplingReservoir;

use crate::{
    engine::{
        report::PropRun,
        runner::{run_lane, Ctx, Fail, Lane, LaneReport, RunCfg, Violation},
        sched::{self, SchedOpts},
        source::Source,
    },
    ensure,
};

const RULE: &str = "sequential lane: a capacity from {0,1,2,3,8,64,1024} and 1-6 push/drain cycles whose push counts are drawn around the capacity (0, below, equal, above), values from an f64 generator with NaN/inf/zero bias, each drain fully or partially iterated; non-trivial = some cycle pushes more than the capacity, or capacity 0 with pushes. Concurrent lane: 1-3 pusher threads with uniquely tagged values and one consumer doing 1-3 drains under a generated schedule over the reservoir hook sites; non-trivial = a push step lies between the first and last step of a drain. Uniformity lane: T independent trials per (capacity,n) configuration, one statistic per stream position; every trial counts as a distinct non-trivial case only once per configuration/position pair.";

const CAPS: [usize; 7] = [0, 1, 2, 3, 8, 64, 1024];

#[derive(Debug)]
struct Cycle {
    values: Vec<f64>,
    take: Option<usize>, // None = iterate fully
}

#[derive(Debug)]
struct SeqCase {
    capacity: usize,
    cycles: Vec<Cycle>,
}

fn decode_seq(src: &mut Source) -> SeqCase {
    let capacity = *src.pick(&CAPS);
    let ncycles = 1 + src.below(6);
    let cycles = (0..ncycles)
        .map(|_| {
            let n = match src.below(6) {
                0 => 0,
                1 => src.below(capacity + 1),
                2 => capacity,
                3 => capacity + 1,
                4 => capacity + 1 + src.below(capacity.min(64) + 3),
                _ => src.below(2 * capacity.min(600) + 8),
            };
            let values = (0..n).map(|_| src.f64_interesting()).collect();
            let take = if src.chance(48) { Some(src.below(capacity + 2)) } else { None };
            Cycle { values, take }
        })
        .collect();
    SeqCase { capacity, cycles }
}

fn multiset(values: &[f64]) -> HashMap<u64, i64> {
    let mut m = HashMap::new();
    for v in values {
        *m.entry(v.to_bits()).or_insert(0) += 1;
    }
    m
}

pub fn case_seq(bytes: &[u8], _s: &[u8], ctx: &mut Ctx) -> Result<(), Fail> {
    let mut src = Source::new(bytes);
    let case = decode_seq(&mut src);
    ctx.case(&case);
    if case.capacity == 0 && case.cycles.iter().any(|c| !c.values.is_empty()) {
        ctx.nontrivial("capacity0-with-pushes");
    }
    if case.cycles.iter().any(|c| c.values.len() > case.capacity) {
        ctx.nontrivial("overflowing-cycle");
    }
    if case.cycles.iter().any(|c| c.take.is_some()) {
        ctx.class("partial-drain");
    }
    let r = AtomicSamplingReservoir::new(case.capacity);
    ensure!(r.is_empty(), "new-reservoir-not-empty", "is_empty() false on a new reservoir");
    for (ci, cyc) in case.cycles.iter().enumerate() {
        for v in &cyc.values {
            r.push(*v);
        }
        let n = cyc.values.len();
        ensure!(r.is_empty() == (n == 0), "is_empty-wrong", "cycle {}: {} values pushed, is_empty()={}", ci, n, r.is_empty());
        let mut got: Vec<f64> = Vec::new();
        let mut rate = f64::NAN;
        let mut reported_len = 0usize;
        let mut calls = 0;
        let (mut rate_after, mut rate_mid) = (None::<f64>, None::<(usize, f64)>);
        r.consume(|mut drain| {
            calls += 1;
            rate = drain.sample_rate();
            reported_len = drain.len();
            match cyc.take {
                None => {
                    got.extend(&mut drain);
                    rate_after = Some(drain.sample_rate());
                }
                Some(k) => {
                    for _ in 0..k {
                        if let Some(v) = drain.next() {
                            got.push(v)
                        }
                    }
                    rate_mid = Some((got.len(), drain.sample_rate()));
                }
            }
        });
        ensure!(calls == 1, "consume-callback-count", "callback invoked {} times", calls);
        let expect_len = n.min(case.capacity);
        ensure!(reported_len == expect_len, "drain-len-wrong", "cycle {}: cap {} pushed {} -> drain.len() {}", ci, case.capacity, n, reported_len);
        ensure!(reported_len <= case.capacity, "more-than-capacity", "drain of {} > capacity {}", reported_len, case.capacity);
        if cyc.take.is_none() {
            ensure!(got.len() == expect_len, "yield-count-wrong", "cycle {}: yielded {} expected {}", ci, got.len(), expect_len);
        }
        // yielded values are a sub-multiset of what was pushed in this cycle
        let pushed = multiset(&cyc.values);
        for (bits, cnt) in multiset(&got) {
            let have = pushed.get(&bits).copied().unwrap_or(0);
            ensure!(cnt <= have, "yielded-value-not-from-this-cycle", "cycle {}: value {:?} yielded {} times but pushed {} times since the previous drain", ci, f64::from_bits(bits), cnt, have);
        }
        if n <= case.capacity && cyc.take.is_none() {
            ensure!(multiset(&got) == pushed, "not-all-values-when-under-capacity", "cycle {}: pushed {} <= capacity {} but drain differs", ci, n, case.capacity);
        }
        let expect_rate = if n == expect_len { 1.0 } else { expect_len as f64 / n as f64 };
        ensure!(rate == expect_rate, "sample-rate-wrong", "cycle {}: cap {} pushed {} -> sample_rate {} expected {}", ci, case.capacity, n, rate, expect_rate);
        // the rate is a fact about the drain, whenever it is asked for: once every value has been yielded it is
        // yielded / pushed; half-way through, either that or (values yielded so far) / pushed
        if let Some(ra) = rate_after {
            ensure!(ra == expect_rate, "sample-rate-wrong", "cycle {}: cap {} pushed {}: sample_rate() after all {} values were yielded is {}, expected {}", ci, case.capacity, n, got.len(), ra, expect_rate);
            ctx.class("sample-rate-read-after-iteration");
        }
        if let Some((j, rm)) = rate_mid {
            let so_far = if n == 0 { 1.0 } else { j as f64 / n as f64 };
            ensure!(rm == expect_rate || rm == so_far, "sample-rate-wrong", "cycle {}: cap {} pushed {}: sample_rate() after {} of {} values is {}, expected {} (or {} counting only the values yielded so far)", ci, case.capacity, n, j, expect_len, rm, expect_rate, so_far);
        }
        ensure!(r.is_empty(), "not-empty-after-drain", "cycle {}: is_empty() false right after a drain", ci);
    }
    // the next drain starts from empty
    let mut leftover = 0;
    r.consume(|d| leftover = d.len());
    ensure!(leftover == 0, "drain-not-empty-after-drain", "a drain with no pushes since the previous one yields {} values", leftover);
    Ok(())
}

#[derive(Debug)]
struct ConcCase {
    capacity: usize,
    prefill: usize,
    pushers: Vec<usize>, // pushes per pusher
    drains: usize,
    window_open: bool,
    /// second recorded window: the drain may be preempted between reading the retired side's count and resetting it
    loss_window_open: bool,
}

#[derive(Debug, Clone)]
enum Ev {
    PushStart(u64),
    PushEnd(u64),
    DrainStart(usize),
    DrainEnd(usize, Vec<u64>, f64),
}

pub fn case_conc(bytes: &[u8], sched_bytes: &[u8], ctx: &mut Ctx) -> Result<(), Fail> {
    let mut src = Source::new(bytes);
    let capacity = *src.pick(&[0usize, 1, 2, 3, 8]);
    let case = ConcCase {
        capacity,
        prefill: src.below(capacity + 2),
        pushers: (0..1 + src.below(3)).map(|_| 1 + src.below(4)).collect(),
        drains: 1 + src.below(3),
        window_open: src.chance(64),
        loss_window_open: false,
    };
    // (drawn after everything else, so that earlier replay files decode as before)
    let case = ConcCase { loss_window_open: src.below(4) == 3, ..case };
    ctx.case(&(&case, sched_bytes));
    let r = AtomicSamplingReservoir::new(case.capacity);
    let log: Mutex<Vec<Ev>> = Mutex::new(Vec::new());
    // tags: unique positive integers as f64 (never 0.0, the slots' initial content)
    let mut next_tag = 1u64;
    let mut all_pushed: Vec<u64> = Vec::new();
    for _ in 0..case.prefill {
        r.push(next_tag as f64);
        log.lock().unwrap().push(Ev::PushStart(next_tag));
        log.lock().unwrap().push(Ev::PushEnd(next_tag));
        all_pushed.push(next_tag);
        next_tag += 1;
    }
    let mut bodies: Vec<Box<dyn FnOnce() + Send + '_>> = Vec::new();
    for &n in &case.pushers {
        let tags: Vec<u64> = (0..n as u64).map(|i| next_tag + i).collect();
        next_tag += n as u64;
        all_pushed.extend(&tags);
        let (r, log) = (&r, &log);
        bodies.push(Box::new(move || {
            for t in tags {
                log.lock().unwrap().push(Ev::PushStart(t));
                r.push(t as f64);
                log.lock().unwrap().push(Ev::PushEnd(t));
                sched::point("c16.push_done");
            }
        }));
    }
    {
        let (r, log) = (&r, &log);
        let drains = case.drains;
        let yield_inside_drain = case.loss_window_open;
        bodies.push(Box::new(move || {
            for d in 0..drains {
                log.lock().unwrap().push(Ev::DrainStart(d));
                let mut got = Vec::new();
                let mut rate = 0.0;
                r.consume(|drain| {
                    rate = drain.sample_rate();
                    for v in drain {
                        got.push(v.to_bits());
                        if yield_inside_drain {
                            sched::point("c16.drain_item");
                        }
                    }
                });
                log.lock().unwrap().push(Ev::DrainEnd(d, got, rate));
                sched::point("c16.drain_done");
            }
        }));
    }
    let mut opts = SchedOpts::default();
    // the two recorded windows are shut unless the case opens them: no yield between a push's slot claim and its
    // store (reservoir.push.claimed), no yield between the drain's read of the count and its reset
    // (reservoir.drain.len_loaded and the harness point inside the drain loop)
    let mut sites = vec!["reservoir.push.flag_loaded", "reservoir.consume.swapped"];
    if case.window_open {
        sites.push("reservoir.push.claimed");
    }
    if case.loss_window_open {
        sites.push("reservoir.drain.len_loaded");
    }
    opts.sites = Some(sites);
    ctx.excluded = match (case.window_open, case.loss_window_open) {
        (false, false) => Some("known-windows-shut:reservoir.push.claimed+reservoir.drain.len_loaded"),
        (false, true) => Some("known-window-shut:reservoir.push.claimed"),
        (true, false) => Some("known-window-shut:reservoir.drain.len_loaded"),
        (true, true) => None,
    };
    let out = sched::explore(sched_bytes, opts, bodies);
    if out.budget_exhausted {
        ctx.discard = true;
        return Ok(());
    }
    ensure!(out.panics.is_empty(), "panic-in-thread", "{:?} in {:?}", out.panics, case);
    ensure!(!out.livelock, "livelock", "push or drain blocked forever: {:?}", out.trace);
    // final quiescent drains to collect leftovers (two: both sides)
    let mut events = log.into_inner().unwrap();
    for extra in 0..2 {
        let mut got = Vec::new();
        events.push(Ev::DrainStart(100 + extra));
        r.consume(|drain| {
            for v in drain {
                got.push(v.to_bits());
            }
        });
        events.push(Ev::DrainEnd(100 + extra, got, 1.0));
    }
    // oracle over the history
    let mut started: Vec<u64> = Vec::new();
    let mut inflight: Vec<u64> = Vec::new();
    let mut yielded: HashMap<u64, usize> = HashMap::new();
    let mut straddle = false;
    let mut in_drain = false;
    let mut inflight_at_drain_start: Vec<u64> = Vec::new();
    for ev in &events {
        match ev {
            Ev::PushStart(t) => {
                started.push(*t);
                inflight.push(*t);
                if in_drain {
                    straddle = true;
                }
            }
            Ev::PushEnd(t) => {
                inflight.retain(|x| x != t);
                if in_drain {
                    straddle = true;
                }
            }
            Ev::DrainStart(_) => {
                in_drain = true;
                inflight_at_drain_start = inflight.clone();
                if !inflight.is_empty() {
                    straddle = true;
                }
            }
            Ev::DrainEnd(d, got, _rate) => {
                in_drain = false;
                let window_hit = !inflight_at_drain_start.is_empty() || !inflight.is_empty();
                let sig = |base: &str| {
                    // a drain that overlapped a push whose slot was claimed but not yet written is
                    // the recorded known finding; anything else is a fresh violation
                    if window_hit && case.window_open {
                        "drain-reads-unwritten-slot".to_string()
                    } else {
                        base.to_string()
                    }
                };
                ensure!(got.len() <= case.capacity, "more-than-capacity", "drain {} yielded {} > capacity {}", d, got.len(), case.capacity);
                for bits in got {
                    let v = f64::from_bits(*bits);
                    let tag = v as u64;
                    let is_tag = v.fract() == 0.0 && tag >= 1 && (tag as f64) == v && started.contains(&tag);
                    ensure!(is_tag, sig("drain-yields-never-pushed-value"), "drain {} yielded {:?}, which no push that had started by then supplied; case {:?} trace {:?}", d, v, case, out.trace);
                    let c = yielded.entry(tag).or_insert(0);
                    *c += 1;
                    ensure!(*c == 1, sig("value-yielded-twice"), "value {} yielded twice (again in drain {}); case {:?} trace {:?}", tag, d, case, out.trace);
                }
            }
        }
    }
    if straddle {
        ctx.nontrivial("push-overlaps-drain");
    }
    if all_pushed.len() > case.capacity {
        ctx.class("overflow");
    } else {
        // never more than the capacity in any cycle: nothing may be sampled away, so by the end (two quiescent
        // drains, one per side) every completed push has been yielded by some drain — whichever drain a push
        // that straddled one is counted towards
        let missing: Vec<u64> = all_pushed.iter().copied().filter(|t| !yielded.contains_key(t)).collect();
        let sig = if case.loss_window_open {
            "push-lost-when-drain-resets-count"
        } else if case.window_open {
            "drain-reads-unwritten-slot"
        } else {
            "pushed-value-never-yielded"
        };
        ensure!(missing.is_empty(), sig, "values {:?} were pushed (every push() returned, never more than the capacity {} in flight) but no drain, not even the two at quiescence, yielded them; case {:?} trace {:?}", missing, case.capacity, case, out.trace);
        ctx.class("all-pushes-accounted-for");
    }
    Ok(())
}

/// Two consumers: while one drain is open (inside the closure of a consume()), a second thread calls consume() as
/// well, and the first one keeps pushing before it finally iterates its drain. consume() calls are serialised by the
/// reservoir, so the second one waits; whatever the order, by the end (two quiescent drains) every value must have
/// been yielded exactly once — never more than the capacity is pushed. No pusher runs concurrently with a drain of
/// its own side here, so neither recorded window is involved.
fn overlapping_consumes(pr: &PropRun) -> LaneReport {
    use crate::engine::runner::Violation;
    use std::sync::atomic::{AtomicBool, Ordering};
    let start = std::time::Instant::now();
    let mut rep = LaneReport::named("overlapping-consumes");
    let rounds = pr.cfg.cases(60, 1_500);
    let mut bad: Option<String> = None;
    for round in 0..rounds {
        let cap = [4usize, 8, 16][(round % 3) as usize];
        let n0 = 1 + (round % 3) as u64;
        let n1 = 1 + (round / 3 % 2) as u64;
        let r = AtomicSamplingReservoir::new(cap);
        let mut pushed: Vec<u64> = Vec::new();
        let mut next = 1u64;
        for _ in 0..n0 {
            r.push(next as f64);
            pushed.push(next);
            next += 1;
        }
        let mut yielded: Vec<(u8, f64)> = Vec::new();
        let second: Mutex<Vec<f64>> = Mutex::new(Vec::new());
        let done = AtomicBool::new(false);
        let mut second_finished_inside = false;
        std::thread::scope(|s| {
            r.consume(|drain| {
                let (r, second, done) = (&r, &second, &done);
                s.spawn(move || {
                    let mut got = Vec::new();
                    r.consume(|d| got.extend(d));
                    *second.lock().unwrap() = got;
                    done.store(true, Ordering::Release);
                });
                let t0 = std::time::Instant::now();
                while !done.load(Ordering::Acquire) && t0.elapsed() < std::time::Duration::from_millis(12) {
                    std::thread::sleep(std::time::Duration::from_micros(200));
                }
                second_finished_inside = done.load(Ordering::Acquire);
                for _ in 0..n1 {
                    r.push(next as f64);
                    pushed.push(next);
                    next += 1;
                }
                yielded.extend(drain.map(|v| (1u8, v)));
            });
        });
        yielded.extend(second.lock().unwrap().iter().map(|v| (2u8, *v)));
        for extra in 0..2u8 {
            r.consume(|d| yielded.extend(d.map(|v| (10 + extra, v))));
        }
        let mut ctx = Ctx::default();
        ctx.fingerprint = Some(round);
        ctx.nontrivial("second-consume-issued-while-a-drain-is-open");
        if second_finished_inside {
            ctx.class("second-consume-finished-while-the-first-drain-was-open");
        }
        if round == 0 {
            ctx.desc = Some("push 1-3 values; consume(|drain| { another thread calls consume(); wait 12 ms for it; push 1-2 more values; iterate drain }); two quiescent drains".into());
        }
        rep.account(ctx);
        let mut seen: Vec<u64> = yielded.iter().map(|(_, v)| *v as u64).collect();
        seen.sort();
        if seen != pushed {
            bad = Some(format!("round {}: capacity {}, values {:?} were pushed ({} before the first consume, {} inside its closure while a second consume was pending) but the drains yielded (drain, value) {:?}; the second consume {} while the first drain was open", round, cap, pushed, n0, n1, yielded, if second_finished_inside { "ran to completion" } else { "waited" }));
            break;
        }
    }
    if let Some(msg) = bad {
        rep.violations.push(Violation { lane: "overlapping-consumes".into(), sig: "values-lost-or-repeated-by-overlapping-consumes".into(), msg, bytes: vec![], sched: vec![], decoded: "two real threads (the second consume is released by the first one's return)".into() });
    }
    rep.wall_s = start.elapsed().as_secs_f64();
    rep
}

fn uniformity(pr: &PropRun) -> LaneReport {
    let start = std::time::Instant::now();
    let mut rep = LaneReport::named("uniformity");
    let trials = pr.cfg.cases(200_000, 4_000_000) as usize;
    let configs: [(usize, usize); 6] = [(1, 2), (1, 3), (2, 5), (3, 10), (8, 64), (64, 100)];
    let results: Mutex<Vec<((usize, usize), Vec<u64>)>> = Mutex::new(Vec::new());
    std::thread::scope(|s| {
        for &(k, n) in &configs {
            let results = &results;
            s.spawn(move || {
                let mut counts = vec![0u64; n];
                let r = AtomicSamplingReservoir::new(k);
                for _ in 0..trials {
                    for i in 0..n {
                        r.push((i + 1) as f64);
                    }
                    r.consume(|d| {
                        for v in d {
                            let i = v as usize;
                            if i >= 1 && i <= n {
                                counts[i - 1] += 1;
                            }
                        }
                    });
                }
                results.lock().unwrap().push(((k, n), counts));
            });
        }
    });
    let mut results = results.into_inner().unwrap();
    results.sort();
    for ((k, n), counts) in results {
        let p = k as f64 / n as f64;
        let t = trials as f64;
        let sigma = (t * p * (1.0 - p)).sqrt();
        let mut worst = 0.0f64;
        for (i, c) in counts.iter().enumerate() {
            let z = (*c as f64 - t * p).abs() / sigma;
            worst = worst.max(z);
            let mut ctx = Ctx::default();
            ctx.nontrivial("retention-frequency-statistic");
            ctx.fingerprint = Some((k * 1_000_000 + n * 1000 + i) as u64);
            if i == 0 {
                ctx.desc = Some(format!("capacity {} n {} trials {}: retention counts per position {:?} (expected {:.1} each, 6 sigma = {:.1})", k, n, trials, counts, t * p, 6.0 * sigma));
            }
            rep.account(ctx);
            if z > 6.0 {
                let sig = "position-retention-not-uniform".to_string();
                let msg = format!("capacity {} of n {}: position {} retained {} times in {} trials, expected {:.1} +- {:.1} (z = {:.1}); all counts {:?}", k, n, i, c, trials, t * p, sigma, z, counts);
                if pr.cfg.is_known(&sig) {
                    rep.known_hits.entry(sig).or_insert((0, vec![], vec![], msg)).0 += 1;
                } else {
                    rep.violations.push(Violation { lane: "uniformity".into(), sig, msg, bytes: vec![k as u8, n as u8], sched: vec![], decoded: format!("capacity {} n {} trials {}", k, n, trials) });
                }
                break;
            }
        }
        rep.notes.push(format!("cap {} n {}: worst z {:.2}", k, n, worst));
    }
    rep.evaluations = (trials * configs.len()) as u64;
    rep.wall_s = start.elapsed().as_secs_f64();
    rep
}

pub fn case_uniformity_replay(bytes: &[u8], _s: &[u8], ctx: &mut Ctx) -> Result<(), Fail> {
    let k = *bytes.first().unwrap_or(&1) as usize;
    let n = (*bytes.get(1).unwrap_or(&2) as usize).max(k + 1);
    ctx.case(&("uniformity replay", k, n));
    let trials = 40_000usize;
    let mut counts = vec![0u64; n];
    let r = AtomicSamplingReservoir::new(k);
    for _ in 0..trials {
        for i in 0..n {
            r.push((i + 1) as f64);
        }
        r.consume(|d| {
            for v in d {
                counts[(v as usize).clamp(1, n) - 1] += 1;
            }
        });
    }
    let p = k as f64 / n as f64;
    let sigma = (trials as f64 * p * (1.0 - p)).sqrt();
    for (i, c) in counts.iter().enumerate() {
        let z = (*c as f64 - trials as f64 * p).abs() / sigma;
        ensure!(z <= 6.0, "position-retention-not-uniform", "capacity {} n {}: position {} retained {} of {} (z={:.1}) counts {:?}", k, n, i, c, trials, z, counts);
    }
    Ok(())
}

/// The same statistic with every trial on a freshly spawned thread: the sampler's generator is per-thread
/// state, so trials that share a thread cannot see a generator that starts every thread in the same state.
fn uniformity_fresh_threads(pr: &PropRun) -> LaneReport {
    let start = std::time::Instant::now();
    let mut rep = LaneReport::named("uniformity-fresh-threads");
    let trials = pr.cfg.cases(6_000, 200_000) as usize;
    let configs: [(usize, usize); 3] = [(1, 2), (2, 5), (4, 16)];
    for &(k, n) in &configs {
        let counts: Vec<std::sync::atomic::AtomicU64> = (0..n).map(|_| std::sync::atomic::AtomicU64::new(0)).collect();
        let mut done = 0usize;
        while done < trials {
            let batch = (trials - done).min(16);
            std::thread::scope(|s| {
                for _ in 0..batch {
                    let counts = &counts;
                    s.spawn(move || {
                        let r = AtomicSamplingReservoir::new(k);
                        for i in 0..n {
                            r.push((i + 1) as f64);
                        }
                        r.consume(|d| {
                            for v in d {
                                let i = v as usize;
                                if i >= 1 && i <= n {
                                    counts[i - 1].fetch_add(1, std::sync::atomic::Ordering::Relaxed);
                                }
                            }
                        });
                    });
                }
            });
            done += batch;
        }
        let counts: Vec<u64> = counts.iter().map(|c| c.load(std::sync::atomic::Ordering::Relaxed)).collect();
        let p = k as f64 / n as f64;
        let t = trials as f64;
        let sigma = (t * p * (1.0 - p)).sqrt();
        let mut worst = 0.0f64;
        for (i, c) in counts.iter().enumerate() {
            let z = (*c as f64 - t * p).abs() / sigma;
            worst = worst.max(z);
            let mut ctx = Ctx::default();
            ctx.nontrivial("retention-frequency-statistic-fresh-threads");
            ctx.fingerprint = Some((k * 1_000_000 + n * 1000 + i) as u64);
            if i == 0 {
                ctx.desc = Some(format!("capacity {} n {}, {} trials each on a newly spawned thread: retention counts per position {:?} (expected {:.1} each, 6 sigma = {:.1})", k, n, trials, counts, t * p, 6.0 * sigma));
            }
            rep.account(ctx);
            if z > 6.0 {
                rep.violations.push(Violation {
                    lane: "uniformity-fresh-threads".into(),
                    sig: "position-retention-not-uniform-across-threads".into(),
                    msg: format!("capacity {} of n {}, one trial per new thread: position {} retained {} times in {} trials, expected {:.1} +- {:.1} (z = {:.1}); all counts {:?}", k, n, i, c, trials, t * p, sigma, z, counts),
                    bytes: vec![k as u8, n as u8],
                    sched: vec![],
                    decoded: format!("capacity {} n {} trials {} (each on a new thread)", k, n, trials),
                });
                break;
            }
        }
        rep.notes.push(format!("cap {} n {}: worst z {:.2}", k, n, worst));
    }
    rep.evaluations = (trials * configs.len()) as u64;
    rep.wall_s = start.elapsed().as_secs_f64();
    rep
}

pub fn case_uniformity_fresh_replay(bytes: &[u8], _s: &[u8], ctx: &mut Ctx) -> Result<(), Fail> {
    let k = (*bytes.first().unwrap_or(&1) as usize).max(1);
    let n = (*bytes.get(1).unwrap_or(&2) as usize).max(k + 1);
    ctx.case(&("uniformity replay, one trial per new thread", k, n));
    let trials = 4_000usize;
    let mut counts = vec![0u64; n];
    for _ in 0..trials {
        let got = std::thread::spawn(move || {
            let r = AtomicSamplingReservoir::new(k);
            for i in 0..n {
                r.push((i + 1) as f64);
            }
            let mut out = vec![];
            r.consume(|d| out.extend(d));
            out
        })
        .join()
        .map_err(|_| Fail::new("reservoir-panicked", "push/consume panicked".to_string()))?;
        for v in got {
            counts[(v as usize).clamp(1, n) - 1] += 1;
        }
    }
    let p = k as f64 / n as f64;
    let sigma = (trials as f64 * p * (1.0 - p)).sqrt();
    for (i, c) in counts.iter().enumerate() {
        let z = (*c as f64 - trials as f64 * p).abs() / sigma;
        ensure!(z <= 6.0, "position-retention-not-uniform-across-threads", "capacity {} n {}: position {} retained {} of {} (z={:.1}) counts {:?}", k, n, i, c, trials, z, counts);
    }
    Ok(())
}

/// The reservoir as the DogStatsD exporter configures it (sampling on, `with_histogram_reservoir_size(r)`): between two
/// flushes of the aggregation state a histogram yields min(n, r) of the n recorded values, all of them recorded in that
/// window, and reports the rate min(n, r) / n — for the capacity the user configured, whatever it is.
pub fn case_exporter(bytes: &[u8], _s: &[u8], ctx: &mut Ctx) -> Result<(), Fail> {
    use metrics::{Key, Level, Metadata, Recorder};
    use metrics_exporter_dogstatsd::{__verif::Driver, AggregationMode};
    static EMETA: Metadata<'static> = Metadata::new("c16e", Level::INFO, None);
    let mut src = Source::new(bytes);
    let cap = *src.pick(&[1usize, 2, 3, 5, 6, 7, 9, 100, 1000, 1024]);
    let cycles: Vec<usize> = (0..1 + src.below(4))
        .map(|_| match src.below(5) {
            0 => src.below(cap + 1),
            1 => cap,
            2 => cap + 1,
            _ => cap + 1 + src.below(cap.min(300) + 3),
        })
        .collect();
    let distributions = src.bool();
    ctx.case(&(cap, &cycles, distributions));
    if cap & (cap - 1) != 0 && cycles.iter().any(|n| *n > cap) {
        ctx.nontrivial("overflowing-cycle-with-a-capacity-that-is-not-a-power-of-two");
    }
    let mut driver = Driver::new(AggregationMode::Conservative, true, cap, distributions, vec![], None, 65_000, false);
    let rec = driver.recorder();
    let key = Key::from_name("h");
    let mut next = 1u64;
    for (ci, n) in cycles.iter().enumerate() {
        let first = next;
        for _ in 0..*n {
            rec.register_histogram(&key, &EMETA).record(next as f64);
            next += 1;
        }
        let payloads = driver.flush();
        let mut sent: Vec<u64> = vec![];
        let mut rates: Vec<Option<String>> = vec![];
        for p in &payloads {
            let m = crate::parsers::parse_dsd_message(p).map_err(|e| Fail::new("payload-not-one-message", e))?;
            for v in &m.values {
                sent.push(v.parse::<f64>().map_err(|_| Fail::new("bad-value", v.clone()))? as u64);
            }
            rates.push(m.sample_rate.clone());
        }
        let want = (*n).min(cap);
        ensure!(sent.len() <= cap, "more-than-capacity", "cycle {}: reservoir size {} configured, {} values recorded, one flush sent {}", ci, cap, n, sent.len());
        ensure!(sent.len() == want, "yield-count-wrong", "cycle {}: reservoir size {} configured, {} values recorded, flush sent {} (expected {})", ci, cap, n, sent.len(), want);
        let mut uniq = sent.clone();
        uniq.sort();
        uniq.dedup();
        ensure!(uniq.len() == sent.len() && sent.iter().all(|v| *v >= first && *v < next), "yielded-value-not-from-this-cycle", "cycle {}: values {:?} sent, recorded in this window were {}..{}", ci, sent, first, next);
        let expect_rate = if *n <= cap { 1.0 } else { cap as f64 / *n as f64 };
        for r in &rates {
            let got: f64 = r.as_deref().map(|t| t.parse().unwrap_or(f64::NAN)).unwrap_or(1.0);
            ensure!(got == expect_rate, "sample-rate-wrong", "cycle {}: reservoir size {} configured, {} recorded: message carries sample rate {:?}, expected {}", ci, cap, n, r, expect_rate);
        }
    }
    Ok(())
}

pub fn run(cfg: &RunCfg, replay: Option<&str>) -> i32 {
    let mut pr = PropRun::new("C16", cfg, RULE);
    pr.register("sequential", &case_seq);
    pr.register("concurrent", &case_conc);
    pr.register("uniformity", &case_uniformity_replay);
    pr.register("through-the-exporter", &case_exporter);
    pr.register("uniformity-fresh-threads", &case_uniformity_fresh_replay);
    if let Some(f) = replay {
        return pr.replay(f);
    }
    pr.assume("uniformity lane uses the library's own OsRng-seeded thread-local generator, so it is not a function of VERIF_SEED; threshold 6 sigma per statistic (false-alarm probability < 2e-9 each)");
    pr.assume("concurrent lane asserts only: nothing fabricated or stale, nothing yielded twice, never more than capacity, no panic/livelock (a push straddling a drain may legitimately land in either cycle or be sampled out)");
    pr.assume("SC interleavings at hook granularity only");
    let r = pr.run_regressions();
    pr.push(r);
    let c = pr.cfg.clone();
    let r = run_lane(&c, "C16", &Lane { name: "sequential", cases: c.cases(600_000, 10_000_000), max_len: 600, sched_len: 0, workers: 0, f: &case_seq });
    pr.push(r);
    let r = run_lane(&c, "C16", &Lane { name: "concurrent", cases: c.cases(1_000_000, 20_000_000), max_len: 24, sched_len: 48, workers: 0, f: &case_conc });
    pr.push(r);
    let r = run_lane(&c, "C16", &Lane { name: "through-the-exporter", cases: c.cases(60_000, 2_000_000), max_len: 32, sched_len: 0, workers: 0, f: &case_exporter });
    pr.push(r);
    let r = overlapping_consumes(&pr);
    pr.push(r);
    let r = uniformity(&pr);
    pr.push(r);
    let r = uniformity_fresh_threads(&pr);
    pr.push(r);
    pr.finish()
}
