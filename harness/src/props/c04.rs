//! C04 — counter, gauge and histogram handles apply every update exactly once.

use std::{
    sync::{
        atomic::{AtomicBool, Ordering},
        Arc, Mutex,
    },
    time::Duration,
};

use metrics::{atomics::AtomicU64, Counter, Gauge, Histogram};

use crate::{
    doubles::{new_log, LogHandle, Op},
    engine::{
        report::PropRun,
        runner::{run_lane, Ctx, Fail, Lane, LaneReport, RunCfg, Violation},
        sched::{self, SchedOpts},
        source::Source,
    },
    ensure,
    util::f64_same,
};

const RULE: &str = "sequence lane: 2-40 operations through 1-8 clones of Counter/Gauge/Histogram handles built with from_arc / From<Arc<T>> / Arc<Arc<T>> over the standard atomic storage (counter, gauge) and a logging double (histogram, and all three kinds for delivery checks), plus no-op handles; arguments cover u64 extremes, every IntoF64 source type (f64 incl. NaN/inf/-0/subnormal, f32, i8..u32, Duration) and record_many counts 0..4096 looped over by a logging double and 65536..usize::MAX (around 2^31, 2^32, 2^63) taken whole by a tallying double; the exact sequential model is compared after every step. Non-trivial = a non-finite or extreme argument, or >= 2 clones used. Thread lane: 2-3 threads with 1-5 operations each under an op-granularity generated schedule, model applied in execution order. Stress lane: 16 free-running threads (increment-only counter, gauge fed exactly summable deltas, counter with absolutes sampled for monotonicity). Distinct = distinct decoded (case, schedule).";

#[derive(Debug, Clone)]
enum Arg {
    F64(f64),
    F32(f32),
    I8(i8),
    U8(u8),
    I16(i16),
    U16(u16),
    I32(i32),
    U32(u32),
    Dur(u64, u32),
}

impl Arg {
    fn reference(&self) -> f64 {
        match self {
            Arg::F64(v) => *v,
            Arg::F32(v) => *v as f64,
            Arg::I8(v) => *v as f64,
            Arg::U8(v) => *v as f64,
            Arg::I16(v) => *v as f64,
            Arg::U16(v) => *v as f64,
            Arg::I32(v) => *v as f64,
            Arg::U32(v) => *v as f64,
            Arg::Dur(s, n) => Duration::new(*s, *n).as_secs_f64(),
        }
    }
    fn extreme(&self) -> bool {
        match self {
            Arg::F64(v) => !v.is_finite() || *v == 0.0 || v.abs() >= 9007199254740991.0 || v.abs() < f64::MIN_POSITIVE,
            Arg::F32(v) => !v.is_finite(),
            Arg::I8(v) => *v == i8::MIN,
            Arg::U32(v) => *v == u32::MAX,
            Arg::Dur(s, _) => *s > 1 << 40,
            _ => false,
        }
    }
}

fn dec_arg(src: &mut Source) -> Arg {
    match src.below(12) {
        0 | 1 | 2 | 3 => Arg::F64(src.f64_interesting()),
        4 => Arg::F32(*src.pick(&[0.0f32, -0.0, 1.5, f32::MAX, f32::MIN_POSITIVE, f32::INFINITY, f32::NEG_INFINITY, f32::NAN, 16777217.0])),
        5 => Arg::I8(src.byte() as i8),
        6 => Arg::U8(src.byte()),
        7 => Arg::I16(src.int_in(0, 65535) as u16 as i16),
        8 => Arg::U16(src.int_in(0, 65535) as u16),
        9 => Arg::I32(*src.pick(&[0, 1, -1, i32::MIN, i32::MAX, 123456])),
        10 => Arg::U32(*src.pick(&[0, 1, u32::MAX, 4000000000])),
        _ => Arg::Dur(*src.pick(&[0, 1, 59, 1 << 41, u64::MAX / 2]), *src.pick(&[0u32, 1, 500_000_000, 999_999_999])),
    }
}

macro_rules! with_arg {
    ($arg:expr, |$v:ident| $body:expr) => {
        match $arg {
            Arg::F64($v) => $body,
            Arg::F32($v) => $body,
            Arg::I8($v) => $body,
            Arg::U8($v) => $body,
            Arg::I16($v) => $body,
            Arg::U16($v) => $body,
            Arg::I32($v) => $body,
            Arg::U32($v) => $body,
            Arg::Dur(s, n) => {
                let $v = Duration::new(*s, *n);
                $body
            }
        }
    };
}

#[derive(Debug, Clone)]
enum Step {
    CInc(usize, u64),
    CAbs(usize, u64),
    GInc(usize, Arg),
    GDec(usize, Arg),
    GSet(usize, Arg),
    HRec(usize, Arg),
    HMany(usize, Arg, usize),
    Noop(u8, Arg),
}

#[derive(Debug)]
struct Case {
    clones: usize,
    steps: Vec<Step>,
}

fn dec_step(src: &mut Source, clones: usize) -> Step {
    let c = src.below(clones);
    match src.below(9) {
        0 | 1 => Step::CInc(c, src.u64_interesting()),
        2 => Step::CAbs(c, src.u64_interesting()),
        3 => Step::GInc(c, dec_arg(src)),
        4 => Step::GDec(c, dec_arg(src)),
        5 => Step::GSet(c, dec_arg(src)),
        6 => Step::HRec(c, dec_arg(src)),
        7 => Step::HMany(c, dec_arg(src), *src.pick(&[0usize, 1, 2, 3, 64, 65, 4096, 7, u32::MAX as usize, 1usize << 32, (1usize << 32) + 7, usize::MAX, 1usize << 63, 65536, i32::MAX as usize + 1, 5])),
        _ => Step::Noop(src.below(3) as u8, dec_arg(src)),
    }
}

fn decode(src: &mut Source) -> Case {
    let clones = 1 + src.below(8);
    let n = 2 + src.below(39);
    Case { clones, steps: (0..n).map(|_| dec_step(src, clones)).collect() }
}

struct Handles {
    c_atomic: Arc<AtomicU64>,
    g_atomic: Arc<AtomicU64>,
    counters: Vec<Counter>,
    gauges: Vec<Gauge>,
    hists: Vec<Histogram>,
    log_counters: Vec<Counter>,
    log_gauges: Vec<Gauge>,
    log: crate::doubles::Log,
    /// clones of a histogram handle over a storage that takes a whole batch in O(1) (counts above 4096, up to usize::MAX)
    big_hists: Vec<Histogram>,
    tally: Arc<Mutex<Vec<(u64, usize)>>>,
}

/// Histogram storage that overrides `record_many` and notes (value bits, count) per call, so that batch sizes
/// beyond what can be looped over (2^32 and more) are checked for exact delivery as well.
struct Tally(Arc<Mutex<Vec<(u64, usize)>>>);
impl metrics::HistogramFn for Tally {
    fn record(&self, value: f64) {
        self.0.lock().unwrap().push((value.to_bits(), 1));
    }
    fn record_many(&self, value: f64, count: usize) {
        self.0.lock().unwrap().push((value.to_bits(), count));
    }
}

fn mk_handles(clones: usize) -> Handles {
    let c_atomic = Arc::new(AtomicU64::new(0));
    let g_atomic = Arc::new(AtomicU64::new(0f64.to_bits()));
    let log = new_log();
    let mk_log = |name: &str| Arc::new(LogHandle { rec: 1, key: name.to_string(), log: log.clone(), in_scope: Arc::new(AtomicBool::new(true)), finalized: Arc::new(AtomicBool::new(false)) });
    let base_c = Counter::from_arc(c_atomic.clone());
    let base_g: Gauge = g_atomic.clone().into(); // From<Arc<T>>
    let base_h = Histogram::from_arc(Arc::new(mk_log("h"))); // Arc<Arc<T>> through the blanket impl
    let base_lc = Counter::from_arc(mk_log("c"));
    let base_lg = Gauge::from_arc(mk_log("g"));
    let tally = Arc::new(Mutex::new(vec![]));
    let base_big = Histogram::from_arc(Arc::new(Tally(tally.clone())));
    Handles {
        big_hists: (0..clones).map(|_| base_big.clone()).collect(),
        tally,
        c_atomic,
        g_atomic,
        counters: (0..clones).map(|_| base_c.clone()).collect(),
        gauges: (0..clones).map(|_| base_g.clone()).collect(),
        hists: (0..clones).map(|_| base_h.clone()).collect(),
        log_counters: (0..clones).map(|_| base_lc.clone()).collect(),
        log_gauges: (0..clones).map(|_| base_lg.clone()).collect(),
        log,
    }
}

#[derive(Default)]
struct Model {
    counter: u64,
    gauge: f64,
    log_len: usize,
}

fn apply(h: &Handles, m: &mut Model, step: &Step) -> Result<(), Fail> {
    match step {
        Step::CInc(c, v) => {
            h.counters[*c].increment(*v);
            h.log_counters[*c].increment(*v);
            m.counter = m.counter.wrapping_add(*v);
            expect_log(h, m, &[Op::CounterInc(*v)])?;
        }
        Step::CAbs(c, v) => {
            h.counters[*c].absolute(*v);
            h.log_counters[*c].absolute(*v);
            m.counter = m.counter.max(*v);
            expect_log(h, m, &[Op::CounterAbs(*v)])?;
        }
        Step::GInc(c, a) => {
            with_arg!(a, |v| {
                h.gauges[*c].increment(v.clone());
                h.log_gauges[*c].increment(v.clone());
            });
            m.gauge += a.reference();
            expect_log(h, m, &[Op::GaugeInc(a.reference().to_bits())])?;
        }
        Step::GDec(c, a) => {
            with_arg!(a, |v| {
                h.gauges[*c].decrement(v.clone());
                h.log_gauges[*c].decrement(v.clone());
            });
            m.gauge -= a.reference();
            expect_log(h, m, &[Op::GaugeDec(a.reference().to_bits())])?;
        }
        Step::GSet(c, a) => {
            with_arg!(a, |v| {
                h.gauges[*c].set(v.clone());
                h.log_gauges[*c].set(v.clone());
            });
            m.gauge = a.reference();
            expect_log(h, m, &[Op::GaugeSet(a.reference().to_bits())])?;
        }
        Step::HRec(c, a) => {
            with_arg!(a, |v| h.hists[*c].record(v.clone()));
            expect_log(h, m, &[Op::HistRecord(a.reference().to_bits())])?;
        }
        Step::HMany(c, a, n) if *n > 4096 => {
            let before = h.tally.lock().unwrap().len();
            with_arg!(a, |v| h.big_hists[*c].record_many(v.clone(), *n));
            let got: Vec<(u64, usize)> = h.tally.lock().unwrap()[before..].to_vec();
            let delivered: u128 = got.iter().map(|(_, k)| *k as u128).sum();
            ensure!(delivered == *n as u128 && got.iter().all(|(b, _)| f64_same(f64::from_bits(*b), a.reference())), "record-many-count-wrong", "record_many({:?}, {}) through clone {} delivered {:?} to a storage that takes batches whole: {} samples in total", a, n, c, got, delivered);
            expect_log(h, m, &[])?;
        }
        Step::HMany(c, a, n) => {
            with_arg!(a, |v| h.hists[*c].record_many(v.clone(), *n));
            let want: Vec<Op> = (0..*n).map(|_| Op::HistRecord(a.reference().to_bits())).collect();
            expect_log(h, m, &want)?;
        }
        Step::Noop(kind, a) => {
            match kind {
                0 => {
                    Counter::noop().increment(a.reference() as u64);
                    Counter::noop().absolute(u64::MAX);
                }
                1 => {
                    with_arg!(a, |v| {
                        Gauge::noop().increment(v.clone());
                        Gauge::noop().decrement(v.clone());
                        Gauge::noop().set(v.clone());
                    });
                }
                _ => {
                    with_arg!(a, |v| {
                        Histogram::noop().record(v.clone());
                        Histogram::noop().record_many(v.clone(), usize::MAX);
                    });
                }
            }
            expect_log(h, m, &[])?;
        }
    }
    let c = h.c_atomic.load(Ordering::SeqCst);
    ensure!(c == m.counter, "counter-value-wrong", "after {:?} the counter holds {} but the model says {}", step, c, m.counter);
    let g = f64::from_bits(h.g_atomic.load(Ordering::SeqCst));
    ensure!(f64_same(g, m.gauge), "gauge-value-wrong", "after {:?} the gauge holds {:?} but the model says {:?}", step, g, m.gauge);
    Ok(())
}

fn expect_log(h: &Handles, m: &mut Model, want: &[Op]) -> Result<(), Fail> {
    let log = h.log.lock().unwrap();
    let new: Vec<&Op> = log[m.log_len..].iter().map(|e| &e.op).collect();
    // NaN payloads compare by bits; normalise NaN
    let norm = |o: &Op| match o {
        Op::GaugeInc(b) | Op::GaugeDec(b) | Op::GaugeSet(b) | Op::HistRecord(b) if f64::from_bits(*b).is_nan() => std::mem::discriminant(o),
        _ => std::mem::discriminant(o),
    };
    let same = new.len() == want.len()
        && new.iter().zip(want.iter()).all(|(a, b)| {
            norm(a) == norm(b)
                && match (a, b) {
                    (Op::CounterInc(x), Op::CounterInc(y)) | (Op::CounterAbs(x), Op::CounterAbs(y)) => x == y,
                    (Op::GaugeInc(x), Op::GaugeInc(y)) | (Op::GaugeDec(x), Op::GaugeDec(y)) | (Op::GaugeSet(x), Op::GaugeSet(y)) | (Op::HistRecord(x), Op::HistRecord(y)) => f64_same(f64::from_bits(*x), f64::from_bits(*y)),
                    _ => false,
                }
        });
    ensure!(same, "delivery-wrong", "the handle's storage received {} call(s) {:?}, expected {} call(s) starting with {:?}", new.len(), new.iter().take(3).collect::<Vec<_>>(), want.len(), want.first());
    m.log_len = log.len();
    Ok(())
}

pub fn case_seq(bytes: &[u8], _s: &[u8], ctx: &mut Ctx) -> Result<(), Fail> {
    let mut src = Source::new(bytes);
    let case = decode(&mut src);
    ctx.case(&case);
    let extreme = case.steps.iter().any(|s| match s {
        Step::CInc(_, v) | Step::CAbs(_, v) => *v == u64::MAX || *v >= 1 << 63,
        Step::GInc(_, a) | Step::GDec(_, a) | Step::GSet(_, a) | Step::HRec(_, a) | Step::HMany(_, a, _) | Step::Noop(_, a) => a.extreme(),
    });
    if extreme {
        ctx.nontrivial("non-finite-or-extreme-argument");
    }
    if case.clones >= 2 {
        ctx.nontrivial("several-clones");
    }
    let h = mk_handles(case.clones);
    let mut m = Model::default();
    for s in &case.steps {
        apply(&h, &mut m, s)?;
    }
    Ok(())
}

pub fn case_threads(bytes: &[u8], sched_bytes: &[u8], ctx: &mut Ctx) -> Result<(), Fail> {
    let mut src = Source::new(bytes);
    let nt = 2 + src.below(2);
    let threads: Vec<Vec<Step>> = (0..nt).map(|t| (0..1 + src.below(5)).map(|_| dec_step(&mut src, nt).with_clone(t)).collect()).collect();
    ctx.case(&(&threads, sched_bytes));
    ctx.nontrivial("clones-on-several-threads");
    let h = mk_handles(nt);
    let order: Mutex<Vec<Step>> = Mutex::new(vec![]);
    let bodies: Vec<Box<dyn FnOnce() + Send + '_>> = threads
        .iter()
        .map(|ops| {
            let (h, order) = (&h, &order);
            Box::new(move || {
                for s in ops {
                    // the harness-side model is applied later in this same order
                    let mut scratch = Model { counter: 0, gauge: 0.0, log_len: usize::MAX };
                    let _ = &mut scratch;
                    apply_raw(h, s);
                    order.lock().unwrap().push(s.clone());
                    sched::point("c04.op_done");
                }
            }) as Box<dyn FnOnce() + Send + '_>
        })
        .collect();
    let out = sched::explore(sched_bytes, SchedOpts::default(), bodies);
    ensure!(out.panics.is_empty(), "panic-in-thread", "{:?}", out.panics);
    let mut m = Model::default();
    let mut want_log: Vec<Op> = vec![];
    for s in order.into_inner().unwrap() {
        match &s {
            Step::CInc(_, v) => {
                m.counter = m.counter.wrapping_add(*v);
                want_log.push(Op::CounterInc(*v));
            }
            Step::CAbs(_, v) => {
                m.counter = m.counter.max(*v);
                want_log.push(Op::CounterAbs(*v));
            }
            Step::GInc(_, a) => {
                m.gauge += a.reference();
                want_log.push(Op::GaugeInc(a.reference().to_bits()));
            }
            Step::GDec(_, a) => {
                m.gauge -= a.reference();
                want_log.push(Op::GaugeDec(a.reference().to_bits()));
            }
            Step::GSet(_, a) => {
                m.gauge = a.reference();
                want_log.push(Op::GaugeSet(a.reference().to_bits()));
            }
            Step::HRec(_, a) => want_log.push(Op::HistRecord(a.reference().to_bits())),
            Step::HMany(_, a, n) => {
                for _ in 0..*n {
                    want_log.push(Op::HistRecord(a.reference().to_bits()));
                }
            }
            Step::Noop(..) => {}
        }
    }
    ensure!(h.c_atomic.load(Ordering::SeqCst) == m.counter, "counter-value-wrong", "counter {} model {}", h.c_atomic.load(Ordering::SeqCst), m.counter);
    let g = f64::from_bits(h.g_atomic.load(Ordering::SeqCst));
    ensure!(f64_same(g, m.gauge), "gauge-value-wrong", "gauge {:?} model {:?}", g, m.gauge);
    ensure!(h.log.lock().unwrap().len() == want_log.len(), "delivery-wrong", "{} deliveries, expected {}", h.log.lock().unwrap().len(), want_log.len());
    Ok(())
}

impl Step {
    fn with_clone(self, t: usize) -> Step {
        match self {
            Step::CInc(_, v) => Step::CInc(t, v),
            Step::CAbs(_, v) => Step::CAbs(t, v),
            Step::GInc(_, a) => Step::GInc(t, a),
            Step::GDec(_, a) => Step::GDec(t, a),
            Step::GSet(_, a) => Step::GSet(t, a),
            Step::HRec(_, a) => Step::HRec(t, a),
            Step::HMany(_, a, n) => Step::HMany(t, a, n.min(64)),
            s => s,
        }
    }
}

fn apply_raw(h: &Handles, step: &Step) {
    match step {
        Step::CInc(c, v) => {
            h.counters[*c].increment(*v);
            h.log_counters[*c].increment(*v);
        }
        Step::CAbs(c, v) => {
            h.counters[*c].absolute(*v);
            h.log_counters[*c].absolute(*v);
        }
        Step::GInc(c, a) => with_arg!(a, |v| {
            h.gauges[*c].increment(v.clone());
            h.log_gauges[*c].increment(v.clone());
        }),
        Step::GDec(c, a) => with_arg!(a, |v| {
            h.gauges[*c].decrement(v.clone());
            h.log_gauges[*c].decrement(v.clone());
        }),
        Step::GSet(c, a) => with_arg!(a, |v| {
            h.gauges[*c].set(v.clone());
            h.log_gauges[*c].set(v.clone());
        }),
        Step::HRec(c, a) => with_arg!(a, |v| h.hists[*c].record(v.clone())),
        Step::HMany(c, a, n) => with_arg!(a, |v| h.hists[*c].record_many(v.clone(), *n)),
        Step::Noop(..) => {}
    }
}

fn stress(pr: &PropRun) -> LaneReport {
    let start = std::time::Instant::now();
    let mut rep = LaneReport::named("stress-16-threads");
    let rounds = pr.cfg.cases(12, 600);
    for round in 0..rounds {
        let c_atomic = Arc::new(AtomicU64::new(0));
        let g_atomic = Arc::new(AtomicU64::new(0f64.to_bits()));
        let a_atomic = Arc::new(AtomicU64::new(0));
        let counter = Counter::from_arc(c_atomic.clone());
        let gauge = Gauge::from_arc(g_atomic.clone());
        let abs_counter = Counter::from_arc(a_atomic.clone());
        let per = 100_000usize;
        let threads = 16usize;
        let go = AtomicBool::new(false);
        let stop = AtomicBool::new(false);
        let decreased: Mutex<Option<(u64, u64)>> = Mutex::new(None);
        std::thread::scope(|s| {
            for t in 0..threads {
                let (counter, gauge, abs_counter, go) = (counter.clone(), gauge.clone(), abs_counter.clone(), &go);
                s.spawn(move || {
                    while !go.load(Ordering::Acquire) {
                        std::hint::spin_loop();
                    }
                    for i in 0..per {
                        counter.increment((i % 5) as u64 + t as u64);
                        // exactly summable deltas: multiples of 1/8, net effect per thread known
                        if i % 2 == 0 {
                            gauge.increment(((i % 7) as f64 + 1.0) / 8.0);
                        } else {
                            gauge.decrement(((i % 3) as f64) / 8.0);
                        }
                        if i % 16 == 0 {
                            abs_counter.absolute((i * threads + t) as u64);
                        } else if i % 16 == 8 {
                            abs_counter.increment(1);
                        }
                    }
                });
            }
            {
                let (a_atomic, stop, decreased) = (&a_atomic, &stop, &decreased);
                s.spawn(move || {
                    let mut last = 0u64;
                    while !stop.load(Ordering::Acquire) {
                        let v = a_atomic.load(Ordering::SeqCst);
                        if v < last {
                            *decreased.lock().unwrap() = Some((last, v));
                        }
                        last = v;
                    }
                });
            }
            go.store(true, Ordering::Release);
            // wait for workers by polling the increment counter's expected total
            let want: u64 = (0..threads).map(|t| (0..per).map(|i| (i % 5) as u64 + t as u64).sum::<u64>()).sum();
            let t0 = std::time::Instant::now();
            while c_atomic.load(Ordering::SeqCst) != want && t0.elapsed() < Duration::from_secs(20) {
                std::thread::yield_now();
            }
            std::thread::sleep(Duration::from_millis(5));
            stop.store(true, Ordering::Release);
        });
        let want_c: u64 = (0..threads).map(|t| (0..per).map(|i| (i % 5) as u64 + t as u64).sum::<u64>()).sum();
        let want_g: f64 = threads as f64 * (0..per).map(|i| if i % 2 == 0 { ((i % 7) as f64 + 1.0) / 8.0 } else { -((i % 3) as f64) / 8.0 }).sum::<f64>();
        let max_abs = (0..per).filter(|i| i % 16 == 0).map(|i| (i * threads + threads - 1) as u64).max().unwrap_or(0);
        let got_c = c_atomic.load(Ordering::SeqCst);
        let got_g = f64::from_bits(g_atomic.load(Ordering::SeqCst));
        let got_a = a_atomic.load(Ordering::SeqCst);
        let mut ctx = Ctx::default();
        ctx.fingerprint = Some(round);
        ctx.nontrivial("sixteen-threads-on-shared-handles");
        if round == 0 {
            ctx.desc = Some(format!("16 threads x {} ops on clones of one counter, one gauge (deltas k/8) and one counter mixing absolute and increment", per));
        }
        rep.account(ctx);
        let problem = if got_c != want_c {
            Some(format!("increment-only counter ended at {} but the increments sum to {}", got_c, want_c))
        } else if got_g != want_g {
            Some(format!("gauge ended at {} but its exactly summable deltas total {}", got_g, want_g))
        } else if got_a < max_abs {
            Some(format!("counter under absolute updates ended at {} below the largest absolute value {}", got_a, max_abs))
        } else {
            decreased.lock().unwrap().map(|(a, b)| format!("counter under absolute updates was observed going from {} down to {}", a, b))
        };
        if let Some(msg) = problem {
            rep.violations.push(Violation { lane: "stress-16-threads".into(), sig: "stress-lost-or-misapplied-update".into(), msg, bytes: vec![], sched: vec![], decoded: format!("round {} (free-running)", round) });
            break;
        }
    }
    // second stress: threads publish interleaved ascending absolute values back to back; after each call the
    // counter must be at least what that thread just published, each thread's own reads never decrease, and the
    // final value is at least the largest value given
    let rounds = pr.cfg.cases(6, 300);
    for round in 0..rounds {
        if !rep.violations.is_empty() {
            break;
        }
        let a = Arc::new(AtomicU64::new(0));
        let c = Counter::from_arc(a.clone());
        let nthreads = 4 + (round as usize % 5);
        let per = 150_000u64;
        let go = AtomicBool::new(false);
        let bad: Mutex<Option<String>> = Mutex::new(None);
        std::thread::scope(|s| {
            for t in 0..nthreads as u64 {
                let (c, a, go, bad) = (c.clone(), &a, &go, &bad);
                s.spawn(move || {
                    while !go.load(Ordering::Acquire) {
                        std::hint::spin_loop();
                    }
                    let mut last_read = 0u64;
                    for i in 0..per {
                        let v = i * nthreads as u64 + t + 1;
                        c.absolute(v);
                        let r = a.load(Ordering::SeqCst);
                        if r < v {
                            *bad.lock().unwrap() = Some(format!("after absolute({}) the counter read {}", v, r));
                            return;
                        }
                        if r < last_read {
                            *bad.lock().unwrap() = Some(format!("counter went backwards: read {} and later {}", last_read, r));
                            return;
                        }
                        last_read = r;
                    }
                });
            }
            go.store(true, Ordering::Release);
        });
        let max = (per - 1) * nthreads as u64 + nthreads as u64;
        let fin = a.load(Ordering::SeqCst);
        let mut ctx = Ctx::default();
        ctx.fingerprint = Some(10_000 + round);
        ctx.nontrivial("threads-hammering-absolute");
        if round == 0 {
            ctx.desc = Some(format!("{} threads x {} interleaved ascending absolute() calls on clones of one counter", nthreads, per));
        }
        rep.account(ctx);
        let problem = bad.into_inner().unwrap().or(if fin < max { Some(format!("counter ended at {} below the largest absolute value {}", fin, max)) } else { None });
        if let Some(msg) = problem {
            rep.violations.push(Violation { lane: "stress-16-threads".into(), sig: "stress-absolute-not-monotone".into(), msg, bytes: vec![], sched: vec![], decoded: format!("absolute hammer round {} (free-running)", round) });
        }
    }
    rep.wall_s = start.elapsed().as_secs_f64();
    rep
}

pub fn run(cfg: &RunCfg, replay: Option<&str>) -> i32 {
    let mut pr = PropRun::new("C04", cfg, RULE);
    pr.register("sequences", &case_seq);
    pr.register("threads-op-granularity", &case_threads);
    if let Some(f) = replay {
        return pr.replay(f);
    }
    pr.assume("gauge arithmetic is compared bit-exactly against f64 arithmetic applied in execution order (NaN equal to NaN); the stress lane's lost-update detection is probabilistic");
    let r = pr.run_regressions();
    pr.push(r);
    let c = pr.cfg.clone();
    let r = run_lane(&c, "C04", &Lane { name: "sequences", cases: c.cases(300_000, 10_000_000), max_len: 300, sched_len: 0, workers: 0, f: &case_seq });
    pr.push(r);
    let r = run_lane(&c, "C04", &Lane { name: "threads-op-granularity", cases: c.cases(200_000, 5_000_000), max_len: 120, sched_len: 32, workers: 0, f: &case_threads });
    pr.push(r);
    let r = stress(&pr);
    pr.push(r);
    pr.finish()
}
