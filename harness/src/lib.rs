//! /verif harness library: engine, doubles, parsers and the per-property checks. The `harness`
//! binary drives them with proptest; the cargo-fuzz targets under /verif/fuzz drive the same case
//! functions with libFuzzer.
#![allow(clippy::all)]
#![allow(dead_code)]

pub mod alloc;
#[macro_use]
pub mod engine;
pub mod doubles;
pub mod parsers;
pub mod props;
pub mod util;

/// Entry point for fuzz targets: runs one case of `lane` of property `id`; panics (so that
/// libFuzzer records a crash artifact) when the oracle fails with a signature that is not a listed
/// known finding.
pub fn fuzz_one(id: &str, lane: &str, split: bool, data: &[u8]) {
    use engine::runner::{run_case, Ctx};
    let Some(f) = props::fuzz_entry(id, lane) else { panic!("no fuzz entry for {} {}", id, lane) };
    // schedule lanes: the first byte gives the length of the case bytes, the remainder is the schedule
    let (case, sched): (&[u8], &[u8]) = if split {
        match data.split_first() {
            Some((n, rest)) => rest.split_at((*n as usize).min(rest.len())),
            None => (&[], &[]),
        }
    } else {
        (data, &[])
    };
    let mut ctx = Ctx::default();
    if let Err(fail) = run_case(f, case, sched, &mut ctx) {
        let known = engine::report::load_known(id).iter().any(|k| k.status == "known" && k.signature == fail.sig);
        if !known {
            panic!("VIOLATION property={} lane={} signature={} message={} decoded={}", id, lane, fail.sig, fail.msg, ctx.desc.unwrap_or_default());
        }
    }
}
