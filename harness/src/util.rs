//! Shared helpers: arenas for `'static` data that is reclaimed after a case, NaN-aware float
//! comparison, recording hasher.

use std::hash::Hasher;

/// Hands out `&'static` references to leaked data and frees them when dropped. Everything that
/// borrows from the arena must be dropped before it (declare the arena first).
#[derive(Default)]
pub struct StaticArena {
    strs: Vec<*mut str>,
    labels: Vec<*mut [metrics::Label]>,
}

impl StaticArena {
    pub fn new() -> Self {
        Self::default()
    }
    pub fn str(&mut self, s: &str) -> &'static str {
        let p = Box::into_raw(s.to_string().into_boxed_str());
        self.strs.push(p);
        unsafe { &*p }
    }
    pub fn labels(&mut self, l: Vec<metrics::Label>) -> &'static [metrics::Label] {
        let p = Box::into_raw(l.into_boxed_slice());
        self.labels.push(p);
        unsafe { &*p }
    }
}

impl Drop for StaticArena {
    fn drop(&mut self) {
        for p in self.labels.drain(..) {
            unsafe { drop(Box::from_raw(p)) }
        }
        for p in self.strs.drain(..) {
            unsafe { drop(Box::from_raw(p)) }
        }
    }
}

unsafe impl Send for StaticArena {}

/// Bit equality, with all NaNs equal.
pub fn f64_same(a: f64, b: f64) -> bool {
    (a.is_nan() && b.is_nan()) || a.to_bits() == b.to_bits()
}

/// A `Hasher` that records the byte stream written into it.
#[derive(Default)]
pub struct RecordingHasher(pub Vec<u8>);

impl Hasher for RecordingHasher {
    fn finish(&self) -> u64 {
        0
    }
    fn write(&mut self, bytes: &[u8]) {
        self.0.extend_from_slice(bytes);
        self.0.push(0xfe); // call boundary
    }
}
